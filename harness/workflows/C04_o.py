import os, sys; sys.path.insert(0, os.getcwd())

# C04 demo 1: the tiles that a TOAST `Pyramid` hands to a `visit_leaves`
# callback must be the tiles of the coordinate system that the pyramid was
# created with -- the same corners and diagonal orientation that
# `generate_tiles`, `create_single_tile` and `toast_tile_for_point` report for
# that position -- no matter which other pyramids the program has created in
# the meantime.
#
# Scenario: a program that tiles a planetary map and a sky map sets up both
# pyramids first and then walks them.

import numpy as np

import toasty
from toasty.pyramid import Pyramid
from toasty.toast import (
    ToastCoordinateSystem,
    create_single_tile,
    generate_tiles,
    toast_tile_area,
    toast_tile_for_point,
)

print("toasty imported from", os.path.dirname(toasty.__file__))

PLANETARY = ToastCoordinateSystem.PLANETARY
ASTRONOMICAL = ToastCoordinateSystem.ASTRONOMICAL
DEPTH = 3

problems = []


def lonlat_close(a, b):
    """Compare two (lon, lat) corner arrays, longitudes modulo 2pi."""
    a = np.asarray(a, dtype=float)
    b = np.asarray(b, dtype=float)
    dlon = (a[..., 0] - b[..., 0] + np.pi) % (2 * np.pi) - np.pi
    # at the poles the longitude is meaningless
    polar = np.abs(np.abs(a[..., 1]) - 0.5 * np.pi) < 1e-12
    dlon = np.where(polar, 0.0, dlon)
    return np.all(np.abs(dlon) < 1e-12) and np.all(np.abs(a[..., 1] - b[..., 1]) < 1e-12)


def collect_leaves(pyramid):
    got = {}

    def callback(pos, tile):
        got[pos] = tile

    pyramid.visit_leaves(callback, parallel=1)
    return got


def check_pyramid(label, pyramid, coordsys):
    """Compare what the pyramid hands out with the three other routes."""
    leaves = collect_leaves(pyramid)
    reference = dict((t.pos, t) for t in generate_tiles(DEPTH, coordsys=coordsys))

    if set(leaves) != set(reference):
        problems.append(f"{label}: visited positions differ from generate_tiles()")
        return

    n_bad_corners = 0
    n_bad_single = 0
    n_bad_lookup = 0
    first = None
    area = 0.0

    for pos, tile in sorted(leaves.items()):
        ref = reference[pos]
        area += toast_tile_area(tile)

        if tile.pos != pos:
            problems.append(f"{label}: callback got pos {pos} with tile for {tile.pos}")

        if not lonlat_close(tile.corners, ref.corners) or tile.increasing != ref.increasing:
            n_bad_corners += 1
            if first is None:
                first = (pos, np.degrees(np.asarray(tile.corners)), np.degrees(np.asarray(ref.corners)))

        single = create_single_tile(pos, coordsys=coordsys)
        if not lonlat_close(tile.corners, single.corners) or tile.increasing != single.increasing:
            n_bad_single += 1

        # Point lookup: the centre of the tile (midpoint of its diagonal, taken
        # on the unit sphere) must be found in this very position.
        c = np.asarray(tile.corners, dtype=float)
        xyz = np.array(
            [
                np.cos(c[:, 1]) * np.cos(c[:, 0]),
                np.cos(c[:, 1]) * np.sin(c[:, 0]),
                np.sin(c[:, 1]),
            ]
        ).sum(axis=1)
        xyz /= np.linalg.norm(xyz)
        lat = np.arcsin(xyz[2])
        lon = np.arctan2(xyz[1], xyz[0]) % (2 * np.pi)
        found = toast_tile_for_point(DEPTH, lat, lon, coordsys=coordsys)
        if found.pos != pos:
            n_bad_lookup += 1

    if abs(area - 4 * np.pi) > 1e-6:
        problems.append(f"{label}: leaf areas sum to {area!r}, not 4 pi")

    if n_bad_corners:
        pos, got, want = first
        problems.append(
            f"{label}: {n_bad_corners} of {len(leaves)} leaf tiles handed to the "
            f"visit_leaves callback differ from generate_tiles(coordsys={coordsys.value}); "
            f"first at {pos}:\n   got corners (deg)  {got.round(3).tolist()}\n"
            f"   want corners (deg) {want.round(3).tolist()}"
        )

    if n_bad_single:
        problems.append(
            f"{label}: {n_bad_single} leaf tiles differ from create_single_tile(pos, {coordsys.value})"
        )

    if n_bad_lookup:
        problems.append(
            f"{label}: for {n_bad_lookup} leaf tiles, toast_tile_for_point(centre, {coordsys.value}) "
            f"lands in a different position than the one the tile was handed out for"
        )

    print(
        f"{label}: {len(leaves)} leaves, bad corners {n_bad_corners}, "
        f"bad vs single {n_bad_single}, bad lookups {n_bad_lookup}"
    )


# 1. One pyramid at a time (this is how `sample_layer` uses the class).

check_pyramid("planet, alone", Pyramid.new_toast(DEPTH, coordsys=PLANETARY), PLANETARY)
check_pyramid("sky, alone", Pyramid.new_toast(DEPTH, coordsys=ASTRONOMICAL), ASTRONOMICAL)

# 2. Both pyramids are set up first, then walked.

p_planet = Pyramid.new_toast(DEPTH, coordsys=PLANETARY)
p_sky = Pyramid.new_toast(DEPTH)  # default: astronomical
check_pyramid("planet, created before a sky pyramid", p_planet, PLANETARY)
check_pyramid("sky, created after a planet pyramid", p_sky, ASTRONOMICAL)

# 3. The other order.

p_sky = Pyramid.new_toast(DEPTH)
p_planet = Pyramid.new_toast(DEPTH, coordsys=PLANETARY)
check_pyramid("sky, created before a planet pyramid", p_sky, ASTRONOMICAL)
check_pyramid("planet, created after a sky pyramid", p_planet, PLANETARY)

# 4. The documented layout, seen through a pyramid that is walked late: in a
# planetary map longitude 0 (northern hemisphere) runs from the centre of the
# square to the *left*, so the point lon=0, lat=45deg lies in the left half.

p_planet = Pyramid.new_toast(1, coordsys=PLANETARY)
_p_other = Pyramid.new_toast(1, coordsys=ASTRONOMICAL)
lon0_owner = None

for pos, tile in collect_leaves(p_planet).items():
    c = np.asarray(tile.corners, dtype=float)
    # the level-1 tile whose equatorial corners are at lon 0 and lon 90deg holds
    # the quadrant 0 <= lon <= 90
    eq = sorted(round(float(np.degrees(l)) % 360, 6) for l, b in c if abs(b) < 1e-12)
    if eq == [0.0, 90.0]:
        lon0_owner = pos

# quadrant 0..90 sits at the lower left in the planetary layout
if lon0_owner is None or (lon0_owner.x, lon0_owner.y) != (0, 1):
    problems.append(
        f"planetary layout: the lon 0..90 quadrant was handed out for position {lon0_owner}, "
        f"the documented planetary layout puts it at (n=1, x=0, y=1)"
    )

if problems:
    print()
    print("PROPERTY C04 VIOLATED:")
    for p in problems:
        print(" -", p)
    sys.exit(1)

print("OK: every pyramid handed out the tiles of its own coordinate system")
