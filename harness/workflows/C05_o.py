import os, sys; sys.path.insert(0, os.getcwd())

# Demonstration for C05: the 256x256 pixel grid of the TOAST tile (n, x, y) is
# the set of centres of the tiles (n+8, 256x+j, 256y+i), where the deeper tiles
# are obtained through the public single-tile constructor
# `toasty.toast.create_single_tile(pos, coordsys)`.
#
# Exits 0 if everything is consistent, 1 (with a report) otherwise.

import numpy as np

from toasty import toast
from toasty._libtoasty import mid
from toasty.pyramid import Pos
from toasty.toast import ToastCoordinateSystem, create_single_tile, toast_tile_get_coords

assert os.path.dirname(os.path.abspath(toast.__file__)) == os.path.join(
    os.getcwd(), "toasty"
), "this demo must test the worktree it is started from"

problems = []
shown = {}


def complain(msg, kind="tile"):
    # Print at most eight reports of each kind; count them all.
    shown[kind] = shown.get(kind, 0) + 1

    if shown[kind] <= 8:
        print("PROBLEM:", msg)

    problems.append(msg)


def unit(lon, lat):
    return np.array([np.cos(lat) * np.cos(lon), np.cos(lat) * np.sin(lon), np.sin(lat)])


def centre(tile):
    ul, ur, lr, ll = tile.corners
    return mid(ll, ur) if tile.increasing else mid(ul, lr)


def corners_close(a, b):
    for ca, cb in zip(a.corners, b.corners):
        if np.abs(unit(*ca) - unit(*cb)).max() > 1e-9:
            return False
    return True


rng = np.random.RandomState(20260501)

for coordsys in (ToastCoordinateSystem.ASTRONOMICAL, ToastCoordinateSystem.PLANETARY):
    # (1) The single-tile constructor must hand back the tile that was asked
    # for, i.e. the same one that the bulk generator produces at that position.
    enumerated = {}

    for t in toast.generate_tiles(3, bottom_only=False, coordsys=coordsys):
        enumerated[t.pos] = t

    for pos, ref in sorted(enumerated.items()):
        got = create_single_tile(pos, coordsys)

        if tuple(got.pos) != tuple(pos):
            complain(
                f"{coordsys.value}: create_single_tile({pos}) returned the tile at {got.pos}"
            )
        elif got.increasing != ref.increasing or not corners_close(got, ref):
            complain(
                f"{coordsys.value}: create_single_tile({pos}) disagrees with generate_tiles()"
            )

    # (2) C05 itself: pixel (row i, column j) of tile (n, x, y) is the centre of
    # tile (n+8, 256x+j, 256y+i), and lies in the latitude range of the corners.
    shallow = [enumerated[Pos(1, 0, 0)], enumerated[Pos(1, 1, 0)]]
    shallow += [enumerated[Pos(2, 3, 1)], enumerated[Pos(2, 0, 2)], enumerated[Pos(3, 5, 2)]]

    for _ in range(3):
        n = int(rng.randint(4, 8))
        x, y = (int(v) for v in rng.randint(0, 2**n, size=2))
        t = create_single_tile(Pos(n, x, y), coordsys)

        if tuple(t.pos) != (n, x, y):
            complain(
                f"{coordsys.value}: create_single_tile({Pos(n, x, y)}) returned the tile at {t.pos}"
            )
            continue

        shallow.append(t)

    for t in shallow:
        lons, lats = toast_tile_get_coords(t)
        clats = [c[1] for c in t.corners]

        if lats.min() < min(clats) - 1e-12 or lats.max() > max(clats) + 1e-12:
            complain(f"{coordsys.value}: pixel latitudes of {t.pos} leave the corner range")

        pixels = [(0, 0), (0, 255), (255, 0), (255, 255), (127, 128), (128, 127), (10, 200)]
        pixels += [tuple(int(v) for v in rng.randint(0, 256, size=2)) for _ in range(25)]

        for i, j in pixels:
            dpos = Pos(t.pos.n + 8, 256 * t.pos.x + j, 256 * t.pos.y + i)
            deep = create_single_tile(dpos, coordsys)
            clon, clat = centre(deep)
            err = np.abs(unit(lons[i, j], lats[i, j]) - unit(clon, clat)).max()

            if err > 1e-9:
                complain(
                    f"{coordsys.value}: pixel (row {i}, col {j}) of tile {tuple(t.pos)} is at "
                    f"lon={lons[i, j]:.9f} lat={lats[i, j]:.9f}, but the centre of "
                    f"create_single_tile({tuple(dpos)}) [reports pos {tuple(deep.pos)}] is "
                    f"lon={clon:.9f} lat={clat:.9f} (|dvec|={err:.3e})",
                    kind="pixel",
                )

if problems:
    print(f"FAIL: {len(problems)} inconsistencies between a tile's pixel grid and the deeper tiles")
    sys.exit(1)

print("OK: pixel grids agree with the centres of the tiles eight levels deeper")
sys.exit(0)
