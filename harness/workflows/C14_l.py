import os, sys; sys.path.insert(0, os.getcwd())

"""
C14 demo 1: two FITS images on different parts of the sky, tiled into ONE
TOAST pyramid with `toasty.tile_fits([...], tiling_method=TOAST)`.

The DATAMIN/DATAMAX of every tile, and the DataMin/DataMax of the WTML, must
describe all of the leaf tiles beneath it -- i.e. both images, not just one.

Exit status 0: property holds.  Non-zero: it does not (details printed).
"""

import shutil
import tempfile
import warnings

import numpy as np
from astropy.io import fits
from astropy.wcs import WCS

warnings.simplefilter("ignore")

import toasty
from toasty import TilingMethod, tile_fits

DEPTH = 3


def make_fits(path, ra_deg, dec_deg, lo, hi, seed):
    """A 96x96 image, 0.12 deg/pixel (~11.5 deg across), values in [lo, hi]."""
    n = 96
    rng = np.random.RandomState(seed)
    data = rng.uniform(lo, hi, size=(n, n)).astype(np.float32)
    data[10, 10] = lo  # make the extremes exact and well inside the image
    data[60, 40] = hi
    data[20:24, 30:34] = np.nan  # a few undefined pixels

    w = WCS(naxis=2)
    w.wcs.ctype = ["RA---TAN", "DEC--TAN"]
    w.wcs.crval = [ra_deg, dec_deg]
    w.wcs.crpix = [(n + 1) / 2, (n + 1) / 2]
    w.wcs.cdelt = [-0.12, 0.12]
    hdu = fits.PrimaryHDU(data, header=w.to_header())
    hdu.writeto(path, overwrite=True)


def leaf_ranges(out_dir, depth):
    """Map Pos-tuple -> (min, max) of finite data for each leaf tile on disk."""
    res = {}
    d = os.path.join(out_dir, str(depth))
    for ydir in sorted(os.listdir(d)):
        for fn in sorted(os.listdir(os.path.join(d, ydir))):
            if not fn.endswith(".fits"):
                continue
            y, x = fn[:-5].split("_")
            with fits.open(os.path.join(d, ydir, fn)) as hdul:
                arr = hdul[0].data
                fin = arr[np.isfinite(arr)]
                if fin.size:
                    res[(depth, int(x), int(y))] = (float(fin.min()), float(fin.max()))
    return res


def close(a, b):
    return abs(float(a) - float(b)) <= 1e-6 * max(1.0, abs(float(a)), abs(float(b)))


def check_pyramid(out_dir, depth, bld):
    problems = []
    leaves = leaf_ranges(out_dir, depth)
    if not leaves:
        return ["no leaf tiles were written at all"], (np.inf, -np.inf)

    for n in range(depth, -1, -1):
        shift = depth - n
        # expected range per tile at level n
        expected = {}
        for (_d, x, y), (lo, hi) in leaves.items():
            key = (x >> shift, y >> shift)
            if key in expected:
                e = expected[key]
                expected[key] = (min(e[0], lo), max(e[1], hi))
            else:
                expected[key] = (lo, hi)

        for (x, y), (lo, hi) in sorted(expected.items()):
            p = os.path.join(out_dir, str(n), str(y), "%d_%d.fits" % (y, x))
            if not os.path.exists(p):
                problems.append(
                    "tile %d/%d/%d_%d.fits is missing although leaf tiles exist beneath it"
                    % (n, y, y, x)
                )
                continue
            with fits.open(p) as hdul:
                h = hdul[0].header
                dmin, dmax = h.get("DATAMIN"), h.get("DATAMAX")
            if dmin is None or dmax is None:
                problems.append("tile %s lacks DATAMIN/DATAMAX" % p)
            elif not (close(dmin, lo) and close(dmax, hi)):
                problems.append(
                    "tile %d/%d/%d_%d.fits: header range [%r, %r] but the leaves beneath it span [%r, %r]"
                    % (n, y, y, x, dmin, dmax, lo, hi)
                )

    all_lo = min(v[0] for v in leaves.values())
    all_hi = max(v[1] for v in leaves.values())

    # The returned builder
    if not (close(bld.imgset.data_min, all_lo) and close(bld.imgset.data_max, all_hi)):
        problems.append(
            "builder.imgset data range [%r, %r] != full-resolution range [%r, %r]"
            % (bld.imgset.data_min, bld.imgset.data_max, all_lo, all_hi)
        )

    # The WTML on disk
    from wwt_data_formats.folder import Folder
    from wwt_data_formats.place import Place

    item = Folder.from_file(os.path.join(out_dir, "index_rel.wtml")).children[0]
    imgset = item.foreground_image_set if isinstance(item, Place) else item
    if not (close(imgset.data_min, all_lo) and close(imgset.data_max, all_hi)):
        problems.append(
            "index_rel.wtml DataMin/DataMax [%r, %r] != full-resolution range [%r, %r]"
            % (imgset.data_min, imgset.data_max, all_lo, all_hi)
        )

    return problems, (all_lo, all_hi)


def run(parallel, work):
    f1 = os.path.join(work, "bright.fits")
    f2 = os.path.join(work, "faint.fits")
    # First image: bright field (values 100..200) around RA=40, Dec=+30
    make_fits(f1, 40.0, 30.0, 100.0, 200.0, seed=1)
    # Second image: faint field (values 1..2) around RA=220, Dec=-35
    make_fits(f2, 220.0, -35.0, 1.0, 2.0, seed=2)

    out_dir = os.path.join(work, "out_p%d" % parallel)
    out, bld = tile_fits(
        [f1, f2],
        out_dir=out_dir,
        tiling_method=TilingMethod.TOAST,
        start=DEPTH,
        parallel=parallel,
        override=True,
    )
    problems, full = check_pyramid(out, DEPTH, bld)

    # Sanity: the leaves must really contain both fields, otherwise the
    # demonstration is meaningless.
    if not (full[0] < 2.5 and full[1] > 99.0):
        problems.append(
            "demo sanity: the leaf layer does not hold both input images (range %r)" % (full,)
        )
    return problems


def main():
    print("toasty imported from", os.path.dirname(toasty.__file__))
    work = tempfile.mkdtemp(prefix="c14demo1_")
    rc = 0
    try:
        for parallel in (1, 2):
            problems = run(parallel, work)
            if problems:
                rc = 1
                print("parallel=%d: C14 VIOLATED:" % parallel)
                for p in problems[:12]:
                    print("   -", p)
                if len(problems) > 12:
                    print("   ... and %d more" % (len(problems) - 12))
            else:
                print("parallel=%d: ok, every tile and the WTML carry the leaves' range" % parallel)
    finally:
        shutil.rmtree(work, ignore_errors=True)
    return rc


if __name__ == "__main__":
    sys.exit(main())
