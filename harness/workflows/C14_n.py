import os, sys; sys.path.insert(0, os.getcwd())

# Demo for C14: a two-chip mosaic on a common TAN projection is tiled with
# `toasty.tile_fits` (multi-TAN path) and, separately, with the command line
# (`toasty tile-multi-tan` + `toasty cascade`). The chips are adjacent and their
# common edge does not fall on a tile boundary, so some leaf tiles receive
# pixels from both chips -- the ordinary situation for any real mosaic.
#
# Checked afterwards, for every tile of the pyramid: DATAMIN/DATAMAX equal the
# min/max finite value over the leaf tiles' *pixels* beneath it; and the
# ImageSet returned by tile_fits as well as the index_rel.wtml on disk carry the
# root's (= the full-resolution data's) range.

import glob
import re
import shutil
import tempfile
import warnings

import numpy as np
from astropy.io import fits

warnings.simplefilter("ignore")

import toasty
from toasty import TilingMethod, tile_fits, cli

problems = []


def make_chip(path, data, crpix1, crpix2):
    h = fits.Header()
    h["CTYPE1"] = "RA---TAN"
    h["CTYPE2"] = "DEC--TAN"
    h["CRVAL1"] = 30.0
    h["CRVAL2"] = 10.0
    h["CDELT1"] = -0.001
    h["CDELT2"] = 0.001
    h["CRPIX1"] = float(crpix1)
    h["CRPIX2"] = float(crpix2)
    fits.writeto(path, data.astype(np.float32), header=h, overwrite=True)


def leaf_level(outdir):
    return max(int(os.path.basename(d)) for d in glob.glob(os.path.join(outdir, "*")) if os.path.basename(d).isdigit())


def read_tile(outdir, n, x, y):
    p = os.path.join(outdir, str(n), str(y), "%d_%d.fits" % (y, x))
    if not os.path.exists(p):
        return None
    with fits.open(p) as hdul:
        hdr = hdul[0].header
        return (hdr.get("DATAMIN"), hdr.get("DATAMAX"), np.array(hdul[0].data))


def check_pyramid(label, outdir):
    """Every tile's recorded range == finite range of the leaf pixels beneath it."""
    depth = leaf_level(outdir)
    # true[(n, x, y)] = (min, max) over leaf pixels beneath, or None
    true = {}

    for y in range(2**depth):
        for x in range(2**depth):
            t = read_tile(outdir, depth, x, y)
            if t is None:
                continue
            arr = t[2]
            fin = arr[np.isfinite(arr)]
            if fin.size:
                true[(depth, x, y)] = (float(fin.min()), float(fin.max()))

    for n in range(depth - 1, -1, -1):
        for y in range(2**n):
            for x in range(2**n):
                kids = [
                    true.get((n + 1, 2 * x + dx, 2 * y + dy))
                    for dy in (0, 1)
                    for dx in (0, 1)
                ]
                kids = [k for k in kids if k is not None]
                if kids:
                    true[(n, x, y)] = (min(k[0] for k in kids), max(k[1] for k in kids))

    n_checked = 0
    for (n, x, y), (tmin, tmax) in sorted(true.items()):
        t = read_tile(outdir, n, x, y)
        if t is None:
            problems.append("%s: tile %d/%d/%d_%d.fits is missing" % (label, n, y, y, x))
            continue
        n_checked += 1
        rmin, rmax = t[0], t[1]
        if rmin is None or rmax is None:
            problems.append("%s: tile L%d x%d y%d lacks DATAMIN/DATAMAX" % (label, n, x, y))
            continue
        if not (np.float32(rmin) == np.float32(tmin) and np.float32(rmax) == np.float32(tmax)):
            problems.append(
                "%s: tile L%d x%d y%d records DATAMIN/DATAMAX = (%r, %r) but the leaf pixels beneath it span (%r, %r)"
                % (label, n, x, y, rmin, rmax, tmin, tmax)
            )

    print("%s: depth %d, %d tiles checked" % (label, depth, n_checked))
    return true.get((0, 0, 0))


def wtml_range(outdir):
    with open(os.path.join(outdir, "index_rel.wtml"), "rt", encoding="utf8") as f:
        text = f.read()
    lo = re.search(r'DataMin="([^"]*)"', text)
    hi = re.search(r'DataMax="([^"]*)"', text)
    return (float(lo.group(1)) if lo else None, float(hi.group(1)) if hi else None)


work = tempfile.mkdtemp(prefix="c14demo_")

try:
    rng = np.random.RandomState(7)

    # Chip A: faint, values in [1, 2]. Chip B: bright, values in [50, 900],
    # with a few NaNs. A is 300x300 and B is 300 rows x 340 columns; B sits
    # immediately to the right of A, so the mosaic is 640x300. Toasty centres it
    # in the 1024x1024 leaf level (offset 192), which puts the A|B edge at
    # column 492, inside tile column 1 (columns 256..511).
    a = 1.0 + rng.rand(300, 300)
    b = 50.0 + 850.0 * rng.rand(300, 340)
    b[10:20, 30:60] = np.nan
    # The faintest pixel of A and the brightest pixel of B both lie in a leaf
    # tile that the two chips share, so whichever chip is tiled first (the
    # order differs between serial and parallel runs), the true overall
    # minimum or the true overall maximum is in a tile that gets updated twice.
    a[100, 200] = 0.25
    b[100, 5] = 5000.0
    true_lo = float(np.float32(min(np.nanmin(a), np.nanmin(b))))
    true_hi = float(np.float32(max(np.nanmax(a), np.nanmax(b))))

    pa = os.path.join(work, "chip_a.fits")
    pb = os.path.join(work, "chip_b.fits")
    make_chip(pa, a, 300.5, 150.5)
    make_chip(pb, b, 0.5, 150.5)

    # --- 1. Python API, serial and parallel --------------------------------

    for par in (1, 2):
        label = "tile_fits(parallel=%d)" % par
        outdir = os.path.join(work, "api_par%d" % par)
        out, bld = tile_fits(
            [pa, pb],
            out_dir=outdir,
            tiling_method=TilingMethod.TAN,
            parallel=par,
            override=True,
        )
        root = check_pyramid(label, out)

        if root is None:
            problems.append("%s: no data found" % label)
            continue

        if not (np.float32(root[0]) == np.float32(true_lo) and np.float32(root[1]) == np.float32(true_hi)):
            problems.append(
                "%s: demo self-check: leaf pixels span %r but the inputs span (%r, %r)"
                % (label, root, true_lo, true_hi)
            )

        got = (bld.imgset.data_min, bld.imgset.data_max)
        if not (np.float32(got[0]) == np.float32(true_lo) and np.float32(got[1]) == np.float32(true_hi)):
            problems.append(
                "%s: returned ImageSet has data range %r, but the full-resolution data span (%r, %r)"
                % (label, got, true_lo, true_hi)
            )

        got = wtml_range(out)
        if got[0] is None or not (
            np.float32(got[0]) == np.float32(true_lo) and np.float32(got[1]) == np.float32(true_hi)
        ):
            problems.append(
                "%s: index_rel.wtml has DataMin/DataMax %r, but the full-resolution data span (%r, %r)"
                % (label, got, true_lo, true_hi)
            )

    # --- 2. command line: tile-multi-tan + cascade -------------------------

    outdir = os.path.join(work, "cli")
    cli.entrypoint(["tile-multi-tan", "--parallelism", "1", "--outdir", outdir, pa, pb])
    depth = leaf_level(outdir)
    cli.entrypoint(["cascade", "--parallelism", "1", "--start", str(depth), outdir])
    root = check_pyramid("cli tile-multi-tan + cascade", outdir)

    t = read_tile(outdir, 0, 0, 0)
    if t is None:
        problems.append("cli: no root tile")
    elif not (np.float32(t[0]) == np.float32(true_lo) and np.float32(t[1]) == np.float32(true_hi)):
        problems.append(
            "cli: root tile records (%r, %r), but the full-resolution data span (%r, %r)"
            % (t[0], t[1], true_lo, true_hi)
        )
finally:
    shutil.rmtree(work, ignore_errors=True)

if problems:
    print()
    print("C14 VIOLATED (toasty from %s):" % os.path.dirname(toasty.__file__))
    for p in problems:
        print("  - " + p)
    sys.exit(1)

print("OK: every tile's DATAMIN/DATAMAX matches the leaf pixels beneath it; ImageSet and WTML carry the true range")
sys.exit(0)
