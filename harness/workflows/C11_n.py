import os, sys; sys.path.insert(0, os.getcwd())

# Demo for change1 (C11): an all-sky plate-carree map that carries a decorative
# frame is tiled with `toasty tile-allsky --crop=V,H ...`.  The documentation
# (docs/cli/std-image-options.rst) says `--crop=V,H` is shorthand for
# `--crop=V,H,V,H` (TOP,RIGHT,BOTTOM,LEFT).  After cropping, the sampler must
# return, for every (lon, lat), the pixel of the *framed-off* map whose cell
# contains that point.
#
# Two observations are made, both against an oracle written here from the
# documented layout (lat +90 at the top row, longitude increasing to the left,
# lon 0 at the centre):
#   (A) every array returned by the sampler callable during the run;
#   (B) every pixel of the level-1 tiles written to disk.
# Points within a rounding tolerance of a cell boundary may resolve to either
# neighbouring cell.

import shutil
import tempfile

import numpy as np
from PIL import Image as PILImage

import toasty
from toasty import cli, samplers, toast

print("testing toasty from", os.path.dirname(toasty.__file__))

NY, NX = 24, 48  # the real map
V, H = 3, 5  # frame: V rows at top and bottom, H columns at left and right
FRAME = (255, 255, 255)
EPS = 1e-6


def make_truth():
    iy, ix = np.indices((NY, NX))
    t = np.empty((NY, NX, 3), dtype=np.uint8)
    t[..., 0] = 5 * ix  # 0..235
    t[..., 1] = 10 * iy  # 0..230
    t[..., 2] = (7 * ix + 3 * iy) % 251
    # every pixel colour is unique and none equals the frame colour
    assert len({tuple(p) for p in t.reshape(-1, 3)}) == NY * NX
    return t


def oracle_ok(truth, lon, lat, got):
    """Boolean array: does `got` equal the truth pixel containing (lon, lat),
    allowing either neighbour within EPS of a cell boundary?"""
    ny, nx = truth.shape[:2]
    fx = ((np.pi - lon) % (2 * np.pi)) / (2 * np.pi) * nx
    fy = (np.pi / 2 - lat) / np.pi * ny
    ok = np.zeros(lon.shape, dtype=bool)

    for sx in (-EPS, EPS):
        ix = np.floor(fx + sx).astype(int) % nx
        for sy in (-EPS, EPS):
            iy = np.clip(np.floor(fy + sy).astype(int), 0, ny - 1)
            ok |= np.all(truth[iy, ix] == got, axis=-1)

    return ok


def run(crop_arg):
    truth = make_truth()
    framed = np.empty((NY + 2 * V, NX + 2 * H, 3), dtype=np.uint8)
    framed[...] = FRAME
    framed[V : V + NY, H : H + NX] = truth

    work = tempfile.mkdtemp()
    problems = []

    try:
        png = os.path.join(work, "framed_map.png")
        PILImage.fromarray(framed).save(png)
        outdir = os.path.join(work, "tiles")

        # (A) record everything the sampler callable returns.
        records = []
        seen_shapes = []
        orig_factory = samplers.plate_carree_sampler

        def recording_factory(data):
            seen_shapes.append(np.asarray(data).shape)
            inner = orig_factory(data)

            def sampler(lon, lat):
                out = inner(lon, lat)
                records.append((np.array(lon), np.array(lat), np.array(out)))
                return out

            return sampler

        samplers.plate_carree_sampler = recording_factory
        try:
            cli.entrypoint(
                [
                    "tile-allsky",
                    "--projection=plate-carree",
                    "--crop=" + crop_arg,
                    "--outdir=" + outdir,
                    "--parallelism=1",
                    png,
                    "1",
                ]
            )
        finally:
            samplers.plate_carree_sampler = orig_factory

        if not records:
            problems.append("the sampler was never called")

        if seen_shapes and seen_shapes[0][:2] != (NY, NX):
            problems.append(
                "map handed to the sampler has shape %r, expected %r"
                % (seen_shapes[0][:2], (NY, NX))
            )

        n_bad = n_tot = 0
        first = None
        for lon, lat, out in records:
            if out.shape != lon.shape + (3,):
                problems.append("sampler output shape %r" % (out.shape,))
                continue
            ok = oracle_ok(truth, lon, lat, out)
            n_tot += ok.size
            n_bad += int((~ok).sum())
            if first is None and not ok.all():
                j = tuple(np.argwhere(~ok)[0])
                first = (float(lon[j]), float(lat[j]), tuple(int(c) for c in out[j]))

        if n_bad:
            problems.append(
                "(A) sampler returned the wrong source pixel at %d of %d points; "
                "e.g. lon=%.6f lat=%.6f -> %r" % ((n_bad, n_tot) + first)
            )

        # (B) the tiles on disk.
        n_bad = n_tot = n_frame = 0
        for tile in toast.generate_tiles(1, bottom_only=True):
            lon, lat = toast.toast_tile_get_coords(tile)
            p = os.path.join(
                outdir, "1", str(tile.pos.y), "%d_%d.png" % (tile.pos.y, tile.pos.x)
            )
            if not os.path.exists(p):
                problems.append("(B) missing tile " + p)
                continue
            arr = np.asarray(PILImage.open(p).convert("RGB"))
            ok = oracle_ok(truth, lon, lat, arr)
            n_tot += ok.size
            n_bad += int((~ok).sum())
            n_frame += int(np.all(arr == np.array(FRAME, dtype=np.uint8), axis=-1).sum())

        if n_bad:
            problems.append(
                "(B) %d of %d level-1 tile pixels differ from the map pixel containing "
                "their sky position (%d of them show the frame that --crop=%s should "
                "have removed)" % (n_bad, n_tot, n_frame, crop_arg)
            )
    finally:
        shutil.rmtree(work, ignore_errors=True)

    return problems


def main():
    failed = False

    # Control: the explicit four-value form of the same crop.
    label = "%d,%d,%d,%d" % (V, H, V, H)
    probs = run(label)
    print("--crop=%s (four-value form): %s" % (label, "OK" if not probs else "WRONG"))
    for p in probs:
        print("   ", p)
    failed |= bool(probs)

    # The documented two-value shorthand for exactly the same crop.
    label = "%d,%d" % (V, H)
    probs = run(label)
    print("--crop=%s (V,H shorthand): %s" % (label, "OK" if not probs else "WRONG"))
    for p in probs:
        print("   ", p)
    failed |= bool(probs)

    if failed:
        print("FAIL: C11 violated as observed through `toasty tile-allsky --crop`")
        return 1

    print("PASS")
    return 0


if __name__ == "__main__":
    sys.exit(main())
