import os, sys; sys.path.insert(0, os.getcwd())

# Demo for C11: the chunked planetary plate-carree sampler must return, for
# every (lon, lat) inside a chunk, the value of the global map pixel whose cell
# contains that point (lat +90 at the top row, lon increasing to the right,
# lon 0 at the centre), and must mask points outside the chunk.

import numpy as np
from toasty.samplers import ChunkedPlateCarreeSampler

H, W = 8, 16          # global map
TH, TW = 4, 8         # chunk (JPEG2000 "tile") shape: NOT square
GLOBAL = (np.arange(H * W, dtype=np.float32) + 1).reshape((H, W))


class FakeChunkedImage(object):
    """Duck-typed stand-in for ChunkedJPEG2000Reader (same layout rules)."""

    shape = (H, W)

    @property
    def n_chunks(self):
        return (H // TH) * (W // TW)

    def chunk_spec(self, ichunk):
        per_row = W // TW
        return TW * (ichunk % per_row), TH * (ichunk // per_row), TW, TH

    def chunk_data(self, ichunk):
        x, y, w, h = self.chunk_spec(ichunk)
        return GLOBAL[y : y + h, x : x + w].copy()


rng = np.random.RandomState(42)
# 256x256 sample points, each well inside a map cell (no boundary ambiguity).
gx = rng.randint(0, W, size=(256, 256))
gy = rng.randint(0, H, size=(256, 256))
fx = rng.uniform(0.1, 0.9, size=(256, 256))
fy = rng.uniform(0.1, 0.9, size=(256, 256))
lon = (gx + fx) * (2 * np.pi / W) - np.pi
lat = np.pi / 2 - (gy + fy) * (np.pi / H)

img = FakeChunkedImage()
chunker = ChunkedPlateCarreeSampler(img, planetary=True)
bad = 0

for ichunk in range(chunker.n_chunks):
    x, y, w, h = img.chunk_spec(ichunk)
    inside = (gx >= x) & (gx < x + w) & (gy >= y) & (gy < y + h)
    got = np.array(chunker.sampler(ichunk)(lon, lat), dtype=np.float64)
    if got.shape != (256, 256):
        print("chunk", ichunk, "unexpected result shape", got.shape)
        bad += 1
        continue
    want = GLOBAL[gy, gx].astype(np.float64)
    wrong_in = inside & ~(got == want)
    filled_out = ~inside & np.isfinite(got)
    if wrong_in.any() or filled_out.any():
        bad += 1
        print(
            "chunk %d (x=%d y=%d w=%d h=%d): %d of %d in-chunk points got the wrong "
            "pixel; %d out-of-chunk points were filled"
            % (ichunk, x, y, w, h, wrong_in.sum(), inside.sum(), filled_out.sum())
        )
        if wrong_in.any():
            j, i = np.argwhere(wrong_in)[0]
            print(
                "  e.g. lon=%.4f lat=%.4f lies in map pixel (row %d, col %d) = %g, sampler gave %r"
                % (lon[j, i], lat[j, i], gy[j, i], gx[j, i], want[j, i], got[j, i])
            )

if bad:
    print("FAIL: chunked plate-carree sampler returned wrong source pixels")
    sys.exit(1)

print("OK: every sample point got the pixel containing it")
