import os, sys; sys.path.insert(0, os.getcwd())

# Demo for change 2 (C12): at EVERY depth -- including the deep levels used for
# very high resolution maps -- the fractional pixel position returned by
# toast_pixel_for_point must lie within 2 pixels of the pixel (of the returned
# tile) whose centre is nearest to the point.
#
# The oracle is built here from first principles: the corners of the returned
# tile position are rebuilt in double precision from the ASTRONOMICAL level-1
# layout (adding pi to the longitudes for the planetary system, as documented at
# the top of toasty/toast.py), the 256x256 pixel centres are obtained from the
# low-level `subsample` routine, and the nearest centre is found with the
# haversine formula (which stays accurate for the tiny separations that occur at
# deep levels).

import numpy as np

from toasty._libtoasty import subsample
from toasty.toast import (
    ToastCoordinateSystem,
    create_single_tile,
    toast_pixel_for_point,
)

ASTRO = ToastCoordinateSystem.ASTRONOMICAL
PLANET = ToastCoordinateSystem.PLANETARY


def xyz(lat, lon):
    return np.array(
        [np.cos(lat) * np.cos(lon), np.cos(lat) * np.sin(lon), np.sin(lat)]
    )


def oracle_corners(pos, coordsys):
    t = create_single_tile(pos, ASTRO)
    corners = np.array([[c[0], c[1]] for c in t.corners], dtype=np.float64)
    if coordsys == PLANET:
        corners[:, 0] += np.pi
    return corners, t.increasing


def in_triangle(a, b, c, p, eps=1e-9):
    s = np.array(
        [np.dot(np.cross(a, b), p), np.dot(np.cross(b, c), p), np.dot(np.cross(c, a), p)]
    )
    return bool(np.all(s >= -eps) or np.all(s <= eps))


def tile_contains(corners, increasing, lat, lon):
    ul, ur, lr, ll = [xyz(c[1], c[0]) for c in corners]
    p = xyz(lat, lon)
    if increasing:
        return in_triangle(ul, ur, ll, p) or in_triangle(ur, lr, ll, p)
    return in_triangle(ul, ur, lr, p) or in_triangle(ul, lr, ll, p)


def nearest_pixel(corners, increasing, lat, lon):
    lons, lats = subsample(corners[0], corners[1], corners[2], corners[3], 256, increasing)
    assert lons.dtype == np.float64
    hav = (
        np.sin(0.5 * (lats - lat)) ** 2
        + np.cos(lat) * np.cos(lats) * np.sin(0.5 * (lons - lon)) ** 2
    )
    iy, ix = np.unravel_index(np.argmin(hav), hav.shape)
    return ix, iy


def main():
    rng = np.random.RandomState(2012)
    points = [
        (np.arcsin(rng.uniform(-0.97, 0.97)), rng.uniform(0, 2 * np.pi)) for _ in range(16)
    ]
    depths = [1, 2, 4, 7, 10, 13, 16, 18, 20, 22]
    problems = []
    worst = {}
    n_checked = 0

    for depth in depths:
        for coordsys in (ASTRO, PLANET):
            for lat, lon in points:
                tile, fx, fy = toast_pixel_for_point(depth, lat, lon, coordsys=coordsys)
                n_checked += 1
                tag = "%s depth=%d lat=%.6fdeg lon=%.6fdeg" % (
                    coordsys.value,
                    depth,
                    np.degrees(lat),
                    np.degrees(lon),
                )

                if tile.pos.n != depth:
                    problems.append("%s: tile %r has the wrong depth" % (tag, tile.pos))
                    continue

                corners, increasing = oracle_corners(tile.pos, coordsys)

                if not tile_contains(corners, increasing, lat, lon):
                    problems.append(
                        "%s: returned tile %r does not contain the point" % (tag, tile.pos)
                    )
                    continue

                ix, iy = nearest_pixel(corners, increasing, lat, lon)
                err = max(abs(fx - ix), abs(fy - iy))
                worst[depth] = max(worst.get(depth, 0.0), err)

                if not err <= 2:
                    problems.append(
                        "%s: tile %r: returned pixel (%.2f, %.2f) but nearest pixel centre is (%d, %d)"
                        % (tag, tile.pos, fx, fy, ix, iy)
                    )

    print("checked %d pixel lookups" % n_checked)
    print(
        "worst pixel error by depth: "
        + ", ".join("%d: %.2f" % (d, worst[d]) for d in sorted(worst))
    )

    if problems:
        print("FAIL: %d lookups violate the property; first few:" % len(problems))
        for p in problems[:10]:
            print("  " + p)
        return 1

    print("OK: all returned pixels are within 2 pixels of the nearest pixel centre")
    return 0


if __name__ == "__main__":
    sys.exit(main())
