import os, sys; sys.path.insert(0, os.getcwd())

"""
demo1 -- `toasty transform u8-to-rgb --outdir OUT` must transform every tile of
the pyramid exactly once, whatever `--parallelism` says.

We build a small pyramid of single-channel (U8) ``.npy`` tiles (depth 2: 21
tiles), then run the transform into a separate output directory twice, through
the real command-line entry point, in-process:

  * serially        (--parallelism 1)
  * with 3 workers  (--parallelism 3)

and check that each run produced exactly one RGB JPEG per input tile (the
complete item set), that the two runs produced the same files with the same
contents, and that the input pyramid was left alone. Nothing here depends on
timing: the check is made after the command has returned.

Exit status 0 = property holds; 1 = violated (details printed).
"""

import hashlib
import shutil
import tempfile

import numpy as np

import toasty
from toasty import cli
from toasty.image import Image
from toasty.pyramid import PyramidIO, generate_pos

DEPTH = 2


def build_input(path):
    pio = PyramidIO(path, default_format="npy")
    rng = np.random.default_rng(20240603)
    n = 0

    for pos in generate_pos(DEPTH):
        # smooth-ish but tile-specific content
        base = rng.integers(0, 200)
        arr = (
            base + (np.add.outer(np.arange(256), np.arange(256)) // 16) % 56
        ).astype(np.uint8)
        pio.write_image(pos, Image.from_array(arr), format="npy")
        n += 1

    return n


def listing(root):
    """relative path -> sha1 of every regular file below *root*"""
    out = {}
    if not os.path.isdir(root):
        return out
    for dirpath, _dirs, files in os.walk(root):
        for f in files:
            p = os.path.join(dirpath, f)
            with open(p, "rb") as fh:
                out[os.path.relpath(p, root)] = hashlib.sha1(fh.read()).hexdigest()
    return out


def expected_outputs():
    return sorted(
        os.path.join(str(p.n), str(p.y), "{}_{}.jpg".format(p.y, p.x))
        for p in generate_pos(DEPTH)
    )


def main():
    print("toasty imported from:", os.path.dirname(toasty.__file__))
    work = tempfile.mkdtemp(prefix="c03_demo1_")
    problems = []

    try:
        indir = os.path.join(work, "in")
        n_tiles = build_input(indir)
        in_before = listing(indir)
        assert len(in_before) == n_tiles == 21, (len(in_before), n_tiles)

        outs = {}

        for label, par in (("serial", "1"), ("parallel", "3")):
            outdir = os.path.join(work, "out_" + label)
            cli.entrypoint(
                [
                    "transform",
                    "u8-to-rgb",
                    "--parallelism",
                    par,
                    "--start",
                    str(DEPTH),
                    "--outdir",
                    outdir,
                    indir,
                ]
            )
            outs[label] = listing(outdir)
            print(
                "{:8s} (--parallelism {}): {} output tiles".format(
                    label, par, len(outs[label])
                )
            )

        want = expected_outputs()

        for label in ("serial", "parallel"):
            got = sorted(outs[label])
            if got != want:
                missing = sorted(set(want) - set(got))
                extra = sorted(set(got) - set(want))
                problems.append(
                    "{} run: expected {} output tiles, found {}; missing {}{} extra {}".format(
                        label,
                        len(want),
                        len(got),
                        missing[:6],
                        " ..." if len(missing) > 6 else "",
                        extra[:6],
                    )
                )

        if outs["serial"] != outs["parallel"]:
            diff = sorted(
                k
                for k in set(outs["serial"]) | set(outs["parallel"])
                if outs["serial"].get(k) != outs["parallel"].get(k)
            )
            problems.append(
                "parallel output differs from serial output in {} file(s), e.g. {}".format(
                    len(diff), diff[:4]
                )
            )

        in_after = listing(indir)
        if in_after != in_before:
            changed = sorted(
                k
                for k in set(in_before) | set(in_after)
                if in_before.get(k) != in_after.get(k)
            )
            problems.append(
                "input pyramid was modified although --outdir was given: {} file(s), e.g. {}".format(
                    len(changed), changed[:4]
                )
            )
    finally:
        shutil.rmtree(work, ignore_errors=True)

    if problems:
        print("FAIL: parallel transform did not process the same items as serial:")
        for p in problems:
            print("  -", p)
        return 1

    print("OK: every tile transformed exactly once in both modes, outputs identical")
    return 0


if __name__ == "__main__":
    sys.exit(main())
