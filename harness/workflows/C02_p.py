import os, sys; sys.path.insert(0, os.getcwd())

# Demo for change1. One Python process (a batch script / notebook) does two
# unrelated jobs through the command-line entry point:
#   1. `toasty tile-study --black-to-transparent` on image A, into pyramid A;
#   2. `toasty cascade --start 1` on pyramid B, whose four level-1 PNG tiles are
#      plain opaque RGB and contain pure-black pixels.
# The level-0 tile of B must be the mean of the four *stored* values of each
# 2x2 block of B's children mosaic (all opaque => alpha 255 everywhere).

import shutil
import tempfile

import numpy as np
from PIL import Image as PILImage

import toasty.cli


def main():
    work = tempfile.mkdtemp(prefix="c02demo1_")
    try:
        rng = np.random.RandomState(42)

        # Job 1: an unrelated study image tiled with --black-to-transparent.
        a = rng.randint(0, 256, size=(300, 400, 3)).astype(np.uint8)
        a_path = os.path.join(work, "a.png")
        PILImage.fromarray(a).save(a_path)
        toasty.cli.entrypoint(
            [
                "tile-study",
                "--black-to-transparent",
                "--placeholder-thumbnail",
                "--outdir",
                os.path.join(work, "A"),
                a_path,
            ]
        )

        # Job 2: pyramid B, opaque RGB tiles with black regions.
        b_dir = os.path.join(work, "B")
        kids = {}
        for y in range(2):
            for x in range(2):
                t = rng.randint(1, 256, size=(256, 256, 3)).astype(np.uint8)
                t[rng.uniform(size=(256, 256)) < 0.2] = 0  # isolated black pixels
                t[64:128, 64:128] = 0  # a black patch
                d = os.path.join(b_dir, "1", str(y))
                os.makedirs(d, exist_ok=True)
                PILImage.fromarray(t).save(os.path.join(d, f"{y}_{x}.png"))
                kids[(x, y)] = t

        toasty.cli.entrypoint(["cascade", "--parallelism", "1", "--start", "1", b_dir])

        mosaic = np.zeros((512, 512, 4), dtype=np.uint8)
        mosaic[..., 3] = 255
        for (x, y), t in kids.items():
            mosaic[256 * y : 256 * (y + 1), 256 * x : 256 * (x + 1), :3] = t
        want = (
            mosaic.reshape(256, 2, 256, 2, 4).astype(np.float64).mean(axis=(1, 3))
        ).astype(np.uint8)

        p0 = os.path.join(b_dir, "0", "0", "0_0.png")
        if not os.path.exists(p0):
            print("FAIL: level-0 tile of pyramid B was not produced")
            return 1

        got = np.asarray(PILImage.open(p0).convert("RGBA"))
        bad = np.any(got != want, axis=2)
        if bad.any():
            print(
                "FAIL: level-0 tile of B is not the mean of the stored values of its children: "
                f"{int(bad.sum())} of 65536 pixels differ"
            )
            ys, xs = np.nonzero(bad)
            print(
                f"  e.g. pixel (row {ys[0]}, col {xs[0]}): got RGBA {got[ys[0], xs[0]].tolist()}, "
                f"expected {want[ys[0], xs[0]].tolist()}"
            )
            print(
                f"  alpha range in output: {int(got[..., 3].min())}..{int(got[..., 3].max())} (expected 255..255)"
            )
            return 1

        print("OK: level-0 tile of B is the 2x2 mean of its (opaque) children")
        return 0
    finally:
        shutil.rmtree(work, ignore_errors=True)


if __name__ == "__main__":
    sys.exit(main())
