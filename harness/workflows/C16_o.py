import os, sys; sys.path.insert(0, os.getcwd())

# C16 demo: "flipping image parity reverses rows but moves no pixel on the sky",
# observed the way a Python user observes it: build an Image from an array and a
# WCS, bring it to negative parity (as studies require), tile it into a FITS
# pyramid with the Builder, and look up every source pixel on the sky in the
# result described by index_rel.wtml.
#
# Run as:  cd /tmp/seed_C16 && /venv/bin/python /tmp/seed8_C16_out/demo1.py
# Exit status 0 = every pixel is where it was; 1 = pixels moved.

import math
import shutil
import tempfile
import warnings

import numpy as np
from astropy.io import fits
from astropy.wcs import WCS
from wwt_data_formats.folder import Folder

from toasty.builder import Builder
from toasty.image import Image
from toasty.pyramid import PyramidIO

warnings.simplefilter("ignore")

H, W = 301, 419  # not square, not a multiple of 256, odd: 2x2 tiles with padding


def make_wcs(parity_sign):
    """A rotated TAN WCS with the reference pixel outside of the image.
    parity_sign=+1: FITS-like (det CD < 0); -1: JPEG-like (det CD > 0)."""
    th = math.radians(27.0)
    s = 0.004
    cd = s * np.array([[math.cos(th), -math.sin(th)], [math.sin(th), math.cos(th)]])
    if parity_sign == 1:
        cd[:, 1] *= -1
    w = WCS(naxis=2)
    w.wcs.ctype = ["RA---TAN", "DEC--TAN"]
    w.wcs.crval = [83.6, -5.4]
    w.wcs.crpix = [-20.25, 350.5]
    w.wcs.cd = cd
    return w


def canvas_wcs_from_wtml(imgset):
    """The WCS of the (top-down) tiling canvas that a tiled TAN study imageset
    describes: 256 * 2**levels pixels on a side, row 0 at the top."""
    n = 256 * 2**imgset.tile_levels
    scale = imgset.base_degrees_per_tile / n
    c = -math.cos(math.radians(imgset.rotation_deg))
    s = -math.sin(math.radians(imgset.rotation_deg))
    w = WCS(naxis=2)
    w.wcs.ctype = ["RA---TAN", "DEC--TAN"]
    w.wcs.crval = [imgset.center_x, imgset.center_y]
    w.wcs.crpix = [
        n / 2 - imgset.offset_x / scale + 0.5,
        n / 2 + imgset.offset_y / scale + 0.5,
    ]
    w.wcs.cd = scale * np.array([[c, s], [-s, c]])
    return w, n


def run_case(start_parity, outdir):
    data = (np.arange(H * W, dtype=np.float32) + 1).reshape((H, W))
    wcs0 = make_wcs(start_parity)

    # Where every source pixel is on the sky, before toasty touches anything.
    yy, xx = np.indices((H, W))
    ra, dec = wcs0.wcs_pix2world(xx.ravel(), yy.ravel(), 0)

    img = Image.from_array(data.copy(), wcs=wcs0)
    assert img.get_parity_sign() == start_parity
    img.ensure_negative_parity()
    img.ensure_negative_parity()  # idempotent

    if img.get_parity_sign() != -1:
        print(f"  parity after ensure_negative_parity: {img.get_parity_sign()}")
        return False

    # The flip itself, as seen on the Image object:
    y_after = yy.ravel() if start_parity == -1 else H - 1 - yy.ravel()
    ra1, dec1 = img.wcs.wcs_pix2world(xx.ravel(), y_after, 0)
    ok_obj = (
        np.allclose(ra1, ra, atol=1e-9)
        and np.allclose(dec1, dec, atol=1e-9)
        and np.array_equal(img.asarray()[y_after, xx.ravel()], data.ravel())
    )
    print(f"  Image.wcs/asarray after the flip consistent with before: {ok_obj}")

    # Tile it as a FITS study, the documented way.
    pio = PyramidIO(outdir, default_format="fits")
    builder = Builder(pio)
    tiling = builder.prepare_study_tiling(img)
    builder.apply_wcs_info(img.wcs, img.width, img.height)
    builder.execute_study_tiling(img, tiling)
    builder.write_index_rel_wtml()

    # Now be a viewer: read the WTML, find every source pixel's sky position
    # in the tile pyramid, and read the value stored there. FITS tiles are
    # displayed bottoms-up: data row 0 is the *bottom* row of the tile.
    place = Folder.from_file(os.path.join(outdir, "index_rel.wtml")).children[0]
    imgset = place.foreground_image_set
    cwcs, n = canvas_wcs_from_wtml(imgset)
    cx, cy = cwcs.wcs_world2pix(ra, dec, 0)
    resid = max(np.abs(cx - np.round(cx)).max(), np.abs(cy - np.round(cy)).max())
    cx = np.round(cx).astype(int)
    cy = np.round(cy).astype(int)
    print(f"  tile levels {imgset.tile_levels}; canvas {n}px; "
          f"max distance of a source pixel from a canvas pixel centre: {resid:.2e}px")

    if resid > 1e-3 or cx.min() < 0 or cy.min() < 0 or cx.max() >= n or cy.max() >= n:
        print("  source pixels do not land on the canvas pixel grid")
        return False

    canvas = np.full((n, n), np.nan, dtype=np.float32)  # top-down
    lev = imgset.tile_levels
    for ty in range(2**lev):
        for tx in range(2**lev):
            p = os.path.join(outdir, str(lev), str(ty), f"{ty}_{tx}.fits")
            if os.path.exists(p):
                with fits.open(p) as hdul:
                    canvas[ty * 256:(ty + 1) * 256, tx * 256:(tx + 1) * 256] = hdul[0].data[::-1]

    found = canvas[cy, cx]
    bad = ~(found == data.ravel())
    print(f"  source pixels whose value is not found at their sky position: "
          f"{bad.sum()} of {bad.size}")

    if bad.any():
        i = np.flatnonzero(bad)[0]
        print(f"    e.g. source pixel (x={xx.ravel()[i]}, y={yy.ravel()[i]}) value "
              f"{data.ravel()[i]:.0f} at RA={ra[i]:.6f} Dec={dec[i]:.6f}: the pyramid shows "
              f"{found[i]} there")
        where = np.argwhere(canvas == data.ravel()[i])
        if len(where):
            ra2, dec2 = cwcs.wcs_pix2world(where[0][1], where[0][0], 0)
            print(f"    that value is shown at RA={float(ra2):.6f} Dec={float(dec2):.6f} instead")

    return ok_obj and not bad.any()


def main():
    all_ok = True
    for start_parity in (+1, -1):
        outdir = tempfile.mkdtemp(prefix="c16demo_")
        try:
            print(f"starting parity {start_parity:+d}, image {W}x{H}, "
                  f"Image.from_array(data, wcs=wcs) -> FITS study pyramid")
            ok = run_case(start_parity, outdir)
            print("  OK" if ok else "  FAILED")
            all_ok = all_ok and ok
        finally:
            shutil.rmtree(outdir, ignore_errors=True)

    if not all_ok:
        print("FAIL: after the parity handling, pixels are no longer at their sky positions")
        return 1
    print("PASS: every pixel is still at its sky position")
    return 0


if __name__ == "__main__":
    sys.exit(main())
