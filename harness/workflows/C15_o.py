import os, sys; sys.path.insert(0, os.getcwd())

"""
C15 demo (seed 8, change 1): `toasty view --tile-only --blankval N FILE.fits`.

The user declares that input pixels with the value N are undefined.  Such pixels
must stay undefined (NaN) in the tiles, and a tile all of whose pixels are
undefined must not be stored.

The input is a 512x512 float32 TAN image, i.e. exactly 2x2 tiles at level 1:

  * one whole 256x256 quadrant holds the blank value 0,
  * a 40x30 patch inside another quadrant holds the blank value 0,
  * every other pixel holds a distinct value >= 1.

The command is run twice, in separate directories: once with the blank value
spelled as an integer literal (`--blankval 0`), once spelled as a floating-point
literal (`--blankval 0.0`).  Both must give the same tiles.

Exit status 0: all checks hold.  Exit status 1: some check failed (details are
printed).
"""

import glob
import shutil
import tempfile
import warnings

import numpy as np
from astropy.io import fits

import toasty
from toasty import cli
from toasty.pyramid import Pos, PyramidIO

BLANK = 0.0
PATCH = (slice(300, 330), slice(280, 320))  # rows, cols: 30 x 40 = 1200 pixels
N_PATCH = 30 * 40


def make_input(path):
    data = (1 + np.arange(512 * 512, dtype=np.float64)).reshape((512, 512))
    data = data.astype(np.float32)
    data[:256, :256] = BLANK  # one whole tile's worth
    data[PATCH] = BLANK  # part of another tile

    h = fits.Header()
    h["CTYPE1"] = "RA---TAN"
    h["CTYPE2"] = "DEC--TAN"
    h["CRVAL1"] = 10.0
    h["CRVAL2"] = 20.0
    h["CRPIX1"] = 256.5
    h["CRPIX2"] = 256.5
    h["CDELT1"] = -0.0001
    h["CDELT2"] = 0.0001
    h["CUNIT1"] = "deg"
    h["CUNIT2"] = "deg"
    fits.writeto(path, data, header=h, overwrite=True)
    return data


def run_one(workdir, spelling):
    """Tile with the given spelling of the blank value; return a list of
    complaints (empty if everything is as it should be)."""

    problems = []
    d = os.path.join(workdir, "as_" + spelling.replace(".", "p"))
    os.makedirs(d)
    in_path = os.path.join(d, "img.fits")
    data = make_input(in_path)
    good_values = np.sort(data[data != BLANK].ravel())

    with warnings.catch_warnings():
        warnings.simplefilter("ignore")
        cli.entrypoint(
            [
                "view",
                "--tile-only",
                "--tiling-method",
                "tan",
                "-j",
                "1",
                "--blankval",
                spelling,
                in_path,
            ]
        )

    out_dir = os.path.join(d, "img_tiled")
    if not os.path.isdir(out_dir):
        return [f"expected output directory {out_dir} was not created"]

    pio = PyramidIO(out_dir, default_format="fits")

    # --- level 1: the four tiles that hold the image pixels themselves

    files = sorted(glob.glob(os.path.join(out_dir, "1", "*", "*.fits")))
    print(f"  level-1 tile files: {[os.path.relpath(f, out_dir) for f in files]}")

    if len(files) != 3:
        problems.append(
            f"{len(files)} level-1 tile files are stored; expected 3, because one "
            f"tile consists of blank (undefined) pixels only and must not be stored"
        )

    n_absent = 0
    n_blank_valued = 0
    n_nan = 0
    finite = []

    for y in range(2):
        for x in range(2):
            img = pio.read_image(Pos(1, x, y), default="none")
            if img is None:
                n_absent += 1
                continue

            arr = img.asarray()
            n_blank_valued += int(np.sum(arr == BLANK))
            n_nan += int(np.sum(np.isnan(arr)))
            finite.append(arr[np.isfinite(arr)].ravel())

            if np.all(arr[np.isfinite(arr)] == BLANK):
                problems.append(
                    f"tile L1 x={x} y={y} is stored although every one of its "
                    f"pixels is a blank (undefined) input pixel"
                )

    finite = np.sort(np.concatenate(finite)) if finite else np.zeros(0)

    if n_absent != 1:
        problems.append(
            f"{n_absent} level-1 tiles read back as absent; expected exactly 1"
        )

    if n_blank_valued != 0:
        problems.append(
            f"{n_blank_valued} level-1 tile pixels hold the blank value {BLANK!r} as "
            f"if it were data; they should be undefined (NaN)"
        )

    if n_absent == 1 and n_nan != N_PATCH:
        problems.append(
            f"{n_nan} undefined pixels in the stored level-1 tiles; expected "
            f"{N_PATCH} (the blank patch)"
        )

    if finite.shape != good_values.shape or not np.array_equal(finite, good_values):
        problems.append(
            f"the defined level-1 tile pixels ({finite.size}) are not exactly the "
            f"non-blank input pixels ({good_values.size})"
        )

    # --- level 0: the downsampled tile must not have blank values averaged in

    top = pio.read_image(Pos(0, 0, 0), default="none")

    if top is None:
        problems.append("the level-0 tile is missing")
    else:
        t = top.asarray()
        n_top_nan = int(np.sum(np.isnan(t)))
        expect = 128 * 128 + (30 // 2) * (40 // 2)
        print(f"  level-0 tile: {n_top_nan} undefined pixels (expected {expect})")

        if n_top_nan != expect:
            problems.append(
                f"the level-0 tile has {n_top_nan} undefined pixels; expected "
                f"{expect}: blank input pixels were averaged in as data"
            )

        m = np.nanmin(t)
        if m < 1:
            problems.append(
                f"the level-0 tile has minimum value {m}, below every defined "
                f"input pixel (all >= 1): blank pixels leaked into the average"
            )

    return problems


def main():
    print("toasty imported from", os.path.dirname(toasty.__file__))
    workdir = tempfile.mkdtemp(prefix="c15_blankval_")
    failed = False

    try:
        for spelling in ("0", "0.0"):
            print(f"toasty view --tile-only --tiling-method tan -j 1 --blankval {spelling} img.fits")
            problems = run_one(workdir, spelling)

            if problems:
                failed = True
                for p in problems:
                    print(f"  FAIL [--blankval {spelling}]: {p}")
            else:
                print(f"  ok [--blankval {spelling}]: blank pixels stayed undefined")
    finally:
        shutil.rmtree(workdir, ignore_errors=True)

    if failed:
        print("RESULT: FAIL -- pixels declared undefined with --blankval were stored as data")
        return 1

    print("RESULT: PASS")
    return 0


if __name__ == "__main__":
    sys.exit(main())
