import os, sys; sys.path.insert(0, os.getcwd())

# Demonstration for change1 (property C08).
#
# A user tiles a PNG as a study with the documented image-loading option
# `--crop`, in each of its documented spellings:
#
#     --crop=TOP,RIGHT,BOTTOM,LEFT
#     --crop=X          (shorthand for X,X,X,X)
#     --crop=V,H        (shorthand for V,H,V,H)
#
# and then reads the deepest-level tiles back through the URL template and
# TileLevels of the index_rel.wtml that `toasty tile-study` wrote. The
# reassembled mosaic must be the (cropped) image, centred in the smallest
# power-of-two square >= 256 that contains it (offsets rounded down), with every
# other pixel transparent.
#
# Exit status 0: all cases agree. Non-zero: at least one case disagrees.

import contextlib
import io
import shutil
import tempfile
from xml.etree import ElementTree as etree

import numpy as np
from PIL import Image as PILImage

import toasty
from toasty import cli

print("testing toasty from:", os.path.dirname(toasty.__file__))


def expected_crop(arr, spec):
    """What the documentation says `--crop=spec` keeps of `arr`."""
    if spec is None:
        return arr
    vals = [int(v) for v in spec.split(",")]
    if len(vals) == 1:
        top = right = bottom = left = vals[0]
    elif len(vals) == 2:
        v, h = vals  # "--crop=V,H is shorthand for --crop=V,H,V,H"
        top, right, bottom, left = v, h, v, h
    else:
        top, right, bottom, left = vals
    hgt, wid = arr.shape[:2]
    return arr[top : hgt - bottom, left : wid - right]


def expected_mosaic(img):
    """The study tiling of `img` as a user expects to see it: RGBA canvas."""
    hgt, wid = img.shape[:2]
    p2n = 256
    while p2n < max(hgt, wid):
        p2n *= 2
    levels = 0
    while 256 * 2**levels < p2n:
        levels += 1
    gx0 = (p2n - wid) // 2
    gy0 = (p2n - hgt) // 2
    canvas = np.zeros((p2n, p2n, 4), dtype=np.uint8)
    canvas[gy0 : gy0 + hgt, gx0 : gx0 + wid, :3] = img
    canvas[gy0 : gy0 + hgt, gx0 : gx0 + wid, 3] = 255
    return levels, canvas


def read_back(outdir):
    """Reassemble the deepest level following index_rel.wtml."""
    with open(os.path.join(outdir, "index_rel.wtml"), "rt", encoding="utf8") as f:
        root = etree.fromstring(f.read())
    imgset = next(root.iter("ImageSet"))
    levels = int(imgset.get("TileLevels"))
    url = imgset.get("Url")
    n = 2**levels
    canvas = np.zeros((256 * n, 256 * n, 4), dtype=np.uint8)
    n_files = 0
    for ty in range(n):
        for tx in range(n):
            # WTML templates: {1} = level, {2} = x, {3} = y
            rel = url.replace("{1}", str(levels)).replace("{2}", str(tx)).replace("{3}", str(ty))
            p = os.path.join(outdir, rel)
            if not os.path.exists(p):
                continue  # sparse pyramid: absent tile = nothing there
            n_files += 1
            tile = np.asarray(PILImage.open(p).convert("RGBA"))
            assert tile.shape == (256, 256, 4), (p, tile.shape)
            canvas[256 * ty : 256 * (ty + 1), 256 * tx : 256 * (tx + 1)] = tile
    return levels, canvas, n_files


def describe_opaque_box(canvas):
    ys, xs = np.nonzero(canvas[..., 3])
    if ys.size == 0:
        return "nothing opaque"
    return "opaque region x=[%d,%d] y=[%d,%d] (%d wide, %d high) in a %d-pixel square" % (
        xs.min(), xs.max(), ys.min(), ys.max(),
        xs.max() + 1 - xs.min(), ys.max() + 1 - ys.min(), canvas.shape[0],
    )


def run_case(workdir, src_path, src_arr, spec):
    outdir = os.path.join(workdir, "out_" + (spec or "nocrop").replace(",", "_"))
    args = ["tile-study"]
    if spec is not None:
        args.append("--crop=" + spec)
    args += ["--outdir", outdir, src_path]

    with contextlib.redirect_stdout(io.StringIO()), contextlib.redirect_stderr(io.StringIO()):
        cli.entrypoint(args)

    exp_levels, exp = expected_mosaic(expected_crop(src_arr, spec))
    got_levels, got, n_files = read_back(outdir)

    problems = []
    if got_levels != exp_levels:
        problems.append("WTML TileLevels = %d, expected %d" % (got_levels, exp_levels))
    if got.shape != exp.shape:
        problems.append("tiled square is %d pixels, expected %d" % (got.shape[0], exp.shape[0]))
    elif not np.array_equal(got, exp):
        nbad = int(np.any(got != exp, axis=2).sum())
        problems.append("%d pixels of the reassembled mosaic differ from the image" % nbad)
    if problems:
        problems.append("expected: " + describe_opaque_box(exp))
        problems.append("observed: " + describe_opaque_box(got))
    return problems, n_files


def main():
    rng = np.random.RandomState(20220808)
    # Sizes chosen so that the cropped image straddles the 256/512 boundaries
    # differently along the two axes.
    sources = [
        ("wide", rng.randint(1, 256, size=(300, 700, 3)).astype(np.uint8)),
        ("tall", rng.randint(1, 256, size=(530, 270, 3)).astype(np.uint8)),
    ]
    specs = [None, "7", "3,9,20,1", "0,10,0,0", "12,12", "40,10", "5,100", "0,7", "0,100"]

    workdir = tempfile.mkdtemp(prefix="demo_c08_")
    n_bad = 0
    try:
        for name, arr in sources:
            src_path = os.path.join(workdir, name + ".png")
            PILImage.fromarray(arr).save(src_path)
            case_dir = os.path.join(workdir, name)
            os.makedirs(case_dir)

            for spec in specs:
                problems, n_files = run_case(case_dir, src_path, arr, spec)
                label = "%s %dx%d --crop=%s" % (name, arr.shape[1], arr.shape[0], spec)
                if problems:
                    n_bad += 1
                    print("FAIL", label)
                    for p in problems:
                        print("     ", p)
                else:
                    print("ok  ", label, "(%d tiles read back)" % n_files)
    finally:
        shutil.rmtree(workdir, ignore_errors=True)

    if n_bad:
        print("%d case(s): the tiles written by `toasty tile-study` do not reassemble to the image the user asked for" % n_bad)
        return 1
    print("all cases: tiles reassemble exactly to the (cropped) image, centred, rest transparent")
    return 0


if __name__ == "__main__":
    sys.exit(main())
