import os, sys; sys.path.insert(0, os.getcwd())

# Demo 1: `toasty tile-multi-tan --wcs-key A` must tile the image using the
# alternate WCS solution "A" of the HDU, not the primary solution.
#
# We write a FITS file whose only HDU carries two WCS solutions:
#   primary (" "): centred at RA=10 deg,  Dec=+20 deg
#   alternate "A": centred at RA=200 deg, Dec=-30 deg
# and then run the command line in-process. The index_rel.wtml that comes out
# must place the image where solution "A" says, and that must be the same
# place that the Python API (toasty.collection.load(..., wcs_key="A")) reports.

import shutil
import tempfile

import numpy as np
from astropy.io import fits
from astropy.wcs import WCS

import toasty
from toasty import cli, collection
from wwt_data_formats.folder import Folder

NX, NY = 300, 200
PRIMARY = (10.0, 20.0)
ALT_A = (200.0, -30.0)


def make_wcs(ra, dec):
    w = WCS(naxis=2)
    w.wcs.ctype = ["RA---TAN", "DEC--TAN"]
    w.wcs.crval = [ra, dec]
    w.wcs.crpix = [(NX + 1) / 2, (NY + 1) / 2]
    w.wcs.cdelt = [-0.001, 0.001]
    return w


def main():
    print("toasty loaded from:", os.path.dirname(toasty.__file__))
    work = tempfile.mkdtemp(prefix="c20demo1_")
    problems = []

    try:
        path = os.path.join(work, "twowcs.fits")
        header = make_wcs(*PRIMARY).to_header()
        header.update(make_wcs(*ALT_A).to_header(key="A"))
        data = np.arange(NX * NY, dtype=np.float32).reshape((NY, NX))
        fits.PrimaryHDU(data=data, header=header).writeto(path)

        # Reference: what the Python API says about this file with key "A"
        (desc,) = list(collection.load(path, hdu_index=0, wcs_key="A").descriptions())
        ref_ra, ref_dec = desc.wcs.wcs.crval
        print(f"Python API, wcs_key='A': CRVAL = ({ref_ra}, {ref_dec})")
        if abs(ref_ra - ALT_A[0]) > 1e-9 or abs(ref_dec - ALT_A[1]) > 1e-9:
            problems.append(
                f"collection.load(wcs_key='A') gave CRVAL ({ref_ra}, {ref_dec}), expected {ALT_A}"
            )

        for label, extra_args, expected in [
            ("--wcs-key A", ["--wcs-key", "A"], ALT_A),
            ("no --wcs-key", [], PRIMARY),
        ]:
            outdir = os.path.join(work, "out_" + label.strip("-").replace(" ", "_"))
            cli.entrypoint(
                ["tile-multi-tan", "--hdu-index", "0"]
                + extra_args
                + ["-j", "1", "--outdir", outdir, path]
            )

            f = Folder.from_file(os.path.join(outdir, "index_rel.wtml"))
            place = f.children[0]
            imgset = place.foreground_image_set
            got_ra = place.ra_hr * 15.0
            got_dec = place.dec_deg
            print(
                f"CLI tile-multi-tan {label}: place at RA={got_ra:.4f} deg, Dec={got_dec:.4f} deg; "
                f"imageset centre=({imgset.center_x:.4f}, {imgset.center_y:.4f}); expected near {expected}"
            )

            dra = abs(((got_ra - expected[0]) + 180.0) % 360.0 - 180.0)
            if dra > 0.5 or abs(got_dec - expected[1]) > 0.5:
                problems.append(
                    f"tile-multi-tan {label}: WTML places the image at (RA={got_ra:.4f}, Dec={got_dec:.4f}) "
                    f"but the selected WCS solution is centred at {expected}"
                )

            dcx = abs(((imgset.center_x - expected[0]) + 180.0) % 360.0 - 180.0)
            if dcx > 0.5 or abs(imgset.center_y - expected[1]) > 0.5:
                problems.append(
                    f"tile-multi-tan {label}: imageset centre ({imgset.center_x:.4f}, {imgset.center_y:.4f}) "
                    f"does not match the selected WCS solution centred at {expected}"
                )
    finally:
        shutil.rmtree(work, ignore_errors=True)

    if problems:
        print()
        print("PROPERTY VIOLATED:")
        for p in problems:
            print("  -", p)
        sys.exit(1)

    print("OK: the command line used the WCS solution that was selected")


if __name__ == "__main__":
    main()
