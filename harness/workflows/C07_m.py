import os, sys; sys.path.insert(0, os.getcwd())

"""
Demo 2 (property C07): `toasty.tile_fits([a.fits, b.fits], tiling_method=TOAST)`
restricts both the sampling and the downsampling ("cascade") stage to the tiles
selected by the images' footprint filters. Filtering must only ever skip tiles
that hold no data, so the pyramid it produces has to be identical, at every
level, to the one obtained by downsampling the same base layer exhaustively
(no filter at all).

Exits 0 if the two pyramids agree tile-for-tile and pixel-for-pixel; exits 1
(listing the tiles that hold data but were dropped) otherwise.
"""

import glob
import shutil
import tempfile
import warnings

import numpy as np
from astropy.io import fits
from astropy.wcs import WCS

import toasty
from toasty import TilingMethod, tile_fits
from toasty.merge import averaging_merger, cascade_images
from toasty.pyramid import Pos, PyramidIO

print("toasty under test:", os.path.dirname(toasty.__file__))


def make_fits(path, ra_deg, dec_deg, base_value):
    ny, nx = 80, 96
    w = WCS(naxis=2)
    w.wcs.ctype = ["RA---TAN", "DEC--TAN"]
    w.wcs.crval = [ra_deg, dec_deg]
    w.wcs.crpix = [(nx + 1) / 2, (ny + 1) / 2]
    w.wcs.cdelt = [-2.0 / 60, 2.0 / 60]  # 2 arcmin per pixel
    data = (base_value + np.arange(ny * nx, dtype=np.float32)).reshape((ny, nx))
    fits.PrimaryHDU(data=data, header=w.to_header()).writeto(path, overwrite=True)


def list_tiles(base_dir):
    """Map Pos -> path for all of the FITS tiles below *base_dir*."""
    tiles = {}
    for p in glob.glob(os.path.join(base_dir, "*", "*", "*_*.fits")):
        rel = os.path.relpath(p, base_dir).split(os.sep)
        n = int(rel[0])
        y = int(rel[1])
        x = int(os.path.splitext(rel[2])[0].split("_")[1])
        tiles[Pos(n, x, y)] = p
    return tiles


def main():
    work = tempfile.mkdtemp(prefix="c07demo2_")

    try:
        # Two small images in well-separated parts of the sky.
        path_a = os.path.join(work, "field_a.fits")
        path_b = os.path.join(work, "field_b.fits")
        make_fits(path_a, 40.0, 25.0, 1000.0)
        make_fits(path_b, 220.0, -35.0, 50000.0)

        out_dir = os.path.join(work, "tiled")

        with warnings.catch_warnings():
            warnings.simplefilter("ignore")
            out_dir, bld = tile_fits(
                [path_a, path_b],
                out_dir=out_dir,
                tiling_method=TilingMethod.TOAST,
                override=True,
                parallel=1,
            )

        depth = bld.imgset.tile_levels
        got = list_tiles(out_dir)
        base = {pos: p for pos, p in got.items() if pos.n == depth}
        print(f"tile_fits: base level {depth}, {len(base)} base tiles, {len(got)} tiles in all")

        if not base:
            print("unexpected: no base-level tiles were produced")
            return 1

        # Reference: the very same base layer, downsampled without any filter.
        ref_dir = os.path.join(work, "reference")
        shutil.copytree(
            os.path.join(out_dir, str(depth)),
            os.path.join(ref_dir, str(depth)),
            ignore=shutil.ignore_patterns("*.lock"),
        )
        ref_pio = PyramidIO(ref_dir, default_format="fits")

        with warnings.catch_warnings():
            warnings.simplefilter("ignore")
            cascade_images(ref_pio, depth, averaging_merger, parallel=1)

        ref = list_tiles(ref_dir)

        # Compare.
        dropped = sorted(set(ref) - set(got))
        extra = sorted(set(got) - set(ref))
        differ = []

        for pos in sorted(set(ref) & set(got)):
            with fits.open(ref[pos]) as h:
                a = np.array(h[0].data)
            with fits.open(got[pos]) as h:
                b = np.array(h[0].data)

            same = (a == b) | (np.isnan(a) & np.isnan(b))
            if a.shape != b.shape or not same.all():
                lost = int((np.isnan(b) & ~np.isnan(a)).sum())
                differ.append((pos, int((~same).sum()), lost))

        if dropped or extra or differ:
            print("FAIL: the filtered pyramid differs from the exhaustively cascaded one")
            if dropped:
                print(
                    f"  {len(dropped)} tiles hold data but were dropped by the filtered cascade, e.g.:",
                    ", ".join(str(p) for p in dropped[:6]),
                )
            if extra:
                print(f"  {len(extra)} unexpected extra tiles, e.g.:", extra[:6])
            for pos, nbad, nlost in differ[:6]:
                print(f"  tile {pos}: {nbad} pixels differ, of which {nlost} lost their data")
            return 1

        print(
            f"OK: all {len(ref)} tiles (levels 0..{depth}) agree between the filtered "
            f"pyramid and the exhaustively cascaded reference"
        )
        return 0
    finally:
        shutil.rmtree(work, ignore_errors=True)


if __name__ == "__main__":
    sys.exit(main())
