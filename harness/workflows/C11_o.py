import os, sys; sys.path.insert(0, os.getcwd())

"""
C11 demo: `toasty tile-allsky --colorspace-processing none` must put, at every
TOAST pixel, the value of the plate-carree map pixel whose cell contains that
sky point -- the value *as stored in the file*, since the user asked for no
colour processing.

We build a small map (16x8 cells, every cell a distinct colour) carrying an
embedded ICC profile that is clearly not sRGB (an sRGB profile whose red and
blue primaries are exchanged), tile it through the command line for the four
non-rotating projections, and compare every pixel of the four level-1 tiles
with the file's own pixel chosen by an independent formula for the documented
layout.  We also look at the arrays returned by the sampler callable built from
the image exactly as the command line loads it.

Exit status 0: everything matches.  Non-zero: a mismatch, described on stdout.
"""

import argparse
import shutil
import struct
import tempfile

import numpy as np
from PIL import Image as PILImage, ImageCms

import toasty
from toasty import cli
from toasty.image import ImageLoader
from toasty import samplers
from toasty.toast import ToastCoordinateSystem, generate_tiles, toast_tile_get_coords

TWOPI = 2 * np.pi
NX, NY = 16, 8


def make_swapped_profile():
    """An RGB display profile: sRGB with the red and blue colorants exchanged."""
    raw = bytearray(ImageCms.ImageCmsProfile(ImageCms.createProfile("sRGB")).tobytes())
    (ntags,) = struct.unpack(">I", raw[128:132])
    where = {}
    for i in range(ntags):
        off = 132 + 12 * i
        sig = bytes(raw[off : off + 4])
        where[sig] = off
    r, b = where[b"rXYZ"], where[b"bXYZ"]
    raw[r + 4 : r + 12], raw[b + 4 : b + 12] = raw[b + 4 : b + 12], raw[r + 4 : r + 12]
    # the profile ID (MD5) field: zero means "not computed"
    raw[84:100] = bytes(16)
    return bytes(raw)


def make_map(path):
    arr = np.zeros((NY, NX, 3), dtype=np.uint8)
    for iy in range(NY):
        for ix in range(NX):
            # strongly red/blue-asymmetric and distinct per cell
            arr[iy, ix] = (40 + 13 * ix, 30 + 25 * iy, 5 + 3 * ((ix + iy) % 4))
    PILImage.fromarray(arr).save(path, icc_profile=make_swapped_profile())
    # What is stored in the file, with no colour management at all:
    with PILImage.open(path) as im:
        assert "icc_profile" in im.info, "test map lost its ICC profile"
        stored = np.asarray(im.convert("RGB")).copy()
    assert np.array_equal(stored, arr)
    return stored


def expected_cells(projection, lon, lat):
    """Independent statement of the documented layouts: returns (iy, ix, safe)."""
    fy = (np.pi / 2 - lat) / np.pi * NY  # row 0 touches lat = +90

    if projection == "plate-carree":
        # longitude increases to the left, lon = 0 at the centre
        fx = ((np.pi - lon) % TWOPI) / TWOPI * NX
    elif projection == "plate-carree-planet":
        # longitude increases to the right, lon = 0 at the centre
        fx = ((lon + np.pi) % TWOPI) / TWOPI * NX
    elif projection == "plate-carree-planet-zeroleft":
        # longitude increases to the right, lon = 0 at the left edge
        fx = (lon % TWOPI) / TWOPI * NX
    elif projection == "plate-carree-planet-zeroright":
        # longitude increases to the left, lon = 0 at the right edge
        fx = ((-lon) % TWOPI) / TWOPI * NX
    else:
        raise ValueError(projection)

    # Points within a rounding tolerance of a cell boundary may go either way.
    tol = 1e-6
    safe = (np.abs(fx - np.round(fx)) > tol) & (np.abs(fy - np.round(fy)) > tol)
    ix = np.clip(np.floor(fx).astype(int), 0, NX - 1)
    iy = np.clip(np.floor(fy).astype(int), 0, NY - 1)
    return iy, ix, safe


SAMPLER_FOR = {
    "plate-carree": samplers.plate_carree_sampler,
    "plate-carree-planet": samplers.plate_carree_planet_sampler,
    "plate-carree-planet-zeroleft": samplers.plate_carree_planet_zeroleft_sampler,
    "plate-carree-planet-zeroright": samplers.plate_carree_zeroright_sampler,
}


def main():
    print("toasty under test:", os.path.dirname(toasty.__file__))
    work = tempfile.mkdtemp(prefix="c11demo_")
    problems = []

    try:
        map_path = os.path.join(work, "map.png")
        stored = make_map(map_path)

        for projection in SAMPLER_FOR:
            planet = projection != "plate-carree"
            coordsys = (
                ToastCoordinateSystem.PLANETARY
                if planet
                else ToastCoordinateSystem.ASTRONOMICAL
            )

            # (A) the sampler callable, fed the way the command line feeds it
            parser = argparse.ArgumentParser()
            ImageLoader.add_arguments(parser)
            settings = parser.parse_args(["--colorspace-processing", "none"])
            img = ImageLoader.create_from_args(settings).load_path(map_path)
            sampler = SAMPLER_FOR[projection](img.asarray())

            # (B) the whole command
            outdir = os.path.join(work, projection)
            cli.entrypoint(
                [
                    "tile-allsky",
                    "--colorspace-processing",
                    "none",
                    "--projection",
                    projection,
                    "--parallelism",
                    "1",
                    "--outdir",
                    outdir,
                    map_path,
                    "1",
                ]
            )

            for tile in generate_tiles(1, coordsys=coordsys):
                lon, lat = toast_tile_get_coords(tile)
                iy, ix, safe = expected_cells(projection, lon, lat)
                want = stored[iy, ix]

                got_a = np.asarray(sampler(lon, lat))
                if got_a.shape != lon.shape + (3,):
                    problems.append(
                        f"{projection} tile {tile.pos}: sampler result has shape {got_a.shape}"
                    )
                    continue

                p = os.path.join(
                    outdir, "1", str(tile.pos.y), f"{tile.pos.y}_{tile.pos.x}.png"
                )
                with PILImage.open(p) as im:
                    got_b = np.asarray(im.convert("RGB")).copy()

                for label, got in (("sampler array", got_a), ("tile file", got_b)):
                    bad = np.any(got != want, axis=-1) & safe
                    if bad.any():
                        j, i = np.argwhere(bad)[0]
                        problems.append(
                            f"{projection} tile {tile.pos} [{label}]: {int(bad.sum())} of "
                            f"{int(safe.sum())} pixels differ from the map cell containing them; "
                            f"e.g. tile pixel (row {j}, col {i}) at lon={lon[j, i]:.4f} "
                            f"lat={lat[j, i]:.4f} lies in map cell (row {iy[j, i]}, col {ix[j, i]}) "
                            f"whose stored value is {tuple(int(v) for v in want[j, i])}, "
                            f"but got {tuple(int(v) for v in got[j, i])}"
                        )
    finally:
        shutil.rmtree(work, ignore_errors=True)

    if problems:
        print()
        print("C11 VIOLATED with --colorspace-processing none:")
        for p in problems[:12]:
            print("  -", p)
        if len(problems) > 12:
            print(f"  ... and {len(problems) - 12} more")
        return 1

    print()
    print("OK: every tile pixel and every sampled value equals the stored map pixel containing its sky point")
    return 0


if __name__ == "__main__":
    sys.exit(main())
