import os, sys; sys.path.insert(0, os.getcwd())

# Demo for change 1: with a progress bar shown (cli_progress=True, which is
# what every `toasty` command-line subcommand uses), an I/O error raised while
# processing a tile in *serial* mode must still reach the caller.
#
# Exit status: 0 when every failing tile is reported, 1 otherwise.

import shutil
import tempfile

import numpy as np

import toasty
from toasty.pyramid import Pos, Pyramid, PyramidIO

print("testing toasty from", os.path.dirname(toasty.__file__))

problems = []


def expect_error(label, exc_type, func):
    try:
        func()
    except exc_type as e:
        print(f"ok: {label}: caller saw {type(e).__name__}: {e}")
    except Exception as e:
        problems.append(f"{label}: caller saw unexpected {type(e).__name__}: {e}")
    else:
        problems.append(
            f"{label}: returned normally although processing a tile raised {exc_type.__name__}"
        )


# (a) Pyramid.walk, serial, progress bar on/off


def walk_cb(pos):
    if pos == Pos(1, 1, 0):
        raise FileNotFoundError(2, "simulated: input of tile went missing", str(pos))


for show in (False, True):
    expect_error(
        f"walk(parallel=1, cli_progress={show})",
        FileNotFoundError,
        lambda: Pyramid.new_generic(2).walk(walk_cb, parallel=1, cli_progress=show),
    )

# (b) Pyramid.visit_leaves, serial, progress bar on/off


def leaf_cb(pos, tile):
    if pos == Pos(2, 3, 1):
        raise PermissionError(13, "simulated: cannot write tile", str(pos))


for show in (False, True):
    expect_error(
        f"visit_leaves(parallel=1, cli_progress={show})",
        PermissionError,
        lambda: Pyramid.new_generic(2).visit_leaves(
            leaf_cb, parallel=1, cli_progress=show
        ),
    )

# (c) the command line: `toasty cascade -j 1 --start 1 DIR` on a pyramid in
# which one of the level-1 tiles is a corrupt file. PIL reports that as an
# UnidentifiedImageError (an OSError); the cascade must not "succeed".

from toasty.cli import entrypoint
from toasty.image import Image

work = tempfile.mkdtemp(prefix="c19demo1_")

try:
    pio = PyramidIO(work, default_format="png")
    arr = np.full((256, 256, 3), 128, dtype=np.uint8)

    for pos in (Pos(1, 0, 0), Pos(1, 1, 0), Pos(1, 0, 1), Pos(1, 1, 1)):
        pio.write_image(pos, Image.from_array(arr))

    bad = pio.tile_path(Pos(1, 1, 1), makedirs=False)
    with open(bad, "wb") as f:
        f.write(b"this is not a PNG file")

    expect_error(
        "`toasty cascade -j 1 --start 1` with a corrupt level-1 tile",
        OSError,
        lambda: entrypoint(["cascade", "-j", "1", "--start", "1", work]),
    )

    apex = pio.tile_path(Pos(0, 0, 0), makedirs=False)
    print("apex tile exists after the failed cascade:", os.path.exists(apex))
finally:
    shutil.rmtree(work, ignore_errors=True)

if problems:
    print()
    for p in problems:
        print("PROBLEM:", p)
    sys.exit(1)

print("all tile errors were reported to the caller")
sys.exit(0)
