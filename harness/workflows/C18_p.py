import os, sys; sys.path.insert(0, os.getcwd())
# C18 demo: a transfer failure in the middle of `toasty pipeline publish`, then
# the routine housekeeping command `toasty pipeline ignore-rejects`, then a
# `refresh` from a fresh working directory.  The partially published image
# (no index.wtml in the store) must NOT be skipped by refresh, and re-running
# publish must complete the job.
import shutil, tempfile
from toasty import cli, pipeline
from toasty.pipeline import local_io
from toasty.tests import mk_test_path
from toasty.tests.test_pipeline import LocalTestAstroPixImageSource

pipeline.IMAGE_SOURCE_CLASS_LOADERS["_local_test_astropix"] = lambda: LocalTestAstroPixImageSource
w = tempfile.mkdtemp()
repo = os.path.join(w, 'repo'); work = os.path.join(w, 'work'); work2 = os.path.join(w, 'work2')
os.makedirs(repo)
shutil.copy(mk_test_path("toasty-pipeline-config.yaml"), repo)
run = cli.entrypoint
run(['pipeline', 'init', '--local', repo, work])
run(['pipeline', 'refresh', '--workdir', work])
run(['pipeline', 'fetch', '--workdir', work, 'fake_test1'])
run(['pipeline', 'process-todos', '--workdir', work])
run(['pipeline', 'approve', '--workdir', work, 'fake_test1'])

# Inject a transfer failure at the 10th put_item of the publish run.
orig_put = local_io.LocalPipelineIo.put_item
count = [0]
def failing_put(self, *path, source=None):
    count[0] += 1
    if count[0] == 10:
        raise IOError('injected transfer failure')
    return orig_put(self, *path, source=source)
local_io.LocalPipelineIo.put_item = failing_put
try:
    run(['pipeline', 'publish', '--workdir', work])
except IOError as e:
    print('publish failed as intended:', e)
else:
    print('FAIL: injected failure did not fire'); sys.exit(2)
finally:
    local_io.LocalPipelineIo.put_item = orig_put

problems = []
sdir = os.path.join(repo, 'fake_test1')
if os.path.exists(os.path.join(sdir, 'index.wtml')):
    problems.append('index.wtml in the store after a partial publish')
if not os.path.isdir(os.path.join(work, 'approved', 'fake_test1')):
    problems.append('image left approved/ although publish failed')

# Housekeeping: there are no rejects at all, so this must not touch the store.
before = sorted(os.listdir(sdir))
run(['pipeline', 'ignore-rejects', '--workdir', work])
after = sorted(os.listdir(sdir))
if before != after:
    problems.append('ignore-rejects (with an empty rejects/) changed the store entry of the '
                    'partially published image: new items %r' % sorted(set(after) - set(before)))

# Refresh from a fresh working directory (e.g. another machine after the crash):
run(['pipeline', 'init', '--local', repo, work2])
run(['pipeline', 'refresh', '--workdir', work2])
if not os.path.exists(os.path.join(work2, 'candidates', 'fake_test1')):
    problems.append('refresh SKIPPED the partially published image fake_test1 '
                    '(store has no index.wtml for it, %d of %d files present)'
                    % (len(after), len(os.listdir(os.path.join(work, 'approved', 'fake_test1')))))

# Re-running publish must complete the job.
run(['pipeline', 'publish', '--workdir', work])
src_files = sorted(os.listdir(os.path.join(work, 'published', 'fake_test1'))) \
    if os.path.isdir(os.path.join(work, 'published', 'fake_test1')) else None
if src_files is None:
    problems.append('re-run of publish did not move the image to published/')
else:
    missing = [f for f in src_files if not os.path.exists(os.path.join(sdir, f))]
    if missing:
        problems.append('store incomplete after re-run: %r' % missing[:5])
    extra = [f for f in os.listdir(sdir) if f not in src_files]
    if extra:
        problems.append('store entry of the published image has foreign items: %r' % extra)

shutil.rmtree(w)
if problems:
    print('C18 VIOLATED:')
    for p in problems:
        print('  -', p)
    sys.exit(1)
print('OK: partial publish is never skipped and re-run completes')
