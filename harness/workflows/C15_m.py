import os, sys; sys.path.insert(0, os.getcwd())

"""
C15 demo 2: `toasty tile-study` followed by `toasty cascade`.

A 600x600 image is tiled as a study: it sits in the middle of a 1024x1024
canvas, so the 4x4 tiles of level 2 all exist and the outer ones are partly
undefined (alpha = 0 around the image). The cascade then builds levels 1 and 0
by putting four children side by side and averaging 2x2 pixels.

A pixel of a parent tile whose four source pixels are all undefined must itself
be undefined, and in general each parent tile must be exactly the 2x2 average
of the mosaic of its own four children -- nothing else may contribute to it.
"""

import shutil
import tempfile
import warnings

import numpy as np
from PIL import Image as PILImage

warnings.simplefilter("ignore")

import toasty
from toasty import cli
from toasty.pyramid import PyramidIO, Pos


def read_rgba(pio, level, x, y):
    img = pio.read_image(Pos(level, x, y), format="png")
    if img is None:
        return None
    arr = np.array(img.asarray())
    assert arr.shape == (256, 256, 4), arr.shape
    return arr


def main():
    assert os.path.dirname(os.path.abspath(toasty.__file__)).startswith(
        os.getcwd()
    ), "not testing the worktree"

    work = tempfile.mkdtemp(prefix="c15demo2_")
    problems = []

    try:
        rng = np.random.default_rng(15)
        pixels = rng.integers(60, 256, size=(600, 600, 3), dtype=np.uint8)
        src = os.path.join(work, "input.png")
        PILImage.fromarray(pixels, mode="RGB").save(src)

        out = os.path.join(work, "tiled")
        cli.entrypoint(["tile-study", "--placeholder-thumbnail", "--outdir", out, src])
        cli.entrypoint(["cascade", "--parallelism", "1", "--start", "2", out])

        pio = PyramidIO(out, default_format="png")

        for level in (1, 0):
            for py in range(2**level):
                for px in range(2**level):
                    # Mosaic of this tile's own four children, undefined
                    # (all zeros) where a child is absent.
                    mosaic = np.zeros((512, 512, 4), dtype=np.uint8)
                    any_child = False

                    for dy in (0, 1):
                        for dx in (0, 1):
                            child = read_rgba(pio, level + 1, 2 * px + dx, 2 * py + dy)
                            if child is not None:
                                any_child = True
                                mosaic[
                                    256 * dy : 256 * (dy + 1), 256 * dx : 256 * (dx + 1)
                                ] = child

                    got = read_rgba(pio, level, px, py)

                    if not any_child:
                        if got is not None:
                            problems.append(f"L{level} ({px},{py}): tile without children exists")
                        continue

                    expected = (
                        mosaic.reshape((256, 2, 256, 2, 4))
                        .astype(np.float64)
                        .mean(axis=(1, 3))
                        .astype(np.uint8)
                    )
                    src_undefined = (
                        mosaic[..., 3].reshape((256, 2, 256, 2)).max(axis=(1, 3)) == 0
                    )

                    if got is None:
                        if not src_undefined.all():
                            problems.append(f"L{level} ({px},{py}): tile is missing")
                        continue

                    ghosts = src_undefined & (got[..., 3] != 0)
                    wrong = np.any(got != expected, axis=2)

                    if ghosts.any() or wrong.any():
                        problems.append(
                            f"L{level} ({px},{py}): {int(wrong.sum())} pixels differ from the "
                            f"average of the tile's own children; {int(ghosts.sum())} pixels "
                            f"are defined (alpha != 0) although all of their source pixels "
                            f"are undefined"
                        )
    finally:
        shutil.rmtree(work, ignore_errors=True)

    if problems:
        print("C15 VIOLATED: undefined pixels did not stay undefined in the cascade:")
        for p in problems:
            print("  -", p)
        return 1

    print("OK: every parent tile is the average of its own four children")
    return 0


if __name__ == "__main__":
    sys.exit(main())
