import os, sys; sys.path.insert(0, os.getcwd())

"""
C06 demo 1: `toasty.tile_fits(..., tiling_method=TOAST, override=True)` into an
output directory that already holds an older tiling.

The user asks for the old content to be overridden, so afterwards the deepest
level of the pyramid must hold exactly the TOAST sampling of the *new* image:
one FITS file per tile that passes the image's filter and is not fully blank,
whose pixel (i, j) -- rows stored bottom-up, FITS being a bottom-up format --
equals the sampler's value at that tile's own pixel centres (NaN outside the
image).

Exits 0 if that holds, 1 (with a description) otherwise.
"""

import shutil
import tempfile
import warnings

import numpy as np
from astropy.io import fits
from astropy.wcs import WCS

warnings.simplefilter("ignore")

import toasty
from toasty import TilingMethod, tile_fits
from toasty.samplers import WcsSampler
from toasty.toast import generate_tiles_filtered, toast_tile_get_coords

DEPTH = 2


def make_fits(path, n, crval, seed):
    """A small n x n float32 image, 1 deg/pixel, centred on `crval`."""
    w = WCS(naxis=2)
    w.wcs.ctype = ["RA---TAN", "DEC--TAN"]
    w.wcs.crval = list(crval)
    w.wcs.crpix = [(n + 1) / 2.0, (n + 1) / 2.0]
    w.wcs.cdelt = [-1.0, 1.0]
    rng = np.random.RandomState(seed)
    data = (1000.0 * seed + rng.uniform(1.0, 2.0, size=(n, n))).astype(np.float32)
    fits.PrimaryHDU(data=data, header=w.to_header()).writeto(path, overwrite=True)
    return data, w


def expected_leaf_tiles(data, wcs):
    """What TOAST sampling of this one image must leave at level DEPTH:
    {(x, y): array as stored in the FITS file}."""
    wcs._naxis = [data.shape[1], data.shape[0]]
    ws = WcsSampler(data=data, wcs=wcs)
    tile_filter = ws.filter()
    sampler = ws.sampler()
    out = {}

    for tile in generate_tiles_filtered(DEPTH, tile_filter, bottom_only=True):
        lon, lat = toast_tile_get_coords(tile)
        vals = sampler(lon, lat)
        if np.all(np.isnan(vals)):
            continue  # fully blank tiles are not written
        out[(tile.pos.x, tile.pos.y)] = vals[::-1]  # FITS: bottom-up rows

    return out


def found_leaf_tiles(out_dir):
    out = {}
    level_dir = os.path.join(out_dir, str(DEPTH))

    for dirpath, _dirnames, filenames in os.walk(level_dir):
        for fn in filenames:
            if not fn.endswith(".fits"):
                continue
            y, x = os.path.splitext(fn)[0].split("_")
            with fits.open(os.path.join(dirpath, fn)) as hdul:
                out[(int(x), int(y))] = np.array(hdul[0].data)

    return out


def compare(expected, found, label):
    problems = []

    missing = sorted(set(expected) - set(found))
    extra = sorted(set(found) - set(expected))

    if missing:
        problems.append(f"{label}: level-{DEPTH} tiles (x, y) missing: {missing}")
    if extra:
        problems.append(
            f"{label}: level-{DEPTH} tiles (x, y) on disk that the sampling of the "
            f"requested image does not produce: {extra}"
        )

    for key in sorted(set(expected) & set(found)):
        e = expected[key]
        f = found[key]
        if e.shape != f.shape:
            problems.append(f"{label}: tile {key} has shape {f.shape}")
            continue
        bad = ~((e == f) | (np.isnan(e) & np.isnan(f)))
        if bad.any():
            iy, ix = np.argwhere(bad)[0]
            problems.append(
                f"{label}: tile (x, y)={key}: {bad.sum()} pixels differ from the "
                f"sampler's values; e.g. stored row {iy}, col {ix}: file has "
                f"{f[iy, ix]!r}, sampler gives {e[iy, ix]!r}"
            )

    return problems


def main():
    print("toasty imported from", os.path.dirname(toasty.__file__))
    work = tempfile.mkdtemp(prefix="c06demo1_")
    problems = []

    try:
        # Image A: big (40 deg); image B: small (14 deg), elsewhere on the sky
        # but close enough to share some depth-2 tiles with A.
        path_a = os.path.join(work, "a.fits")
        path_b = os.path.join(work, "b.fits")
        data_a, wcs_a = make_fits(path_a, 40, (30.0, 20.0), seed=1)
        data_b, wcs_b = make_fits(path_b, 14, (50.0, 35.0), seed=2)

        exp_a = expected_leaf_tiles(data_a, wcs_a)
        exp_b = expected_leaf_tiles(data_b, wcs_b)
        print(f"image A should give {len(exp_a)} level-{DEPTH} tiles, image B {len(exp_b)}")

        for parallel in (1, 2):
            for progress in (True, False):
                out_dir = os.path.join(work, f"tiles_j{parallel}_p{int(progress)}")
                label = f"[parallel={parallel}, cli_progress={progress}]"

                # First tiling: fresh directory.
                tile_fits(
                    path_a,
                    out_dir=out_dir,
                    tiling_method=TilingMethod.TOAST,
                    start=DEPTH,
                    parallel=parallel,
                    cli_progress=progress,
                    override=True,
                )
                problems += compare(
                    exp_a, found_leaf_tiles(out_dir), label + " first tiling (image A)"
                )

                # Second tiling: same directory, a different image, and the
                # user asks for the old content to be overridden.
                tile_fits(
                    path_b,
                    out_dir=out_dir,
                    tiling_method=TilingMethod.TOAST,
                    start=DEPTH,
                    parallel=parallel,
                    cli_progress=progress,
                    override=True,
                )
                problems += compare(
                    exp_b,
                    found_leaf_tiles(out_dir),
                    label + " second tiling (image B, override=True)",
                )
    finally:
        shutil.rmtree(work, ignore_errors=True)

    if problems:
        print()
        print("C06 VIOLATED:")
        for p in problems:
            print("  -", p)
        return 1

    print("OK: every level-%d tile equals the sampler's values of the requested image" % DEPTH)
    return 0


if __name__ == "__main__":
    sys.exit(main())
