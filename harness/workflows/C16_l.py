import os, sys; sys.path.insert(0, os.getcwd())

"""
demo1: `toasty tile-study --fits-wcs REF.fits IMG.png` where REF.fits was made
for a differently-sized rendition of the same picture (here: twice as big, same
aspect ratio -- the Astrometry.net / "solved the full-res version" workflow) and
carries an ordinary FITS-like (positive parity) WCS.

toasty rescales the WCS to the actual image and, because studies must have
negative parity, flips the image parity: rows are reversed and the WCS is
reflected. C16 says that this moves no pixel on the sky. We check that as the
user sees it: the position that the emitted WTML assigns to every pixel of the
emitted tile must be the position that the reference WCS assigned to the source
pixel that ended up there.

Exit 0 = property holds; exit 1 = broken.
"""

import shutil
import tempfile
import warnings

import numpy as np

warnings.simplefilter("ignore")

from astropy.io import fits
from astropy.wcs import WCS
from PIL import Image as PILImage

import toasty
from toasty import cli

assert os.path.realpath(toasty.__file__).startswith(
    os.path.realpath(os.getcwd())
), "not testing the worktree: %s" % toasty.__file__

W, H = 200, 120  # the image that gets tiled
REF_SCALE = 2  # the WCS reference file describes a (2W x 2H) rendition
failures = []


def make_image(path):
    # Every row and every column is distinguishable, so we can tell exactly
    # which source row ended up where.
    arr = np.zeros((H, W, 3), dtype=np.uint8)
    arr[..., 0] = (np.arange(H)[:, None] * 2) % 256  # row code
    arr[..., 1] = np.arange(W)[None, :] % 256  # column code
    arr[..., 2] = 200
    PILImage.fromarray(arr).save(path)
    return arr


def make_ref_wcs(parity_positive, rot_deg, crpix):
    """Linear celestial TAN WCS for the (REF_SCALE*W x REF_SCALE*H) rendition.
    Square pixels, rotation only, since that is what WTML can express."""
    s = 0.001  # deg/pixel in the reference rendition
    c, sn = np.cos(np.radians(rot_deg)), np.sin(np.radians(rot_deg))
    # positive parity sign <=> negative determinant (the usual FITS look: RA
    # increasing to the left, Dec increasing with row number)
    sx = -1.0 if parity_positive else 1.0
    cd = s * np.array([[sx * c, -sn], [sx * sn, c]])
    h = fits.Header()
    h["CTYPE1"] = "RA---TAN"
    h["CTYPE2"] = "DEC--TAN"
    h["CRVAL1"] = 150.0
    h["CRVAL2"] = 20.0
    h["CRPIX1"] = crpix[0]
    h["CRPIX2"] = crpix[1]
    h["CD1_1"], h["CD1_2"] = cd[0]
    h["CD2_1"], h["CD2_2"] = cd[1]
    return h


def rescaled_wcs(ref_header, scale):
    """What the reference WCS says about the actual image: same sky, pixels
    `1/scale` times as big (this is the rescaling tile-study announces)."""
    h = ref_header.copy()
    h["CRPIX1"] = ref_header["CRPIX1"] * scale
    h["CRPIX2"] = ref_header["CRPIX2"] * scale
    for k in ("CD1_1", "CD1_2", "CD2_1", "CD2_2"):
        h[k] = ref_header[k] / scale
    return WCS(h)


def run_case(label, parity_positive, rot_deg, crpix, with_dims):
    work = tempfile.mkdtemp(prefix="c16demo1_")
    try:
        img_path = os.path.join(work, "img.png")
        src = make_image(img_path)

        ref_h = make_ref_wcs(parity_positive, rot_deg, crpix)
        ref_path = os.path.join(work, "ref.fits")

        if with_dims:
            hdu = fits.PrimaryHDU(
                data=np.zeros((REF_SCALE * H, REF_SCALE * W), dtype=np.uint8),
                header=ref_h,
            )
            expect_in = rescaled_wcs(ref_h, 1.0 / REF_SCALE)
        else:
            # control: header-only reference with no dimensions => toasty takes
            # the WCS at face value for the image
            hdu = fits.PrimaryHDU(header=ref_h)
            expect_in = WCS(ref_h)

        hdu.writeto(ref_path)

        outdir = os.path.join(work, "out")
        cli.entrypoint(
            [
                "tile-study",
                "--fits-wcs",
                ref_path,
                "--outdir",
                outdir,
                img_path,
            ]
        )

        # What the user gets: a WTML + a tile

        from wwt_data_formats.folder import Folder

        f = Folder.from_file(os.path.join(outdir, "index_rel.wtml"))
        imgset = f.children[0].foreground_image_set
        assert imgset.tile_levels == 0
        out_wcs = WCS(imgset.wcs_headers_from_position(height=H))

        tile = np.asarray(
            PILImage.open(os.path.join(outdir, "0", "0", "0_0.png")).convert("RGB")
        )
        gx0 = (256 - W) // 2
        gy0 = (256 - H) // 2
        out = tile[gy0 : gy0 + H, gx0 : gx0 + W]

        if np.array_equal(out, src):
            flipped = False
        elif np.array_equal(out, src[::-1]):
            flipped = True
        else:
            failures.append(f"{label}: tile pixels are neither the image nor its row-reversal")
            return

        # Parity of the emitted coordinates must be negative (BottomsUp=False).
        cdm = out_wcs.pixel_scale_matrix
        if np.linalg.det(cdm) < 0:
            failures.append(f"{label}: emitted WTML has positive parity")

        # Sky position of output pixel (x, y) vs. that of its source pixel.
        ys, xs = np.mgrid[0:H:7, 0:W:9]
        ys = ys.ravel().astype(float)
        xs = xs.ravel().astype(float)
        src_ys = (H - 1 - ys) if flipped else ys

        got = out_wcs.pixel_to_world(xs, ys)
        want = expect_in.pixel_to_world(xs, src_ys)
        sep_pix = got.separation(want).deg / (0.001 * (REF_SCALE if with_dims else 1))
        worst = float(sep_pix.max())

        print(
            f"{label}: rows reversed={flipped}; worst sky displacement of a pixel = {worst:.4f} pixels"
        )

        # Tolerance: one pixel. (WTML round-tripping and the half-pixel
        # convention of the rescaling are far below that; the defect this demo
        # looks for displaces the image by tens of pixels.)
        if worst > 1.0:
            failures.append(
                f"{label}: pixels moved on the sky by up to {worst:.2f} image pixels "
                f"(rows reversed={flipped})"
            )
    finally:
        shutil.rmtree(work, ignore_errors=True)


# Controls: nothing to rescale, or nothing to flip.
run_case("control/no-dims/positive-parity", True, 25.0, (70.0, 31.0), with_dims=False)
run_case("control/dims/negative-parity", False, 25.0, (140.0, 62.0), with_dims=True)

# The cases of interest: reference file of another size AND positive parity.
run_case("dims/positive-parity/unrotated", True, 0.0, (201.0, 121.0), with_dims=True)
run_case("dims/positive-parity/rotated", True, 25.0, (140.0, 62.0), with_dims=True)
run_case("dims/positive-parity/crpix-outside", True, -110.0, (-35.5, 300.25), with_dims=True)

if failures:
    print()
    print("C16 VIOLATED through `tile-study --fits-wcs`:")
    for f in failures:
        print("  -", f)
    sys.exit(1)

print("OK: parity flip in `tile-study --fits-wcs` moved no pixel on the sky")
sys.exit(0)
