import os, sys; sys.path.insert(0, os.getcwd())

# Demonstration for property C12: the tile (and pixel) returned by point
# lookup actually contain the point, in every longitude quadrant and in both
# TOAST coordinate systems.
#
# The check uses an oracle that is independent of toasty's own geometry code:
# the TOAST tiling is rebuilt here from the octahedron by normalised midpoint
# subdivision of unit vectors.
#
# Run as:  cd /tmp/seed_C12 && /venv/bin/python /tmp/seed8_C12_out/demo1.py
# Exit status 0: property holds on the sample.  Non-zero: it does not.

import numpy as np

from toasty.toast import (
    ToastCoordinateSystem,
    toast_pixel_for_point,
    toast_tile_for_point,
)

TOL = 1e-9


def xyz(lon_deg, lat_deg):
    lon, lat = np.radians(lon_deg), np.radians(lat_deg)
    return np.array([np.cos(lon) * np.cos(lat), np.sin(lat), np.sin(lon) * np.cos(lat)])


def point_xyz(lat, lon):
    return np.array([np.cos(lon) * np.cos(lat), np.sin(lat), np.sin(lon) * np.cos(lat)])


# Level-1 tiles of the astronomical layout, corners in (ul, ur, lr, ll) order,
# keyed by (x, y); the flag says which diagonal joins the two triangles.
N, S = (0, 90), (0, -90)
LEVEL1 = {
    (0, 0): ([S, (90, 0), N, (180, 0)], True),
    (1, 0): ([(90, 0), S, (0, 0), N], False),
    (0, 1): ([(180, 0), N, (270, 0), S], False),
    (1, 1): ([N, (0, 0), S, (270, 0)], True),
}


def nmid(a, b):
    m = a + b
    return m / np.linalg.norm(m)


def oracle_corners(n, x, y, planetary):
    """Corners (unit vectors) of TOAST tile (n, x, y), n >= 1."""
    ix = (x >> (n - 1)) & 1
    iy = (y >> (n - 1)) & 1
    lonlats, inc = LEVEL1[(ix, iy)]
    off = 180 if planetary else 0
    ul, ur, lr, ll = [xyz(lo + off, la) for lo, la in lonlats]

    for level in range(2, n + 1):
        to, ri, bo, le = nmid(ul, ur), nmid(ur, lr), nmid(lr, ll), nmid(ll, ul)
        ce = nmid(ll, ur) if inc else nmid(ul, lr)
        ix = (x >> (n - level)) & 1
        iy = (y >> (n - level)) & 1
        if (ix, iy) == (0, 0):
            ul, ur, lr, ll = ul, to, ce, le
        elif (ix, iy) == (1, 0):
            ul, ur, lr, ll = to, ur, ri, ce
        elif (ix, iy) == (0, 1):
            ul, ur, lr, ll = le, ce, bo, ll
        else:
            ul, ur, lr, ll = ce, ri, lr, bo

    return ul, ur, lr, ll


def oracle_contains(n, x, y, planetary, p):
    if n == 0:
        return True, 0.0
    ul, ur, lr, ll = oracle_corners(n, x, y, planetary)
    worst = min(
        np.dot(np.cross(ul, ur), p),
        np.dot(np.cross(ur, lr), p),
        np.dot(np.cross(lr, ll), p),
        np.dot(np.cross(ll, ul), p),
    )
    return worst >= -TOL, worst


def main():
    rng = np.random.RandomState(20121)
    points = []

    # A few fixed, easily reproduced points: one in each longitude quadrant.
    for lon_deg in (40.0, 130.0, 200.0, 220.0, 250.0, 310.0):
        for lat_deg in (-60.0, -20.0, 15.0, 55.0):
            points.append((np.radians(lat_deg), np.radians(lon_deg)))

    # Plus random ones, at least one degree from the poles.
    for _ in range(150):
        lat = np.arcsin(rng.uniform(-1, 1))
        lat = np.clip(lat, np.radians(-89), np.radians(89))
        points.append((lat, rng.uniform(0, 2 * np.pi)))

    problems = []
    n_checked = 0

    for coordsys in (ToastCoordinateSystem.ASTRONOMICAL, ToastCoordinateSystem.PLANETARY):
        planetary = coordsys == ToastCoordinateSystem.PLANETARY

        for lat, lon in points:
            p = point_xyz(lat, lon)
            prev = None

            for depth in range(0, 9):
                tile = toast_tile_for_point(depth, lat, lon, coordsys=coordsys)
                n_checked += 1
                pos = tile.pos
                where = "%s lat=%.4f lon=%.4f (%.1f deg) depth=%d -> (%d,%d,%d)" % (
                    coordsys.value, lat, lon, np.degrees(lon), depth, pos.n, pos.x, pos.y,
                )

                if pos.n != depth:
                    problems.append("wrong level: " + where)
                    continue

                ok, worst = oracle_contains(pos.n, pos.x, pos.y, planetary, p)
                if not ok:
                    problems.append(
                        "returned tile does not contain the point (outside by %.3g): %s"
                        % (-worst, where)
                    )

                if prev is not None and (pos.x >> 1, pos.y >> 1) != (prev.x, prev.y):
                    problems.append("not nested in the depth-%d answer: %s" % (depth - 1, where))
                prev = pos

                # Longitude periodicity.
                for k in (-2, 1, 3):
                    t2 = toast_tile_for_point(depth, lat, lon + 2 * np.pi * k, coordsys=coordsys)
                    if t2.pos != pos:
                        problems.append("lon+%d*2pi gives %r: %s" % (k, tuple(t2.pos), where))

            # Pixel lookup at depth 3: the pixel that holds the point is the
            # depth-11 tile that holds it.
            tile, fx, fy = toast_pixel_for_point(3, lat, lon, coordsys=coordsys)
            deep = toast_tile_for_point(11, lat, lon, coordsys=coordsys)
            okd, _ = oracle_contains(deep.pos.n, deep.pos.x, deep.pos.y, planetary, p)
            where = "%s lat=%.4f lon=%.4f (%.1f deg) depth=3 -> tile (%d,%d,%d) pixel (%.2f, %.2f)" % (
                coordsys.value, lat, lon, np.degrees(lon), tile.pos.n, tile.pos.x, tile.pos.y, fx, fy,
            )
            okt, _ = oracle_contains(tile.pos.n, tile.pos.x, tile.pos.y, planetary, p)
            if not okt:
                problems.append("pixel lookup: tile does not contain the point: " + where)
            elif okd and (deep.pos.x >> 8, deep.pos.y >> 8) == (tile.pos.x, tile.pos.y):
                px, py = deep.pos.x & 255, deep.pos.y & 255
                if abs(fx - px) > 2.5 or abs(fy - py) > 2.5:
                    problems.append(
                        "pixel lookup: pixel is far from the containing pixel (%d, %d): %s"
                        % (px, py, where)
                    )

    print("checked %d tile lookups on %d points in 2 coordinate systems" % (n_checked, len(points)))

    if problems:
        print("C12 VIOLATED: %d problems; the first few:" % len(problems))
        for line in problems[:12]:
            print("  " + line)

        lons = sorted(
            set(
                int(np.degrees(float(l.split("lon=")[1].split()[0])) // 90)
                for l in problems
                if "lon=" in l
            )
        )
        print("longitude quadrants (0 = [0,90) deg, ...) with problems:", lons)
        return 1

    print("OK: every returned tile contains its point, answers are nested and 2*pi-periodic,")
    print("    and the depth-3 pixel agrees with the depth-11 tile")
    return 0


if __name__ == "__main__":
    sys.exit(main())
