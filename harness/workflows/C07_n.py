import os, sys; sys.path.insert(0, os.getcwd())

"""
C07 demo: filtered sampling of a planetary map must equal exhaustive sampling.

A planetary plate-carree map is cut into a grid of chunks, the way
`ChunkedPlateCarreeSampler` expects its chunked image (the JPEG2000 reader is
the only in-tree implementation of that interface, and needs `glymur`; the
interface is tiny, so an in-memory array stands in for the file here). Then:

1. every chunk is sampled with its own tile filter, in the PLANETARY TOAST
   coordinate system, at depth 2, and for every chunk the result is compared
   with sampling *all* tiles with the very same chunk sampler: every tile that
   holds data must be there and carry the same pixels;
2. all chunks are sampled one after another into one pyramid, which must be
   identical to sampling the whole map at once without any filter;
3. the leaf tiles that a filtered PLANETARY `Pyramid` visits must be exactly
   the tiles that `toast.generate_tiles_filtered` yields for the same filter
   and coordinate system.

Exit code 0 if all of that holds, 1 (with a description) otherwise.
"""

import shutil
import tempfile

import numpy as np

from toasty import toast
from toasty.image import ImageLoader
from toasty.pyramid import Pos, Pyramid, PyramidIO
from toasty.samplers import ChunkedPlateCarreeSampler
from toasty.toast import ToastCoordinateSystem, sample_layer, sample_layer_filtered

DEPTH = 2
PLANETARY = ToastCoordinateSystem.PLANETARY


class ArrayChunks(object):
    """A chunked image living in memory; same interface as ChunkedJPEG2000Reader."""

    def __init__(self, data, chunk_h, chunk_w):
        self._data = data
        self._ch = chunk_h
        self._cw = chunk_w
        gh, gw = data.shape[:2]
        self._rows = (gh + chunk_h - 1) // chunk_h
        self._cols = (gw + chunk_w - 1) // chunk_w

    @property
    def shape(self):
        return self._data.shape

    @property
    def n_chunks(self):
        return self._rows * self._cols

    def chunk_spec(self, ichunk):
        gh, gw = self._data.shape[:2]
        irow = ichunk // self._cols
        icol = ichunk % self._cols
        x0 = icol * self._cw
        y0 = irow * self._ch
        return x0, y0, min(x0 + self._cw, gw) - x0, min(y0 + self._ch, gh) - y0

    def chunk_data(self, ichunk):
        x0, y0, w, h = self.chunk_spec(ichunk)
        return self._data[y0 : y0 + h, x0 : x0 + w]


def make_map():
    # 91 x 181 RGB map (odd sizes: no TOAST sample sits on a pixel boundary of
    # the equator or of the 0, +-90 degree meridians), every pixel non-black.
    ny, nx = 91, 181
    iy, ix = np.indices((ny, nx))
    m = np.empty((ny, nx, 3), dtype=np.uint8)
    m[..., 0] = 1 + ix
    m[..., 1] = 1 + 2 * iy
    m[..., 2] = 1 + (7 * ix + 13 * iy) % 250
    return m


def read_level(base_dir):
    """{(x, y): RGBA array} for the tiles that exist at level DEPTH."""
    pio = PyramidIO(base_dir, default_format="png")
    tiles = {}
    n = 2**DEPTH

    for y in range(n):
        for x in range(n):
            p = pio.tile_path(Pos(DEPTH, x, y), makedirs=False)
            if os.path.exists(p):
                tiles[(x, y)] = np.array(ImageLoader().load_path(p).asarray())

    return tiles


def compare(what, got, expected, problems):
    """`expected` is exhaustive sampling; `got` is filtered sampling."""
    for key in sorted(expected):
        exp = expected[key]
        has_data = np.any(exp[..., 3] != 0)

        if key not in got:
            if has_data:
                n = int(np.count_nonzero(exp[..., 3]))
                problems.append(
                    f"{what}: tile L{DEPTH} x={key[0]} y={key[1]} holds {n} data "
                    f"pixels when every tile is sampled, but filtered sampling "
                    f"did not produce it (hole)"
                )
        elif not np.array_equal(got[key], exp):
            n = int(np.count_nonzero(np.any(got[key] != exp, axis=2)))
            problems.append(
                f"{what}: tile L{DEPTH} x={key[0]} y={key[1]}: {n} pixels differ "
                f"between filtered and exhaustive sampling"
            )

    for key in sorted(set(got) - set(expected)):
        if np.any(got[key][..., 3] != 0):
            problems.append(
                f"{what}: tile L{DEPTH} x={key[0]} y={key[1]} has data after filtered "
                f"sampling but is empty when every tile is sampled"
            )


def main():
    problems = []
    work = tempfile.mkdtemp(prefix="c07demo")

    try:
        themap = make_map()
        chunked = ChunkedPlateCarreeSampler(ArrayChunks(themap, 40, 70), planetary=True)
        whole = ChunkedPlateCarreeSampler(ArrayChunks(themap, 91, 181), planetary=True)
        assert chunked.n_chunks == 9 and whole.n_chunks == 1

        # (1) each chunk on its own: filtered vs. exhaustive, same sampler.

        for ichunk in range(chunked.n_chunks):
            d_filt = os.path.join(work, f"chunk{ichunk}_filtered")
            d_all = os.path.join(work, f"chunk{ichunk}_all")

            sample_layer_filtered(
                PyramidIO(d_filt, default_format="png"),
                chunked.filter(ichunk),
                chunked.sampler(ichunk),
                DEPTH,
                coordsys=PLANETARY,
                parallel=1,
            )
            sample_layer(
                PyramidIO(d_all, default_format="png"),
                chunked.sampler(ichunk),
                DEPTH,
                coordsys=PLANETARY,
                parallel=1,
            )
            compare(f"chunk {ichunk}", read_level(d_filt), read_level(d_all), problems)

        # (2) all chunks, one after another, vs. the whole map at once.

        d_chunks = os.path.join(work, "all_chunks")
        d_whole = os.path.join(work, "whole_map")
        pio = PyramidIO(d_chunks, default_format="png")

        for ichunk in range(chunked.n_chunks):
            sample_layer_filtered(
                pio,
                chunked.filter(ichunk),
                chunked.sampler(ichunk),
                DEPTH,
                coordsys=PLANETARY,
                parallel=1,
            )

        sample_layer(
            PyramidIO(d_whole, default_format="png"),
            whole.sampler(0),
            DEPTH,
            coordsys=PLANETARY,
            parallel=1,
        )

        expected = read_level(d_whole)
        if len(expected) != 4**DEPTH:
            problems.append("internal: whole-map sampling did not fill every tile")
        compare("all chunks vs whole map", read_level(d_chunks), expected, problems)

        # (3) the tiles a filtered planetary Pyramid hands out.

        for ichunk in range(chunked.n_chunks):
            tf = chunked.filter(ichunk)
            want = {
                t.pos: t
                for t in toast.generate_tiles_filtered(
                    DEPTH, tf, bottom_only=True, coordsys=PLANETARY
                )
            }
            seen = {}
            Pyramid.new_toast_filtered(DEPTH, tf, coordsys=PLANETARY).visit_leaves(
                lambda pos, tile: seen.__setitem__(pos, tile), parallel=1
            )

            if set(seen) != set(want):
                problems.append(
                    f"chunk {ichunk}: filtered planetary Pyramid visits leaves "
                    f"{sorted(tuple(p) for p in seen)} but the filter accepts "
                    f"{sorted(tuple(p) for p in want)}"
                )
            else:
                for pos, t in want.items():
                    if not np.allclose(
                        np.asarray(seen[pos].corners), np.asarray(t.corners)
                    ):
                        problems.append(
                            f"chunk {ichunk}: tile {tuple(pos)} handed to the callback "
                            f"has corners {seen[pos].corners}, planetary tile has {t.corners}"
                        )
                        break
    finally:
        shutil.rmtree(work, ignore_errors=True)

    if problems:
        print(f"C07 VIOLATED: {len(problems)} problem(s)")
        for p in problems[:25]:
            print("  -", p)
        if len(problems) > 25:
            print(f"  ... and {len(problems) - 25} more")
        return 1

    print("C07 holds: filtered planetary sampling equals exhaustive sampling")
    return 0


if __name__ == "__main__":
    sys.exit(main())
