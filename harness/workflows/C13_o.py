import os, sys; sys.path.insert(0, os.getcwd())

"""
C13 demo: the number of leaf tiles reported by a pyramid must equal the number
of leaf tiles actually handed to the callback of `Pyramid.visit_leaves()`, in
serial *and* in parallel mode, and the set of visited positions must be the
same in both modes.

Callbacks of a parallel visit run in forked worker processes, so each callback
records its visit by creating a file named after the position (opened with
O_EXCL, so a position visited twice is detected too).

Run as:  cd /tmp/seed_C13 && /venv/bin/python /tmp/seed8_C13_out/demo1.py
"""

import shutil
import tempfile

import numpy as np

import toasty
from toasty import cli
from toasty.image import Image
from toasty.pyramid import Pos, Pyramid, is_subtile, tiles_at_depth

print("toasty imported from", os.path.dirname(toasty.__file__))

failures = []


class Recorder(object):
    """Record visits as files so that they survive the worker processes."""

    def __init__(self, dirname):
        self.dirname = dirname
        os.makedirs(dirname)

    def __call__(self, pos, tile):
        name = f"{pos.n}_{pos.x}_{pos.y}"
        try:
            fd = os.open(
                os.path.join(self.dirname, name), os.O_CREAT | os.O_EXCL | os.O_WRONLY
            )
        except FileExistsError:
            fd = os.open(
                os.path.join(self.dirname, "DUP_" + name), os.O_CREAT | os.O_WRONLY
            )
        os.close(fd)

    def visited(self):
        return sorted(os.listdir(self.dirname))


def check(label, make_pyramid, expected_leaves, work):
    reported = make_pyramid().count_leaf_tiles()

    results = {}
    for parallel in (1, 2):
        rec = Recorder(os.path.join(work, f"{label}_j{parallel}".replace(" ", "_")))
        make_pyramid().visit_leaves(rec, parallel=parallel)
        results[parallel] = rec.visited()

    want = sorted(f"{p.n}_{p.x}_{p.y}" for p in expected_leaves)
    ok = True

    if reported != len(want):
        ok = False
        failures.append(
            f"{label}: count_leaf_tiles() = {reported}, expected {len(want)}"
        )

    for parallel, got in results.items():
        if got != want:
            ok = False
            missing = sorted(set(want) - set(got))
            extra = sorted(set(got) - set(want))
            failures.append(
                f"{label}: visit_leaves(parallel={parallel}) visited {len(got)} leaf "
                f"tiles but count_leaf_tiles() reports {reported}; "
                f"missing {missing[:6]}{'...' if len(missing) > 6 else ''}, "
                f"unexpected {extra[:6]}"
            )

    print(
        f"{'ok  ' if ok else 'FAIL'} {label}: reported={reported} "
        f"serial={len(results[1])} parallel={len(results[2])}"
    )


def all_leaves(depth):
    n = 2**depth
    return [Pos(depth, x, y) for y in range(n) for x in range(n)]


work = tempfile.mkdtemp(prefix="c13demo_")

try:
    # 1. TOAST pyramids, no filter: closed-form counts.
    for depth in (0, 1, 2):
        check(
            f"toast depth {depth}",
            lambda depth=depth: Pyramid.new_toast(depth),
            all_leaves(depth),
            work,
        )
        assert tiles_at_depth(depth) == len(all_leaves(depth))

    # 2. Generic (coordinate-free) pyramids.
    for depth in (0, 1, 2, 3):
        check(
            f"generic depth {depth}",
            lambda depth=depth: Pyramid.new_generic(depth),
            all_leaves(depth),
            work,
        )

    # 3. Sub-pyramids: exactly the part of the full result below the apex,
    # including an apex as deep as the pyramid itself.
    for depth, apex in ((3, Pos(1, 1, 0)), (3, Pos(2, 1, 3)), (2, Pos(2, 3, 1))):
        below = [p for p in all_leaves(depth) if p == apex or is_subtile(p, apex)]

        check(
            f"generic depth {depth} apex {tuple(apex)}",
            lambda depth=depth, apex=apex: Pyramid.new_generic(depth).subpyramid(apex),
            below,
            work,
        )
        check(
            f"toast depth {depth} apex {tuple(apex)}",
            lambda depth=depth, apex=apex: Pyramid.new_toast(depth).subpyramid(apex),
            below,
            work,
        )

    # 4. The same thing seen from the command line: `toasty tile-allsky` at
    # depth 0 has exactly one leaf tile, the level-0 tile, and it must be
    # written whatever the parallelism.
    rng = np.random.default_rng(0)
    src = os.path.join(work, "allsky.png")
    Image.from_array(rng.integers(0, 255, size=(64, 128, 3), dtype=np.uint8)).save(
        src, format="png"
    )

    for parallel in (1, 2):
        outdir = os.path.join(work, f"cli_j{parallel}")
        cli.entrypoint(
            [
                "tile-allsky",
                "--placeholder-thumbnail",
                f"--parallelism={parallel}",
                "--outdir",
                outdir,
                src,
                "0",
            ]
        )
        tile = os.path.join(outdir, "0", "0", "0_0.png")
        if os.path.exists(tile):
            print(f"ok   tile-allsky depth 0 --parallelism={parallel}: wrote {tile}")
        else:
            failures.append(
                f"tile-allsky depth 0 --parallelism={parallel}: the single leaf tile "
                f"0/0/0_0.png was never written (count_leaf_tiles() = "
                f"{Pyramid.new_toast(0).count_leaf_tiles()})"
            )
            print(f"FAIL tile-allsky depth 0 --parallelism={parallel}: no {tile}")
finally:
    shutil.rmtree(work, ignore_errors=True)

if failures:
    print()
    print("C13 VIOLATED:")
    for f in failures:
        print("  -", f)
    sys.exit(1)

print()
print("C13 holds: reported leaf counts equal the leaves visited, serial and parallel.")
sys.exit(0)
