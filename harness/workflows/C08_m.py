import os, sys; sys.path.insert(0, os.getcwd())

# Demo 2: several FITS sub-images that share one TAN projection are placed
# inside one larger study tiling with MultiTanProcessor (what `toasty
# tile-multi-tan` and `toasty.tile_fits` do), once with the default worker
# count handling forced to 2 processes and once with `parallel=1` (what
# `-j 1`, a one-CPU machine or a non-fork OS gives you).
#
# The deepest-level tiles are then read back through the URL template and
# TileLevels in index_rel.wtml, turned into display orientation (FITS tiles
# are stored bottom-up), and reassembled. That must reproduce the mosaic
# exactly, centred in the power-of-2 square, NaN everywhere else.
#
# Exit 0 = property holds; exit 1 = property violated (details printed).

import shutil
import tempfile
import warnings
from xml.etree import ElementTree as etree

import numpy as np
from astropy.io import fits

import toasty
from toasty import par_util
from toasty.builder import Builder
from toasty.collection import SimpleFitsCollection
from toasty.multi_tan import MultiTanProcessor
from toasty.pyramid import PyramidIO
from toasty.study import StudyTiling

par_util.SHOW_INFORMATIONAL_MESSAGES = False
print("testing toasty from:", os.path.dirname(toasty.__file__))


def next_p2(n):
    p = 256
    while p < n:
        p *= 2
    return p


def write_piece(path, G, x0, x1, y0, y1, cx, cy):
    """Write G[y0:y1, x0:x1] (FITS, bottom-up row order) with a TAN WCS whose
    reference point is the 1-based pixel (cx, cy) of the full mosaic G."""
    h = fits.Header()
    h["CTYPE1"] = "RA---TAN"
    h["CTYPE2"] = "DEC--TAN"
    h["CRVAL1"] = 10.0
    h["CRVAL2"] = 20.0
    h["CDELT1"] = -0.001
    h["CDELT2"] = 0.001
    h["CRPIX1"] = float(cx - x0)
    h["CRPIX2"] = float(cy - y0)
    fits.writeto(path, np.ascontiguousarray(G[y0:y1, x0:x1]), header=h, overwrite=True)


def check(label, W, H, xsplit, ysplit, parallel, work):
    rng = np.random.default_rng(W * 1009 + H)
    # G is in FITS convention: row 0 is the *bottom* row of the picture.
    G = rng.uniform(1.0, 2.0, size=(H, W)).astype(np.float32)
    cx, cy = W // 2 + 1, H // 2 + 1

    srcdir = os.path.join(work, "src_%s_%s" % (label, parallel))
    os.makedirs(srcdir)
    paths = []
    xs = [0] + list(xsplit) + [W]
    ys = [0] + list(ysplit) + [H]
    for j in range(len(ys) - 1):
        for i in range(len(xs) - 1):
            p = os.path.join(srcdir, "piece_%d_%d.fits" % (j, i))
            write_piece(p, G, xs[i], xs[i + 1], ys[j], ys[j + 1], cx, cy)
            paths.append(p)

    outdir = os.path.join(work, "out_%s_%s" % (label, parallel))
    pio = PyramidIO(outdir, default_format="fits")
    builder = Builder(pio)

    with warnings.catch_warnings():
        warnings.simplefilter("ignore")
        coll = SimpleFitsCollection(paths, hdu_index=0)
        proc = MultiTanProcessor(coll)
        proc.compute_global_pixelization(builder)
        proc.tile(pio, parallel=parallel, cli_progress=False)
    builder.write_index_rel_wtml()

    with open(os.path.join(outdir, "index_rel.wtml"), "rt", encoding="utf8") as f:
        root = etree.fromstring(f.read())
    imgset = next(root.iter("ImageSet"))
    url = imgset.attrib["Url"]
    levels = int(imgset.attrib["TileLevels"])

    p2n = next_p2(max(W, H))
    assert 256 * 2**levels == p2n, (levels, p2n)

    # expectation, in display (top-down) orientation
    expected = np.full((p2n, p2n), np.nan, dtype=np.float32)
    gx0 = (p2n - W) // 2
    gy0 = (p2n - H) // 2
    expected[gy0 : gy0 + H, gx0 : gx0 + W] = G[::-1]

    observed = np.full((p2n, p2n), np.nan, dtype=np.float32)
    n_files = 0

    for ty in range(2**levels):
        for tx in range(2**levels):
            rel = (
                url.replace("{1}", str(levels))
                .replace("{2}", str(tx))
                .replace("{3}", str(ty))
            )
            p = os.path.join(outdir, rel)
            if not os.path.exists(p):
                continue
            n_files += 1
            with fits.open(p) as hdul:
                data = np.array(hdul[0].data)
            assert data.shape == (256, 256), data.shape
            # FITS tiles are bottom-up: flip to display orientation
            observed[ty * 256 : (ty + 1) * 256, tx * 256 : (tx + 1) * 256] = data[::-1]

    problems = []

    exp_def = np.isfinite(expected)
    obs_def = np.isfinite(observed)
    if not np.array_equal(exp_def, obs_def):
        problems.append(
            "defined-pixel footprint differs at %d pixels (%d image pixels lost, "
            "%d pixels outside the image defined)"
            % (
                int((exp_def != obs_def).sum()),
                int((exp_def & ~obs_def).sum()),
                int((~exp_def & obs_def).sum()),
            )
        )
    both = exp_def & obs_def
    nbad = int((expected[both] != observed[both]).sum())
    if nbad:
        problems.append("pixel values differ at %d image pixels" % nbad)

    n_expected = StudyTiling(W, H).count_populated_positions()
    if n_files != n_expected:
        problems.append("found %d tile files, expected %d" % (n_files, n_expected))

    tag = "%s %dx%d in %d pieces, parallel=%s, levels=%d" % (
        label,
        W,
        H,
        len(paths),
        parallel,
        levels,
    )
    if problems:
        print("FAIL", tag)
        for p in problems:
            print("     ", p)
        return False
    print("ok  ", tag)
    return True


def main():
    work = tempfile.mkdtemp(prefix="c08demo2_")
    ok = True
    try:
        for parallel in (2, 1):
            # everything lands in partly-filled tiles
            ok &= check("a", 420, 330, (190,), (140,), parallel, work)
            # one single input, partly-filled tiles
            ok &= check("b", 300, 200, (), (), parallel, work)
            # exact multiples of 256: every tile is completely filled
            ok &= check("c", 512, 512, (256,), (), parallel, work)
    finally:
        shutil.rmtree(work, ignore_errors=True)

    if not ok:
        print(
            "PROPERTY VIOLATED: sub-images placed in the larger study tiling do not "
            "reassemble into the mosaic"
        )
        sys.exit(1)

    print("all good")
    sys.exit(0)


if __name__ == "__main__":
    main()
