import os, sys; sys.path.insert(0, os.getcwd())

# Demonstration for property C01 (cascade walk: each live parent exactly once,
# only after all of its live children) as seen through the public cascade entry
# points that take a tile filter: toasty.merge.cascade_images(tile_filter=...)
# and Builder.cascade(tile_filter=...), which is what toasty.tile_fits() /
# FitsTiler use for TOAST output.
#
# For each (depth, filter, worker count) we
#   1. put real PNG tiles at the `start` level for every leaf that the filter
#      reaches,
#   2. run the cascade, with TileMerger.walk_callback wrapped so that every
#      invocation appends a "B n x y" line when it begins and an "E n x y" line
#      when it has finished to a log file (O_APPEND, one short write per line,
#      so this works across forked workers and gives a total order),
#   3. compare the invocations with the set of live parents computed by brute
#      force from the filter alone, check the ordering, and check that the tile
#      files that the user ends up with exist for exactly the live parents.
#
# Exit status 0 = everything as promised; 1 = some violation (printed).

import shutil
import tempfile

import numpy as np

from toasty import merge, pyramid, toast
from toasty.builder import Builder
from toasty.image import Image
from toasty.pyramid import Pos, PyramidIO, pos_children

assert merge.__file__.startswith(os.getcwd()), merge.__file__

LOG = None  # path of the invocation log of the current run

_orig_callback = merge.TileMerger.walk_callback


def _logline(tag, pos):
    fd = os.open(LOG, os.O_WRONLY | os.O_APPEND | os.O_CREAT)
    try:
        os.write(fd, f"{tag} {pos.n} {pos.x} {pos.y}\n".encode())
    finally:
        os.close(fd)


def _recording_callback(self, pos):
    _logline("B", pos)
    _orig_callback(self, pos)
    _logline("E", pos)


merge.TileMerger.walk_callback = _recording_callback


# Filters. They see toasty.toast.Tile objects for n >= 1.


def filter_quadrant(tile):
    """Everything below the level-1 tile (1, 1, 0)."""
    p = tile.pos
    return (p.x >> (p.n - 1), p.y >> (p.n - 1)) == (1, 0)


def filter_ragged(tile):
    """A ragged selection: at level 1 two quadrants; below that, drop tiles
    with x == y mod 3; additionally tile (2, 2, 0) is accepted while none of its
    children are."""
    p = tile.pos
    if p.n == 1:
        return p.x != p.y
    if p.n == 3 and (p.x >> 1, p.y >> 1) == (2, 0):
        return False
    return (p.x - p.y) % 3 != 0


def expected_sets(depth, tile_filter):
    """Brute force: which leaves are reachable, which parents are live."""
    accepted = set()

    for t in toast.generate_tiles(depth, bottom_only=False):
        if tile_filter(t):
            accepted.add(t.pos)

    def reachable(pos):
        # every tile on the path from level 1 down to `pos` is accepted
        while pos.n >= 1:
            if pos not in accepted:
                return False
            pos = pyramid.pos_parent(pos)[0]
        return True

    leaves = set(
        Pos(depth, x, y)
        for x in range(2**depth)
        for y in range(2**depth)
        if reachable(Pos(depth, x, y))
    )

    live = set()
    for leaf in leaves:
        pos = leaf
        while pos.n > 0:
            pos = pyramid.pos_parent(pos)[0]
            live.add(pos)

    return leaves, live


def make_tile(pos):
    arr = np.zeros((256, 256, 3), dtype=np.uint8)
    arr[..., 0] = 40 + 10 * pos.n
    arr[..., 1] = (pos.x * 16) % 256
    arr[..., 2] = (pos.y * 16) % 256
    return Image.from_array(arr)


def one_case(label, depth, tile_filter, parallel, via_builder):
    global LOG
    problems = []
    work = tempfile.mkdtemp(prefix="c01demo_")

    try:
        LOG = os.path.join(work, "calls.log")
        open(LOG, "w").close()
        pio = PyramidIO(os.path.join(work, "pyr"), default_format="png")
        leaves, live = expected_sets(depth, tile_filter)
        assert leaves and live

        for leaf in leaves:
            pio.write_image(leaf, make_tile(leaf))

        if via_builder:
            bld = Builder(pio)
            bld.imgset.tile_levels = depth
            bld.cascade(tile_filter=tile_filter, parallel=parallel)
        else:
            merge.cascade_images(
                pio,
                depth,
                merge.averaging_merger,
                parallel=parallel,
                tile_filter=tile_filter,
            )

        # What was invoked, and in which order?

        events = []
        with open(LOG) as f:
            for line in f:
                tag, n, x, y = line.split()
                events.append((tag, Pos(int(n), int(x), int(y))))

        begun = [p for tag, p in events if tag == "B"]
        ended = [p for tag, p in events if tag == "E"]
        counts = {}
        for p in begun:
            counts[p] = counts.get(p, 0) + 1

        missing = sorted(live - set(counts))
        extra = sorted(set(counts) - live)
        dups = sorted(p for p, c in counts.items() if c != 1)

        if missing:
            problems.append(
                f"callback never ran for {len(missing)} live parent(s), e.g. {missing[:4]}"
            )
        if extra:
            problems.append(
                f"callback ran for {len(extra)} tile(s) that are not live parents, e.g. {extra[:4]}"
            )
        if dups:
            problems.append(f"callback ran more than once for {dups[:4]}")
        if sorted(begun) != sorted(ended):
            problems.append("some callback invocations did not complete")

        # Ordering: when a parent begins, all its live non-leaf children have ended.

        first_begin = {}
        last_end = {}
        for i, (tag, p) in enumerate(events):
            if tag == "B":
                first_begin.setdefault(p, i)
            else:
                last_end[p] = i

        for p, ib in first_begin.items():
            if p.n + 1 >= depth:
                continue
            for c in pos_children(p):
                if c in live and not (c in last_end and last_end[c] < ib):
                    problems.append(
                        f"callback for {p} began before its live child {c} had completed"
                    )

        # What the user is left with: a tile file for exactly the live parents.

        no_file = sorted(
            p for p in live if not os.path.exists(pio.tile_path(p, makedirs=False))
        )
        if no_file:
            problems.append(
                f"{len(no_file)} live parent tile(s) were never written, e.g. {no_file[:4]}"
            )
    finally:
        shutil.rmtree(work, ignore_errors=True)

    status = "ok" if not problems else "VIOLATION"
    print(
        f"[{status}] {label}: depth={depth} parallel={parallel} "
        f"via={'Builder.cascade' if via_builder else 'cascade_images'} "
        f"live parents={len(live)} invocations={len(begun)}"
    )
    for p in problems[:5]:
        print("     -", p)
    if len(problems) > 5:
        print(f"     - ... and {len(problems) - 5} more")

    return not problems


def main():
    from toasty.samplers import _latlon_tile_filter

    # A lat/lon bounding-box filter as made by toasty's own samplers (these are
    # the bounds used in toasty's test suite). At depth 5 it accepts the level-4
    # tile (4, 15, 7) but none of that tile's children.
    filter_box = _latlon_tile_filter(0.106, 4.878, -1.285, -0.120)

    ok = True

    for label, filt, depths in (
        ("quadrant", filter_quadrant, (2, 3, 4)),
        ("ragged", filter_ragged, (2, 3, 4)),
        ("latlon-box", filter_box, (5,)),
    ):
        for depth in depths:
            for parallel in (1, 2, 3):
                ok &= one_case(label, depth, filt, parallel, via_builder=False)

        ok &= one_case(label, depths[-1], filt, 1, via_builder=True)
        ok &= one_case(label, depths[-1], filt, 2, via_builder=True)

    if ok:
        print("PASS: every live parent was cascaded exactly once, children first")
        return 0

    print("FAIL: the filtered cascade did not visit the live parents as promised")
    return 1


if __name__ == "__main__":
    sys.exit(main())
