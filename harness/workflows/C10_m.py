import os, sys; sys.path.insert(0, os.getcwd())

# Demo 2 (C10): `toasty tile-multi-tan` on two overlapping FITS images that share
# one TAN projection. Every tile of the mosaic receives a contribution from BOTH
# images, each applied through `pio.update_image()`. With `--parallelism 2` the
# two images are handled by two worker processes that update the same tiles at
# overlapping times.
#
# Expected: the tiles produced by the parallel run hold the contribution of
# both images -- exactly what applying the two updates one after another
# (`--parallelism 1`) gives.
#
# The two images carry the same value in every pixel of their overlap (the
# value is a function of the position in the mosaic), so the result does not
# depend on which worker gets to a tile first and the comparison is exact and
# deterministic.

import glob
import shutil
import tempfile

import numpy as np
from astropy.io import fits

# The two images form a cross centred on the corner shared by the four tiles of
# the mosaic: image 1 is the horizontal bar, image 2 the vertical bar. In each of
# the four tiles each image therefore has pixels that the other one does not
# cover, so whatever the order of the two updates of a tile, losing either one
# is visible.
LONG = 300
SHORT = 100


def write_input(path, x0, y0, w, h):
    """An image covering mosaic columns [x0, x0 + w) and rows [y0, y0 + h)."""
    yy, xx = np.mgrid[0:h, 0:w]
    data = (1.0 + (xx + x0) + 1000.0 * (yy + y0)).astype(np.float32)

    hdu = fits.PrimaryHDU(data)
    hdr = hdu.header
    hdr["CTYPE1"] = "RA---TAN"
    hdr["CTYPE2"] = "DEC--TAN"
    hdr["CRVAL1"] = 30.0
    hdr["CRVAL2"] = 10.0
    hdr["CDELT1"] = -0.001
    hdr["CDELT2"] = 0.001
    hdr["CRPIX1"] = 150.5 - x0
    hdr["CRPIX2"] = 150.5 - y0
    hdu.writeto(path, overwrite=True)


def run_tiler(outdir, parallelism, inputs):
    from toasty import cli

    cli.entrypoint(
        ["tile-multi-tan", "--parallelism", str(parallelism), "--outdir", outdir]
        + inputs
    )


def load_tiles(outdir):
    tiles = {}
    for p in glob.glob(os.path.join(outdir, "*", "*", "*.fits")):
        rel = os.path.relpath(p, outdir)
        with fits.open(p) as hdul:
            tiles[rel] = np.array(hdul[0].data)
    return tiles


def main():
    work = tempfile.mkdtemp(prefix="c10demo2_")
    problems = []

    try:
        f1 = os.path.join(work, "img1.fits")
        f2 = os.path.join(work, "img2.fits")
        write_input(f1, 0, SHORT, LONG, SHORT)  # horizontal bar
        write_input(f2, SHORT, 0, SHORT, LONG)  # vertical bar

        d_ser = os.path.join(work, "serial")
        d_par = os.path.join(work, "parallel")
        run_tiler(d_ser, 1, [f1, f2])
        run_tiler(d_par, 2, [f1, f2])

        ser = load_tiles(d_ser)
        par = load_tiles(d_par)

        # Sanity: the one-after-another result holds every input pixel once.
        n_expected = 2 * LONG * SHORT - SHORT * SHORT
        n_ser = sum(int(np.isfinite(a).sum()) for a in ser.values())
        if n_ser != n_expected:
            problems.append(
                f"serial run: {n_ser} populated pixels, expected {n_expected}"
            )

        if sorted(ser) != sorted(par):
            problems.append(
                f"tile sets differ: serial {sorted(ser)} vs parallel {sorted(par)}"
            )

        for rel in sorted(set(ser) & set(par)):
            a, b = ser[rel], par[rel]
            if a.shape != b.shape:
                problems.append(f"{rel}: shapes differ {a.shape} vs {b.shape}")
                continue
            lost = int((np.isfinite(a) & ~np.isfinite(b)).sum())
            if lost:
                problems.append(
                    f"{rel}: {lost} pixels populated after the one-after-another "
                    f"updates are missing after the concurrent updates "
                    f"({int(np.isfinite(a).sum())} vs {int(np.isfinite(b).sum())} populated)"
                )
            elif not np.array_equal(a, b, equal_nan=True):
                problems.append(f"{rel}: pixel values differ between serial and parallel")

        leftovers = glob.glob(os.path.join(d_par, "**", "*.lock"), recursive=True)
        if leftovers:
            problems.append(f"lockfiles left behind: {leftovers}")
    finally:
        shutil.rmtree(work, ignore_errors=True)

    if problems:
        for p in problems:
            print("FAIL:", p)
        return 1

    print("OK: concurrent updates gave the same tiles as one-after-another updates")
    return 0


if __name__ == "__main__":
    sys.exit(main())
