import os, sys; sys.path.insert(0, os.getcwd())

# Demo for property C05: the sky coordinates reported for pixel (row i, col j)
# of the TOAST tile (n, x, y) are the centre of the tile (n+8, 256x+j, 256y+i)
# of the SAME global pixelisation -- in both coordinate systems, for both
# diagonal orientations, and no matter through which public entry point the
# tile was reached (here: a filtered TOAST pyramid, as used by
# `sample_layer_filtered` / `Builder.toast_base(..., tile_filter=...)`).

import shutil
import tempfile

import numpy as np

import toasty
from toasty import toast
from toasty.pyramid import Pos, Pyramid, PyramidIO
from toasty.toast import ToastCoordinateSystem, toast_tile_get_coords

assert os.path.dirname(os.path.abspath(toasty.__file__)) == os.path.join(
    os.getcwd(), "toasty"
), "demo must test the worktree it is started from"

TWOPI = 2 * np.pi
failures = []


def tile_centre(tile):
    """Centre of a tile == the shared corner of its four children."""
    return toast._div4(tile)[0].corners[2]


def angdiff(a, b):
    return abs((a - b + np.pi) % TWOPI - np.pi)


# ---------------------------------------------------------------------------
# Check 1: tiles handed out by a filtered pyramid walk

DEPTH = 2
PIXELS = [(0, 0), (0, 255), (255, 0), (255, 255), (17, 201), (128, 127), (90, 3)]


def accept_all(tile):
    return True


for coordsys in (ToastCoordinateSystem.ASTRONOMICAL, ToastCoordinateSystem.PLANETARY):
    visited = []
    p = Pyramid.new_toast_filtered(DEPTH, accept_all, coordsys=coordsys)
    p.visit_leaves(lambda pos, tile: visited.append((pos, tile)), parallel=1)

    if len(visited) != 4**DEPTH:
        failures.append(f"{coordsys}: visited {len(visited)} leaves, not {4**DEPTH}")

    orientations = set()
    n_bad = 0
    first_bad = None

    for pos, tile in visited:
        orientations.add(bool(tile.increasing))
        lons, lats = toast_tile_get_coords(tile)

        # every pixel centre lies within the latitude range of the tile that
        # the *requested* pixelisation has at this position
        ref = toast.create_single_tile(pos, coordsys=coordsys)
        ref_lons, ref_lats = toast_tile_get_coords(ref)

        for i, j in PIXELS:
            deep = toast.create_single_tile(
                Pos(n=pos.n + 8, x=256 * pos.x + j, y=256 * pos.y + i),
                coordsys=coordsys,
            )
            clon, clat = tile_centre(deep)
            dlat = abs(lats[i, j] - clat)
            # longitude is meaningless exactly at a pole
            dlon = 0.0 if abs(abs(clat) - np.pi / 2) < 1e-9 else angdiff(lons[i, j], clon)

            if dlat > 1e-9 or dlon > 1e-9:
                n_bad += 1
                if first_bad is None:
                    first_bad = (
                        f"tile {tuple(pos)} pixel (row {i}, col {j}): reported "
                        f"(lon, lat) = ({np.degrees(lons[i, j]) % 360:.4f}, "
                        f"{np.degrees(lats[i, j]):.4f}) deg but the centre of tile "
                        f"{tuple(deep.pos)} is ({np.degrees(clon) % 360:.4f}, "
                        f"{np.degrees(clat):.4f}) deg"
                    )

    if orientations != {True, False}:
        failures.append(f"{coordsys}: did not see both diagonal orientations")

    if n_bad:
        failures.append(
            f"{coordsys.value}: {n_bad} of {len(visited) * len(PIXELS)} checked pixels "
            f"of the filtered pyramid's tiles are not the centres of the tiles 8 "
            f"levels deeper; first: {first_bad}"
        )
    else:
        print(f"ok: filtered pyramid, {coordsys.value}: {len(visited)} tiles consistent")


# ---------------------------------------------------------------------------
# Check 2: what lands on disk. Sampling a planetary layer with an accept-all
# tile filter must give the very same tiles as sampling it without a filter.


def lon_sampler(lon, lat):
    # encodes the longitude and latitude that each pixel was asked for
    return (np.cos(lon) * np.cos(lat) + 2 * np.sin(lon) * np.cos(lat)).astype(
        np.float32
    )


work = tempfile.mkdtemp(prefix="seed7_C05_demo_")

try:
    from toasty.builder import Builder

    for is_planet in (False, True):
        label = "planet" if is_planet else "sky"
        pio_a = PyramidIO(os.path.join(work, f"plain_{label}"), default_format="npy")
        pio_b = PyramidIO(os.path.join(work, f"filt_{label}"), default_format="npy")

        Builder(pio_a).toast_base(lon_sampler, 1, is_planet=is_planet, parallel=1)
        Builder(pio_b).toast_base(
            lon_sampler, 1, is_planet=is_planet, parallel=1, tile_filter=accept_all
        )

        worst = 0.0
        for y in range(2):
            for x in range(2):
                pos = Pos(n=1, x=x, y=y)
                a = pio_a.read_image(pos).asarray()
                b = pio_b.read_image(pos).asarray()
                worst = max(worst, float(np.nanmax(np.abs(a - b))))

        if worst > 1e-5:
            failures.append(
                f"Builder.toast_base(is_planet={is_planet}): tiles sampled with an "
                f"accept-all tile_filter differ from the unfiltered ones by up to "
                f"{worst:.3f} -- the two layers do not share one pixelisation"
            )
        else:
            print(f"ok: toast_base {label}: filtered == unfiltered tiles")
finally:
    shutil.rmtree(work, ignore_errors=True)


if failures:
    print()
    print("PROPERTY C05 VIOLATED:")
    for f in failures:
        print(" -", f)
    sys.exit(1)

print("all consistent")
sys.exit(0)
