import os, sys; sys.path.insert(0, os.getcwd())

# Demonstration for property C19 (an error while processing any tile is
# reported), observed through the command line:
#
#     toasty transform u8-to-rgb --parallelism 1 --start 1 --outdir OUT IN
#
# `--parallelism 1` is documented as "force serial processing". In serial mode
# the transform visits the tiles in the calling process, so a tile that cannot
# be read (here: a truncated .npy file, as left behind by an interrupted run or
# a full disk) makes the command fail with the underlying exception.
#
# The demo builds a depth-1 pyramid of five uint8 .npy tiles, truncates one of
# them, and runs the command in-process. It accepts exactly one outcome: the
# command raises (or exits non-zero). If the command returns normally even
# though the JPEG for the damaged tile was never produced, the error has been
# swallowed and the demo exits 1.
#
# Nothing here depends on timing: the failing tile fails deterministically in
# whichever process picks it up; the only question is whether the caller hears
# about it.

import shutil
import tempfile

import numpy as np

import toasty
from toasty import cli
from toasty.image import Image
from toasty.pyramid import Pos, PyramidIO, generate_pos

print("testing toasty from:", os.path.dirname(toasty.__file__))

DEPTH = 1
BAD = Pos(1, 1, 0)

work = tempfile.mkdtemp(prefix="c19demo_")
status = 1

try:
    indir = os.path.join(work, "in")
    outdir = os.path.join(work, "out")

    pio_in = PyramidIO(indir, default_format="npy")
    all_pos = list(generate_pos(DEPTH))

    for i, pos in enumerate(all_pos):
        arr = np.full((256, 256), 40 * (i + 1), dtype=np.uint8)
        pio_in.write_image(pos, Image.from_array(arr), format="npy")

    # Damage one tile: keep the first 100 bytes only.
    bad_path = pio_in.tile_path(BAD, format="npy", makedirs=False)
    with open(bad_path, "rb") as f:
        head = f.read(100)
    with open(bad_path, "wb") as f:
        f.write(head)

    argv = [
        "transform",
        "u8-to-rgb",
        "--parallelism",
        "1",
        "--start",
        str(DEPTH),
        "--outdir",
        outdir,
        indir,
    ]
    print("running: toasty " + " ".join(argv))
    sys.stdout.flush()

    outcome = None

    try:
        cli.entrypoint(argv)
        outcome = "returned normally"
    except SystemExit as e:
        if e.code in (0, None):
            outcome = "returned normally"
        else:
            outcome = f"exited with status {e.code}"
    except Exception as e:
        outcome = f"raised {e.__class__.__name__}: {e}"

    print()
    print("command outcome:", outcome)

    pio_out = PyramidIO(outdir, default_format="jpg")
    missing = [
        p
        for p in all_pos
        if not os.path.exists(pio_out.tile_path(p, format="jpg", makedirs=False))
    ]
    print("output tiles missing:", missing)

    if outcome != "returned normally":
        print("OK: the unreadable tile made the command fail visibly")
        status = 0
    elif not missing:
        print("UNEXPECTED: command succeeded and every output tile exists?!")
        status = 2
    else:
        print(
            "FAIL: `toasty transform u8-to-rgb --parallelism 1` returned normally "
            f"although tile {BAD} could not be processed; the output pyramid is "
            "incomplete and the caller was not told"
        )
        status = 1
finally:
    shutil.rmtree(work, ignore_errors=True)

sys.exit(status)
