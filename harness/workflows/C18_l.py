import os, sys; sys.path.insert(0, os.getcwd())

# Demo for change 1 (property C18).
#
# An image is taken through the pipeline up to "approve".  "publish" is then
# run with a transfer failure injected *while index.wtml itself is being
# written to the store* (the data stream breaks half way).  The store then
# holds every tile but no index.wtml, the image is still in approved/, and
# "refresh" must NOT report the image as already done: it has to offer it as a
# candidate again.  Finally, re-running publish must complete the job, after
# which refresh reports the image as done.
#
# Deterministic: the failure is injected by wrapping the copy routine used by
# the local store, keyed on the destination file name.

import contextlib
import io
import shutil
import tempfile

from toasty import cli, pipeline
from toasty.pipeline import local_io
from toasty.tests import mk_test_path
from toasty.tests.test_pipeline import LocalTestAstroPixImageSource

CID = "fake_test1"

pipeline.IMAGE_SOURCE_CLASS_LOADERS["_local_test_astropix"] = (
    lambda: LocalTestAstroPixImageSource
)

problems = []


def run(*args):
    """Run the toasty CLI in-process; return (exception-or-None, stdout)."""
    buf = io.StringIO()
    exc = None
    with contextlib.redirect_stdout(buf):
        try:
            cli.entrypoint(list(args))
        except BaseException as e:  # noqa
            exc = e
    return exc, buf.getvalue()


def refresh_counts(work):
    exc, out = run("pipeline", "refresh", "--workdir", work)
    if exc is not None:
        raise exc
    saved = done = None
    for line in out.splitlines():
        line = line.strip()
        if line.endswith("processing candidates saved"):
            saved = int(line.split()[1])
        elif line.endswith("were already done"):
            done = int(line.split()[1])
    return saved, done


top = tempfile.mkdtemp()

try:
    repo = os.path.join(top, "repo")
    work = os.path.join(top, "work")
    os.makedirs(repo)
    shutil.copy(mk_test_path("toasty-pipeline-config.yaml"), repo)

    for args in (
        ("pipeline", "init", "--local", repo, work),
        ("pipeline", "refresh", "--workdir", work),
        ("pipeline", "fetch", "--workdir", work, CID),
        ("pipeline", "process-todos", "--workdir", work),
        ("pipeline", "approve", "--workdir", work, CID),
    ):
        exc, _ = run(*args)
        if exc is not None:
            raise exc

    approved = os.path.join(work, "approved", CID)
    published = os.path.join(work, "published", CID)
    n_files = len(os.listdir(approved))
    assert os.path.exists(os.path.join(approved, "index.wtml"))

    # Forget the candidate file of the first refresh, so that what the next
    # refresh does is visible on disk too.
    os.remove(os.path.join(work, "candidates", CID))

    # ---- publish, with the transfer of index.wtml breaking half way ----

    real_copy = local_io.shutil.copyfileobj

    class FlakyShutil(object):
        def __getattr__(self, name):
            return getattr(shutil, name)

        @staticmethod
        def copyfileobj(src, dest, *args):
            name = getattr(dest, "name", "")
            if isinstance(name, str) and "index.wtml" in os.path.basename(name):
                data = src.read()
                dest.write(data[: len(data) // 2])
                dest.flush()
                raise IOError("injected failure: connection lost during index.wtml")
            return real_copy(src, dest, *args)

    local_io.shutil = FlakyShutil()
    try:
        exc, _ = run("pipeline", "publish", "--workdir", work)
    finally:
        local_io.shutil = shutil

    if exc is None:
        problems.append("the injected failure did not stop publish")

    if os.path.exists(os.path.join(repo, CID, "index.wtml")):
        problems.append("store has an index.wtml although its transfer failed")
    if not os.path.isdir(approved):
        problems.append("image left approved/ although publish failed")
    if os.path.exists(published):
        problems.append("image was moved to published/ although publish failed")

    # ---- refresh must not take the half-published image for done ----

    saved, done = refresh_counts(work)
    print(f"refresh after the failed publish: saved={saved} already-done={done}")
    if done != 0 or saved != 1:
        problems.append(
            "refresh after a failed publish reports the image as already done "
            f"(saved={saved}, already done={done}): a partially published "
            "image is skipped"
        )
    if not os.path.exists(os.path.join(work, "candidates", CID)):
        problems.append(
            "refresh did not offer the partially published image as a candidate again"
        )

    # ---- re-running publish completes the job ----

    exc, _ = run("pipeline", "publish", "--workdir", work)
    if exc is not None:
        problems.append(f"re-running publish failed: {exc!r}")
    else:
        in_store = set(os.listdir(os.path.join(repo, CID)))
        in_store = {n for n in in_store if not n.endswith(".tmp")}
        if len(in_store) != n_files or "index.wtml" not in in_store:
            problems.append(
                f"after the re-run the store has {len(in_store)} of {n_files} files"
            )
        if not os.path.isdir(published) or os.path.exists(approved):
            problems.append("after the re-run the image is not in published/")

        saved, done = refresh_counts(work)
        print(f"refresh after the completed publish: saved={saved} already-done={done}")
        if done != 1 or saved != 0:
            problems.append("refresh does not see the fully published image as done")
finally:
    shutil.rmtree(top, ignore_errors=True)

if problems:
    print("C18 VIOLATED:")
    for p in problems:
        print("  -", p)
    sys.exit(1)

print("OK: a failure during the index.wtml transfer leaves the image re-doable and not skipped")
