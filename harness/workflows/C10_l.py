import os, sys; sys.path.insert(0, os.getcwd())

# Demo 1 (C10): several independent processes populate ONE shared TOAST pyramid
# through the public `Builder.toast_base(..., tile_filter=...)` entry point (the
# "HPC" usage that `PyramidIO.update_image()`'s soft lock exists for). Two of
# them (B and C) contribute to the same tile T; a third one (A) works on a
# different tile and finishes while B is still inside its read-modify-write of T.
#
# Expected: the final tile T holds B's pixels AND C's pixels, and C never gets
# into its read-modify-write of T while B is still inside its own.
#
# The interleaving is forced with events (no reliance on luck):
#   1. B enters the critical section of T (lock held, tile read) and is parked
#      there (its "modify" step waits for `b_go`).
#   2. C is started; it samples its data and then wants T's lock.
#   3. A runs to completion on another tile.
#   4. We give C a generous 10 s to (wrongly) get into T's critical section.
#   5. B is released: it modifies, writes, unlocks. Then C is allowed to proceed.
# On a correct tree C only enters after B's write, so T = B + C.

import multiprocessing as mp
import shutil
import tempfile

import numpy as np

DEPTH = 1
T_XY = (0, 0)  # the contended tile: Pos(1, 0, 0)
OTHER_XY = (1, 1)  # the tile the bystander A works on
B_VAL, C_VAL, A_VAL = 1.0, 2.0, 3.0


def make_filter(xy):
    def tile_filter(tile):
        return tile.pos.n == 1 and (tile.pos.x, tile.pos.y) == xy

    return tile_filter


def run_updater(outdir, xy, value, rows, about_evt, in_crit_evt, go_evt):
    """One independent updater process using the public Builder API."""
    from toasty import image as timage
    from toasty.builder import Builder
    from toasty.pyramid import PyramidIO

    def sampler(lon, lat):
        data = np.full(lon.shape, np.nan, dtype=np.float32)
        data[rows] = value
        if about_evt is not None:
            about_evt.set()  # the very next thing is pio.update_image()
        return data

    if in_crit_evt is not None:
        orig = timage.Image.update_into_maskable_buffer

        def parked_update(self, buffer, *args):
            # We are inside `with pio.update_image(...)`: lock held, tile read.
            in_crit_evt.set()
            if not go_evt.wait(120):
                raise Exception("demo: timed out waiting for the go signal")
            return orig(self, buffer, *args)

        timage.Image.update_into_maskable_buffer = parked_update

    pio = PyramidIO(outdir, default_format="fits")
    builder = Builder(pio)
    builder.toast_base(
        sampler,
        DEPTH,
        tile_filter=make_filter(xy),
        parallel=1,
        cli_progress=False,
    )


def main():
    ctx = mp.get_context("fork")
    outdir = tempfile.mkdtemp(prefix="c10demo1_")
    problems = []

    try:
        b_in, b_go = ctx.Event(), ctx.Event()
        c_about, c_in, c_go = ctx.Event(), ctx.Event(), ctx.Event()

        top = slice(0, 128)
        bottom = slice(128, 256)
        everything = slice(None)

        pb = ctx.Process(
            target=run_updater, args=(outdir, T_XY, B_VAL, top, None, b_in, b_go)
        )
        pc = ctx.Process(
            target=run_updater, args=(outdir, T_XY, C_VAL, bottom, c_about, c_in, c_go)
        )
        pa = ctx.Process(
            target=run_updater, args=(outdir, OTHER_XY, A_VAL, everything, None, None, None)
        )

        # 1. B gets into T's critical section and parks there.
        pb.start()
        if not b_in.wait(120):
            raise Exception("demo: B never reached its critical section")

        # 2. C wants T too.
        pc.start()
        if not c_about.wait(120):
            raise Exception("demo: C never got to the point of updating")

        # 3. The bystander A does its (unrelated) tile and finishes.
        pa.start()
        pa.join(120)
        if pa.exitcode != 0:
            raise Exception(f"demo: A failed with exit code {pa.exitcode}")

        # 4. B still holds T. C must not be able to get in.
        if c_in.wait(10):
            problems.append(
                "mutual exclusion broken: C entered the read-modify-write of tile "
                "L1 (0,0) while B was still inside its own (B's lock vanished "
                "when the unrelated updater A finished)"
            )

        # 5. Let B finish, then C.
        b_go.set()
        pb.join(120)
        c_go.set()
        pc.join(120)

        for name, p in (("B", pb), ("C", pc)):
            if p.exitcode != 0:
                raise Exception(f"demo: {name} failed with exit code {p.exitcode}")

        # Inspect the final tile.
        from astropy.io import fits

        tile_path = os.path.join(outdir, "1", "0", "0_0.fits")
        with fits.open(tile_path) as hdul:
            data = np.array(hdul[0].data)

        n_b = int(np.sum(data == B_VAL))
        n_c = int(np.sum(data == C_VAL))
        want = 128 * 256
        print(f"final tile L1 (0,0): {n_b} pixels from B, {n_c} pixels from C (want {want} each)")

        if n_b != want:
            problems.append(
                f"lost update: B's contribution is missing from the final tile ({n_b} of {want} pixels)"
            )
        if n_c != want:
            problems.append(
                f"lost update: C's contribution is missing from the final tile ({n_c} of {want} pixels)"
            )
    finally:
        for p in mp.active_children():
            p.terminate()
        shutil.rmtree(outdir, ignore_errors=True)

    if problems:
        for p in problems:
            print("FAIL:", p)
        return 1

    print("OK: both concurrent contributions are present in the final tile")
    return 0


if __name__ == "__main__":
    sys.exit(main())
