import os, sys; sys.path.insert(0, os.getcwd())

# Demo for change1 (C17): run the `toasty pipeline` workflow with an
# AstroPix-type image source on a small synthetic JPEG, all in a scratch
# directory, and then check that `processed/<id>/index_rel.wtml` describes the
# tiles that sit next to it:
#
#   * expanding the recorded Url template for (level, x, y) gives exactly the
#     file name of the tile written for that position (LXY naming scheme),
#   * FileType is the tiles' extension,
#   * TileLevels is the depth of the deepest populated layer.
#
# Exits 0 if everything agrees, 1 (with a description) otherwise.

import re
import shutil
import tempfile
from xml.etree import ElementTree

import numpy as np
from PIL import Image as PILImage

from toasty import cli, pipeline
from toasty.pipeline import astropix

IMG_W, IMG_H = 700, 500  # -> a 1024-pixel study: 3 layers (levels 0, 1, 2)


class DemoAstroPixImageSource(astropix.AstroPixImageSource):
    """Like the real thing, but without any network access."""

    def query_candidates(self):
        item = {
            "creator": "Demo Observatory",
            "title": "Demo",
            "description": "A synthetic image.",
            "object_name": ["Nothing"],
            "resource_url": "http://example.com/demoimage.jpg",
            "reference_url": "https://example.com/gallery/demoimage/",
            "image_id": "test1",
            "image_credit": "Nobody.",
            "wcs_coordinate_frame": "ICRS",
            "wcs_equinox": "J2000",
            "wcs_reference_value": ["187.70593075", "12.39112325"],
            "wcs_reference_dimension": [str(float(IMG_W)), str(float(IMG_H))],
            "wcs_reference_pixel": ["350.5", "250.5"],
            "wcs_scale": ["-2.0e-4", "2.0e-4"],
            "wcs_rotation": "0",
            "wcs_projection": "TAN",
            "wcs_quality": "Full",
            "wcs_notes": "FAKE",
            "publisher": "FAKE",
            "publisher_id": "fake",
            "resource_id": "test1",
            "last_updated": "2019-04-08T14:00:38.128143",
            "metadata_version": "1.1",
            "image_width": str(IMG_W),
            "image_height": str(IMG_H),
            "image_max_boundry": str(IMG_W),
            "astropix_id": 1,
        }
        yield astropix.AstroPixCandidateInput(item)

    def fetch_candidate(self, unique_id, cand_data_stream, cachedir):
        yy, xx = np.mgrid[0:IMG_H, 0:IMG_W]
        arr = np.empty((IMG_H, IMG_W, 3), dtype=np.uint8)
        arr[..., 0] = 40 + (xx * 200) // IMG_W
        arr[..., 1] = 40 + (yy * 200) // IMG_H
        arr[..., 2] = 40 + ((xx + yy) % 200)
        PILImage.fromarray(arr, mode="RGB").save(
            os.path.join(cachedir, "image.jpg"), format="JPEG"
        )


CONFIG = """\
source_type: _demo_astropix
publish_url_prefix: //localhost/
folder_name: DemoAstropix
folder_thumbnail_url: //localhost/thumb.jpg

astropix:
  json_query_url: https://unused.example.com/
"""


def run_pipeline(top):
    repo = os.path.join(top, "repo")
    work = os.path.join(top, "work")
    os.makedirs(repo)

    with open(os.path.join(repo, "toasty-pipeline-config.yaml"), "wt") as f:
        f.write(CONFIG)

    pipeline.IMAGE_SOURCE_CLASS_LOADERS[
        "_demo_astropix"
    ] = lambda: DemoAstroPixImageSource

    cli.entrypoint(["pipeline", "init", "--local", repo, work])
    cli.entrypoint(["pipeline", "refresh", "--workdir", work])
    cli.entrypoint(["pipeline", "fetch", "--workdir", work, "fake_test1"])
    cli.entrypoint(["pipeline", "process-todos", "--workdir", work])
    return os.path.join(work, "processed", "fake_test1")


def find_imageset(wtml_path):
    root = ElementTree.parse(wtml_path).getroot()
    found = [el for el in root.iter() if el.tag == "ImageSet"]
    if len(found) != 1:
        raise Exception(f"expected exactly one ImageSet in {wtml_path}, got {len(found)}")
    return found[0]


def expand(template, level, x, y):
    # The way a WWT client fills in a tile URL template.
    return (
        template.replace("{1}", str(level))
        .replace("{2}", str(x))
        .replace("{3}", str(y))
    )


def main():
    top = tempfile.mkdtemp(prefix="seed7_C17_demo_")
    problems = []

    try:
        outdir = run_pipeline(top)
        wtml_path = os.path.join(outdir, "index_rel.wtml")

        if not os.path.isfile(wtml_path):
            print("FAIL: no index_rel.wtml in", outdir)
            return 1

        imgset = find_imageset(wtml_path)
        url = imgset.get("Url")
        file_type = imgset.get("FileType")
        tile_levels = int(imgset.get("TileLevels"))
        print(f"WTML: Url={url!r} FileType={file_type!r} TileLevels={tile_levels}")

        # What is actually on disk (the pipeline uses the flat LXY scheme).
        tiles = {}
        for name in sorted(os.listdir(outdir)):
            m = re.match(r"^L(\d+)X(\d+)Y(\d+)\.([A-Za-z0-9]+)$", name)
            if m:
                pos = (int(m.group(1)), int(m.group(2)), int(m.group(3)))
                tiles[pos] = (name, m.group(4))

        print(f"disk: {len(tiles)} tile files in {outdir}")

        if not tiles:
            problems.append("no tile files were written at all")
        else:
            # 1. the template leads to every tile, and to distinct paths
            seen = {}
            for pos, (name, _ext) in sorted(tiles.items()):
                expanded = expand(url, *pos)
                if expanded != name:
                    problems.append(
                        f"position {pos}: tile was written to {name!r} but the WTML "
                        f"Url template expands to {expanded!r}"
                    )
                if expanded in seen:
                    problems.append(
                        f"positions {seen[expanded]} and {pos} expand to the same path {expanded!r}"
                    )
                seen.setdefault(expanded, pos)
                if not os.path.isfile(os.path.join(outdir, expanded)):
                    problems.append(
                        f"position {pos}: expanded path {expanded!r} does not exist next to the WTML"
                    )

            # 2. the file type
            exts = sorted(set("." + ext for _name, ext in tiles.values()))
            if exts != [file_type]:
                problems.append(
                    f"WTML FileType is {file_type!r} but the tiles have extension(s) {exts}"
                )

            # 3. the number of levels
            deepest = max(pos[0] for pos in tiles)
            if deepest != tile_levels:
                problems.append(
                    f"WTML TileLevels is {tile_levels} but the deepest populated layer is {deepest}"
                )

            # sanity: this input must make a 3-layer pyramid with its apex
            if deepest != 2 or (0, 0, 0) not in tiles:
                problems.append(
                    f"unexpected pyramid shape: deepest={deepest}, apex present={(0, 0, 0) in tiles}"
                )
    finally:
        shutil.rmtree(top, ignore_errors=True)

    if problems:
        print()
        print(f"FAIL: index_rel.wtml does not match the files on disk ({len(problems)} problem(s)):")
        for p in problems[:12]:
            print("  -", p)
        if len(problems) > 12:
            print(f"  ... and {len(problems) - 12} more")
        return 1

    print("OK: index_rel.wtml matches the files on disk")
    return 0


if __name__ == "__main__":
    sys.exit(main())
