import os, sys; sys.path.insert(0, os.getcwd())

# Demo for C20: `toasty view --hdu-index I,J,... PATH PATH ...` must give the
# file at list position k the HDU index at list position k -- also when the
# same multi-extension file is named more than once (the ordinary way to put
# several image extensions of ONE file into one mosaic).
#
# Run as:  cd /tmp/seed_C20 && /venv/bin/python /tmp/seed8_C20_out/demo1.py
# Exit 0: every scenario tiled exactly the selected HDUs. Exit 1: it did not.

import glob
import shutil
import tempfile
import warnings

import numpy as np
from astropy.io import fits

import toasty
import toasty.cli

NY, NX = 200, 300  # shape of every image extension


def make_hdu(value, col, row):
    """A constant-valued image on a TAN grid shared by all extensions; (col,
    row) says which NX-by-NY cell of that grid the image occupies, so that
    no two extensions used here overlap."""
    hdu = fits.ImageHDU(np.full((NY, NX), value, dtype=np.float32))
    h = hdu.header
    h["CTYPE1"] = "RA---TAN"
    h["CTYPE2"] = "DEC--TAN"
    h["CRVAL1"] = 50.0
    h["CRVAL2"] = 20.0
    h["CDELT1"] = -0.001
    h["CDELT2"] = 0.001
    h["CRPIX1"] = 1.0 - col * NX
    h["CRPIX2"] = 1.0 - row * NY
    return hdu


def make_file(path, values, row):
    hdus = [fits.PrimaryHDU()]  # HDU 0: no data
    for col, v in enumerate(values):
        hdus.append(make_hdu(v, col, row))
    fits.HDUList(hdus).writeto(path)


def base_level_values(out_dir):
    """Finite pixel values found in the deepest level of the pyramid."""
    levels = [int(d) for d in os.listdir(out_dir) if d.isdigit()]
    deepest = max(levels)
    found = {}
    for p in glob.glob(os.path.join(out_dir, str(deepest), "*", "*.fits")):
        with fits.open(p) as hdul:
            data = hdul[0].data
        vals, counts = np.unique(data[np.isfinite(data)], return_counts=True)
        for v, c in zip(vals, counts):
            found[float(v)] = found.get(float(v), 0) + int(c)
    return found


def run_view(workdir, hdu_index_opt, names):
    a = os.path.join(workdir, "a.fits")
    b = os.path.join(workdir, "b.fits")
    make_file(a, [1.0, 2.0, 3.0], row=0)  # HDUs 1,2,3 hold 1, 2, 3
    make_file(b, [10.0, 20.0, 30.0], row=1)  # HDUs 1,2,3 hold 10, 20, 30
    paths = [os.path.join(workdir, n) for n in names]

    argv = [
        "view",
        "--tile-only",
        "--tiling-method",
        "tan",
        "--parallelism",
        "1",
        "--hdu-index",
        hdu_index_opt,
    ] + paths

    with warnings.catch_warnings():
        warnings.simplefilter("ignore")
        toasty.cli.entrypoint(argv)

    out_dir = os.path.join(workdir, "a_tiled")
    return base_level_values(out_dir)


SCENARIOS = [
    # (--hdu-index, input paths, {pixel value: how many pixels} expected)
    ("1,2", ["a.fits", "a.fits"], {1.0: NY * NX, 2.0: NY * NX}),
    (
        "1,2,3",
        ["a.fits", "a.fits", "b.fits"],
        {1.0: NY * NX, 2.0: NY * NX, 30.0: NY * NX},
    ),
    # controls: no repeated path
    ("2,3", ["a.fits", "b.fits"], {2.0: NY * NX, 30.0: NY * NX}),
    ("3", ["a.fits", "b.fits"], {3.0: NY * NX, 30.0: NY * NX}),
]


def main():
    print("toasty imported from", os.path.dirname(toasty.__file__))
    bad = 0

    for opt, names, expected in SCENARIOS:
        workdir = tempfile.mkdtemp(prefix="c20demo_")
        try:
            got = run_view(workdir, opt, names)
        finally:
            shutil.rmtree(workdir, ignore_errors=True)

        ok = got == expected
        print()
        print(f"toasty view --hdu-index {opt} {' '.join(names)}")
        print(f"   expected pixel values (value: count): {expected}")
        print(f"   found in the base level of the pyramid: {got}")
        print("   OK" if ok else "   WRONG: the tiled data are not the selected HDUs")
        if not ok:
            bad += 1

    print()
    if bad:
        print(f"FAIL: {bad} scenario(s) did not tile the HDU selected for each input")
        return 1
    print("PASS: every input contributed exactly the HDU selected for its position")
    return 0


if __name__ == "__main__":
    sys.exit(main())
