import os, sys; sys.path.insert(0, os.getcwd())

# Demonstration for property C03 (pyramid-wide transforms hand every tile to
# exactly one worker, process it fully, and then return), driven through the
# command line: `toasty transform fx3-to-rgb [--outdir OUT] -j N --start 2 DIR`.
#
# For N in (1, 3) and for the in-place and the `--outdir` variants we check:
#   * the per-tile callback ran exactly once per tile (logged as "n x y pid"
#     into an O_APPEND file, so the log also works from forked workers), and in
#     parallel mode it ran in worker processes;
#   * after the command has returned, every tile that has float data in DIR has
#     its RGB PNG in the destination pyramid (DIR itself, or OUT), with the
#     right pixel values -- i.e. the item was really processed;
#   * with `--outdir`, the source pyramid was left alone;
#   * the set of tiles produced is the same for every worker count.
#
# Deterministic: nothing here depends on timing.

import shutil
import tempfile
import time

import numpy as np
from PIL import Image as PilImage

import toasty

assert os.path.dirname(os.path.dirname(os.path.abspath(toasty.__file__))) == os.getcwd(), (
    "not testing the worktree: %s" % toasty.__file__
)

from toasty import cli, par_util, transform
from toasty.image import Image
from toasty.pyramid import PyramidIO, depth2tiles, generate_pos

par_util.SHOW_INFORMATIONAL_MESSAGES = False

DEPTH = 2
ALL_POS = sorted(generate_pos(DEPTH))
assert len(ALL_POS) == depth2tiles(DEPTH) == 21

problems = []


def complain(msg):
    print("PROBLEM:", msg)
    problems.append(msg)


# Log every invocation of the per-tile function, whichever process it runs in.

LOG_PATH = None
_orig_do_one = transform._float_to_rgb_do_one


def _logging_do_one(buf, pos, *args, **kwargs):
    fd = os.open(LOG_PATH, os.O_WRONLY | os.O_APPEND | os.O_CREAT, 0o644)
    try:
        os.write(fd, ("%d %d %d %d\n" % (pos.n, pos.x, pos.y, os.getpid())).encode())
    finally:
        os.close(fd)
    return _orig_do_one(buf, pos, *args, **kwargs)


transform._float_to_rgb_do_one = _logging_do_one


def make_source(path):
    """A depth-2 pyramid of half-precision 3-plane tiles, one distinct tile per
    position."""
    pio = PyramidIO(path, default_format="npy")
    data = {}

    for i, pos in enumerate(ALL_POS):
        rng = np.random.RandomState(1000 + i)
        arr = rng.uniform(0.0, 1.2, size=(256, 256, 3)).astype(np.float16)
        pio.write_image(pos, Image.from_array(arr), format="npy")
        data[pos] = arr

    return data


def expected_rgb(arr):
    v = np.clip(arr.astype(np.float64), 0.0, 1.0)  # ManualInterval(0, clip=1)
    v = np.sqrt(v)  # SqrtStretch
    return np.clip(v * 255, 0, 255)


def list_pngs(path):
    found = set()
    pio = PyramidIO(path, default_format="png")
    for pos in ALL_POS:
        if os.path.exists(pio.tile_path(pos, format="png", makedirs=False)):
            found.add(pos)
    return found


def run_case(workdir, label, workers, use_outdir):
    global LOG_PATH

    src = os.path.join(workdir, label, "src")
    out = os.path.join(workdir, label, "out")
    os.makedirs(os.path.join(workdir, label))
    data = make_source(src)
    LOG_PATH = os.path.join(workdir, label, "calls.log")

    argv = ["transform", "fx3-to-rgb", "--start", str(DEPTH), "-j", str(workers)]
    if use_outdir:
        argv += ["--outdir", out]
    argv += [src]

    print("\n=== %s: toasty %s" % (label, " ".join(argv)))
    t0 = time.time()
    cli.entrypoint(argv)
    print("=== returned after %.1fs" % (time.time() - t0))

    # 1. callback invocations

    calls = []
    if os.path.exists(LOG_PATH):
        with open(LOG_PATH) as f:
            for line in f:
                n, x, y, pid = map(int, line.split())
                calls.append(((n, x, y), pid))

    called = sorted(c[0] for c in calls)
    if called != [tuple(p) for p in ALL_POS]:
        complain(
            "%s: per-tile function was not invoked exactly once per tile "
            "(%d calls for %d tiles)" % (label, len(called), len(ALL_POS))
        )

    pids = set(c[1] for c in calls)
    if workers > 1 and os.getpid() in pids:
        complain("%s: tiles were processed in the parent although -j %d" % (label, workers))
    if workers == 1 and pids != {os.getpid()}:
        complain("%s: serial run did not process the tiles in the parent" % label)

    # 2. the products

    dest = out if use_outdir else src
    produced = list_pngs(dest)
    missing = [p for p in ALL_POS if p not in produced]

    if missing:
        complain(
            "%s: command returned, every tile was handed out once, but %d of %d "
            "tiles were never transformed into %s (first missing: %s)"
            % (label, len(missing), len(ALL_POS), dest, missing[0])
        )

    pio_dest = PyramidIO(dest, default_format="png")
    n_bad = 0

    for pos in sorted(produced):
        got = np.asarray(PilImage.open(pio_dest.tile_path(pos, format="png", makedirs=False)))
        if got.shape != (256, 256, 3):
            n_bad += 1
            continue
        if np.abs(got.astype(np.float64) - expected_rgb(data[pos])).max() > 1.01:
            n_bad += 1

    if n_bad:
        complain("%s: %d produced tiles have the wrong contents" % (label, n_bad))

    # 3. the source pyramid is only written to when operating in place

    if use_outdir:
        stray = list_pngs(src)
        if stray:
            complain(
                "%s: %d PNG tiles appeared in the *source* pyramid although "
                "--outdir was given" % (label, len(stray))
            )

    return produced


def main():
    workdir = tempfile.mkdtemp(prefix="c03_demo_")

    try:
        results = {}

        for use_outdir in (False, True):
            for workers in (1, 3):
                label = "%s_j%d" % ("outdir" if use_outdir else "inplace", workers)
                results[(use_outdir, workers)] = run_case(
                    workdir, label, workers, use_outdir
                )

        for use_outdir in (False, True):
            if results[(use_outdir, 1)] != results[(use_outdir, 3)]:
                complain(
                    "set of tiles produced with 3 workers differs from the serial set "
                    "(%s)" % ("--outdir" if use_outdir else "in place")
                )
    finally:
        shutil.rmtree(workdir, ignore_errors=True)

    print()
    if problems:
        print("FAIL: %d problem(s):" % len(problems))
        for p in problems:
            print("  -", p)
        return 1

    print("OK: every tile was transformed exactly once in all four runs")
    return 0


if __name__ == "__main__":
    sys.exit(main())
