import os, sys; sys.path.insert(0, os.getcwd())

# Demo 2: after sample_layer()/sample_layer_filtered(), the file that the
# pyramid's naming scheme assigns to tile (n, x, y) must hold the sampler's
# values at the pixel centres of tile (n, x, y) -- for both of PyramidIO's
# naming schemes ("L/Y/YX" and "LXY"), in clobbering and updating mode.
#
# File names are derived independently from the WTML URL template reported by
# PyramidIO.get_path_scheme() ({1} = level, {2} = X, {3} = Y), i.e. the way WWT
# itself locates a tile.
#
# Exits 0 if all is well, 1 (listing the offending cases) otherwise.

import shutil
import tempfile

import numpy as np
from astropy.io import fits
from PIL import Image as PilImage

from toasty import par_util
from toasty.pyramid import PyramidIO
from toasty.toast import (
    ToastCoordinateSystem,
    generate_tiles,
    sample_layer,
    sample_layer_filtered,
    toast_tile_get_coords,
)

par_util.SHOW_INFORMATIONAL_MESSAGES = False


def scalar_sampler(lon, lat):
    return 3.0 * np.sin(lat) + np.cos(lon) + 0.5 * np.sin(2 * lon + 0.3) + 0.1 * lon


def rgb_sampler(lon, lat):
    out = np.empty(lon.shape + (3,), dtype=np.uint8)
    out[..., 0] = np.floor(255.999 * (lon % (2 * np.pi)) / (2 * np.pi))
    out[..., 1] = np.floor(255.999 * (lat + np.pi / 2) / np.pi)
    out[..., 2] = np.floor(127.999 * (1 + np.sin(3 * lon + 2 * lat)))
    return out


def accept_all(tile):
    return True


def north_east(tile):
    # tiles (and ancestors) descending from the level-1 tile (x=1, y=0)
    s = tile.pos.n - 1
    return (tile.pos.x >> s) == 1 and (tile.pos.y >> s) == 0


def read_display(path, fmt):
    if fmt == "npy":
        return np.load(path)
    if fmt == "fits":
        with fits.open(path) as hdul:
            return np.asarray(hdul[0].data)[::-1]  # stored bottom-up
    with PilImage.open(path) as im:
        return np.asarray(im)


def run_case(scheme, fmt, depth, tile_filter, coordsys, parallel):
    root = tempfile.mkdtemp(prefix="c06demo2_")
    problems = []
    sampler = rgb_sampler if fmt == "png" else scalar_sampler

    try:
        pio = PyramidIO(root, scheme=scheme, default_format=fmt)

        if tile_filter is None:
            sample_layer(pio, sampler, depth, coordsys=coordsys, parallel=parallel)
        else:
            sample_layer_filtered(
                pio, tile_filter, sampler, depth, coordsys=coordsys, parallel=parallel
            )

        template = pio.get_path_scheme() + "." + fmt
        expected_files = set()

        for tile in generate_tiles(depth, bottom_only=True, coordsys=coordsys):
            if tile_filter is not None and not tile_filter(tile):
                continue

            rel = template.format("", tile.pos.n, tile.pos.x, tile.pos.y)
            expected_files.add(os.path.normpath(rel))
            path = os.path.join(root, rel)

            if not os.path.exists(path):
                problems.append("%r: no file %s" % (tile.pos, rel))
                continue

            got = read_display(path, fmt)
            lon, lat = toast_tile_get_coords(tile)
            expected = sampler(lon, lat)

            if fmt == "png" and got.ndim == 3 and got.shape[2] == 4:
                if not np.all(got[..., 3] == 255):
                    problems.append("%r: %s has transparent pixels" % (tile.pos, rel))
                got = got[..., :3]

            if got.shape != expected.shape or not np.array_equal(got, expected):
                problems.append(
                    "%r: %s does not hold sampler(this tile's pixel centres)"
                    % (tile.pos, rel)
                )

        found = set()
        for dirpath, _dirs, files in os.walk(root):
            for f in files:
                if f.endswith(".lock"):
                    continue
                found.add(os.path.normpath(os.path.relpath(os.path.join(dirpath, f), root)))

        for extra in sorted(found - expected_files):
            problems.append("unexpected file %s" % extra)
    finally:
        shutil.rmtree(root, ignore_errors=True)

    return problems


def main():
    failures = 0
    n_cases = 0

    cases = []
    for scheme in ("L/Y/YX", "LXY"):
        for fmt in ("npy", "fits", "png"):
            for tf_name, tf in (("none", None), ("all", accept_all), ("NE", north_east)):
                # depth 1, serial, both coordinate systems; depth 2, sky only,
                # serial and two workers
                for cs in (ToastCoordinateSystem.ASTRONOMICAL, ToastCoordinateSystem.PLANETARY):
                    cases.append((scheme, fmt, 1, tf_name, tf, cs, 1))
                for par in (1, 2):
                    cases.append(
                        (scheme, fmt, 2, tf_name, tf, ToastCoordinateSystem.ASTRONOMICAL, par)
                    )

    for scheme, fmt, depth, tf_name, tf, cs, par in cases:
        n_cases += 1
        problems = run_case(scheme, fmt, depth, tf, cs, par)
        if problems:
            failures += 1
            print(
                "FAIL scheme=%s format=%s depth=%d filter=%s coordsys=%s parallel=%d"
                % (scheme, fmt, depth, tf_name, cs.name, par)
            )
            for p in problems[:4]:
                print("    " + p)
            if len(problems) > 4:
                print("    ... and %d more" % (len(problems) - 4))

    if failures:
        print(
            "%d of %d cases: the file for a tile does not hold that tile's samples"
            % (failures, n_cases)
        )
        return 1

    print("all %d cases OK" % n_cases)
    return 0


if __name__ == "__main__":
    sys.exit(main())
