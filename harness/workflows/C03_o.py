import os, sys; sys.path.insert(0, os.getcwd())

"""
C03 demo: `toasty transform u8-to-rgb --start DEPTH --parallelism N DIR` must
hand every tile of levels 0..DEPTH to exactly one worker, whatever N is, and
return only after all of them have been written and all workers are gone.

A depth-3 pyramid of 85 single-valued U8 ``.npy`` tiles is built; the command
is run in-process through `toasty.cli.entrypoint` for several (DEPTH, N)
combinations. The per-tile transform function is wrapped so that every
invocation (in whatever process) appends "n x y pid" to a log file opened with
O_APPEND; the multiset of logged positions and the set of JPEG files written
must both be exactly the tiles of levels 0..DEPTH, independent of N.

Deterministic: no timing is involved. Exit 0 = property holds; 1 = violated.
"""

import collections
import multiprocessing as mp
import shutil
import tempfile

import numpy as np

import toasty
from toasty import cli, transform
from toasty.image import Image
from toasty.pyramid import PyramidIO, generate_pos

print("testing toasty from", os.path.dirname(toasty.__file__))

FULL_DEPTH = 3
CASES = [  # (--start, --parallelism)
    (3, 2),
    (2, 3),
    (3, 1),
    (1, 3),
    (2, 2),
    (3, 4),
]

work = tempfile.mkdtemp(prefix="c03_demo_")
failures = []


def tile_value(pos):
    return (37 * pos.n + 11 * pos.x + 5 * pos.y + 20) % 230 + 10


try:
    # Build the input pyramid
    src = os.path.join(work, "src")
    pio = PyramidIO(src, default_format="npy")
    all_pos = list(generate_pos(FULL_DEPTH))
    assert len(all_pos) == 85

    for pos in all_pos:
        arr = np.full((256, 256), tile_value(pos), dtype=np.uint8)
        pio.write_image(pos, Image.from_array(arr), format="npy")

    # Instrument the per-tile function. Workers are forked, so they inherit it.
    log_path = os.path.join(work, "calls.log")
    orig_do_one = transform._u8_to_rgb_do_one

    def logging_do_one(buf, pos, pio_in, pio_out):
        fd = os.open(log_path, os.O_WRONLY | os.O_APPEND | os.O_CREAT, 0o644)
        try:
            os.write(fd, f"{pos.n} {pos.x} {pos.y} {os.getpid()}\n".encode())
        finally:
            os.close(fd)
        return orig_do_one(buf, pos, pio_in, pio_out)

    transform._u8_to_rgb_do_one = logging_do_one

    for start, par in CASES:
        label = f"--start {start} --parallelism {par}"
        out = os.path.join(work, f"out_s{start}_j{par}")

        if os.path.exists(log_path):
            os.unlink(log_path)

        cli.entrypoint(
            [
                "transform",
                "u8-to-rgb",
                "--start",
                str(start),
                "--parallelism",
                str(par),
                "--outdir",
                out,
                src,
            ]
        )

        # (a) everything must be over when the command returns
        kids = mp.active_children()
        if kids:
            failures.append(f"{label}: {len(kids)} worker(s) still alive after return")

        expected = set((p.n, p.x, p.y) for p in all_pos if p.n <= start)

        # (b) multiset of per-tile invocations
        calls = collections.Counter()
        pids = set()

        if os.path.exists(log_path):
            with open(log_path) as f:
                for line in f:
                    n, x, y, pid = (int(t) for t in line.split())
                    calls[(n, x, y)] += 1
                    pids.add(pid)

        missing = sorted(expected - set(calls))
        extra = sorted(set(calls) - expected)
        dups = sorted(k for k, v in calls.items() if v > 1)

        if missing:
            failures.append(
                f"{label}: {len(missing)} of {len(expected)} tiles never handed to a worker, e.g. {missing[:4]}"
            )
        if extra:
            failures.append(
                f"{label}: {len(extra)} tiles processed that are deeper than --start, e.g. {extra[:4]}"
            )
        if dups:
            failures.append(f"{label}: tiles processed more than once: {dups[:4]}")

        n_procs = len(pids - {os.getpid()})
        if par > 1 and n_procs > par:
            failures.append(f"{label}: {n_procs} distinct worker processes for -j {par}")

        # (c) the files that came out, and their contents
        pio_out = PyramidIO(out, default_format="jpg")
        written = set()

        for p in all_pos:
            path = pio_out.tile_path(p, format="jpg", makedirs=False)
            if os.path.exists(path):
                written.add((p.n, p.x, p.y))
                img = pio_out.read_image(p, format="jpg").asarray()
                if img.shape != (256, 256, 3) or abs(float(img.mean()) - tile_value(p)) > 3:
                    failures.append(f"{label}: tile {p} has wrong contents")

        if written != expected:
            failures.append(
                f"{label}: output has {len(written)} JPEG tiles, expected {len(expected)} "
                f"(missing {len(expected - written)}, unexpected {len(written - expected)})"
            )

        print(
            f"{label}: {sum(calls.values())} invocations over {len(calls)} tiles, "
            f"{len(written)} files, expected {len(expected)}"
        )
finally:
    shutil.rmtree(work, ignore_errors=True)

if failures:
    print()
    print("C03 VIOLATED:")
    for f in failures:
        print("  -", f)
    sys.exit(1)

print("OK: every tile of levels 0..DEPTH processed exactly once for every worker count")
sys.exit(0)
