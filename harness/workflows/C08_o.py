import os, sys; sys.path.insert(0, os.getcwd())

"""
C08 demonstration: tile small images as WWT studies, read the written
deepest-level tiles back through the URL template of the emitted WTML, put them
together in display orientation and compare with the source pixels.

Two routes are exercised for each case:

  * the Python API:  Image.from_array -> Builder.tile_base_as_study
  * the command line: `toasty tile-study --placeholder-thumbnail X.npy`

Exit status 0 if every case reproduces its source image exactly (and nothing
but undefined pixels outside it), 1 otherwise.
"""

import shutil
import tempfile
import warnings
from xml.etree import ElementTree as etree

import numpy as np
from PIL import Image as PILImage

import toasty
from toasty import cli
from toasty.builder import Builder
from toasty.image import Image
from toasty.pyramid import PyramidIO

warnings.simplefilter("ignore")

# (width, height)
SIZES = [
    (1, 1),
    (2, 1),
    (1, 2),
    (7, 1),
    (1, 7),
    (300, 1),
    (1, 300),
    (3, 4),
    (4, 3),
    (255, 257),
]

# (label, tile format, maker of a source array of shape (h, w[, planes]))
rng = np.random.RandomState(20240608)


def mk_f32(w, h):
    return (np.arange(h * w, dtype=np.float32).reshape((h, w)) + 1).astype(np.float32)


def mk_f64(w, h):
    return np.arange(h * w, dtype=np.float64).reshape((h, w)) * 0.5 + 1


def mk_u8(w, h):
    return rng.randint(1, 256, size=(h, w)).astype(np.uint8)


def mk_rgb(w, h):
    return rng.randint(0, 256, size=(h, w, 3)).astype(np.uint8)


def mk_rgba(w, h):
    a = rng.randint(0, 256, size=(h, w, 4)).astype(np.uint8)
    a[..., 3] = rng.randint(1, 256, size=(h, w))  # keep every pixel defined
    return a


MODES = [
    ("F32/npy", "npy", mk_f32),
    ("F64/fits", "fits", mk_f64),
    ("U8/npy", "npy", mk_u8),
    ("RGB/png", "png", mk_rgb),
    ("RGBA/png", "png", mk_rgba),
]


def expected_canvas(src):
    """What the reassembled tiling must look like, derived from the source
    array alone: smallest power-of-two square >= 256 holding the image, image
    centred with offsets rounded down, everything else undefined."""
    h, w = src.shape[:2]
    p2n = 256
    while p2n < max(w, h):
        p2n *= 2
    gx0 = (p2n - w) // 2
    gy0 = (p2n - h) // 2

    if src.ndim == 3:  # colour -> RGBA tiles, undefined = alpha 0
        canvas = np.zeros((p2n, p2n, 4), dtype=np.uint8)
        canvas[gy0 : gy0 + h, gx0 : gx0 + w, : src.shape[2]] = src
        if src.shape[2] == 3:
            canvas[gy0 : gy0 + h, gx0 : gx0 + w, 3] = 255
    elif src.dtype.kind == "f":  # undefined = NaN
        canvas = np.full((p2n, p2n), np.nan, dtype=src.dtype)
        canvas[gy0 : gy0 + h, gx0 : gx0 + w] = src
    else:  # integer data, undefined = 0
        canvas = np.zeros((p2n, p2n), dtype=src.dtype)
        canvas[gy0 : gy0 + h, gx0 : gx0 + w] = src

    return p2n, canvas


def read_tile_display(path, ext):
    """Read one tile file into an array in display (top-down) orientation."""
    if ext == "npy":
        return np.load(path)
    if ext == "fits":
        from astropy.io import fits

        with fits.open(path) as hdul:
            data = np.array(hdul[0].data)
            # FITS is big-endian on disk; FITS tiles are bottoms-up
            return data.astype(data.dtype.newbyteorder("="))[::-1]
    if ext == "png":
        return np.asarray(PILImage.open(path))
    raise Exception("unexpected tile format " + ext)


def reassemble(outdir, like):
    """Reassemble the deepest level named by index_rel.wtml."""
    root = etree.parse(os.path.join(outdir, "index_rel.wtml")).getroot()
    imgset = root.find(".//ImageSet")
    levels = int(imgset.attrib["TileLevels"])
    url = imgset.attrib["Url"]
    ext = imgset.attrib["FileType"].lstrip(".")

    n = 2**levels
    canvas = np.empty((256 * n, 256 * n) + like.shape[2:], dtype=like.dtype)
    blank = like[:1, :1].copy()  # one undefined pixel of the right kind
    blank[...] = np.nan if like.dtype.kind == "f" else 0
    canvas[...] = blank

    for ty in range(n):
        for tx in range(n):
            rel = (
                url.replace("{1}", str(levels))
                .replace("{2}", str(tx))
                .replace("{3}", str(ty))
            )
            p = os.path.join(outdir, rel)
            if not os.path.exists(p):
                continue  # fully undefined tiles are not written
            t = read_tile_display(p, ext)
            want = (256, 256) + like.shape[2:]
            if t.shape != want or t.dtype != like.dtype:
                raise Exception(
                    "tile %s has shape %s dtype %s; expected %s %s"
                    % (rel, t.shape, t.dtype, want, like.dtype)
                )
            canvas[ty * 256 : (ty + 1) * 256, tx * 256 : (tx + 1) * 256] = t

    return canvas


def same(a, b):
    if a.shape != b.shape:
        return False
    if a.dtype.kind == "f":
        return bool(np.array_equal(a, b, equal_nan=True))
    return bool(np.array_equal(a, b))


def describe_mismatch(got, exp):
    if got.shape != exp.shape:
        return "reassembled shape %s != expected %s" % (got.shape, exp.shape)
    if got.dtype.kind == "f":
        bad = ~((got == exp) | (np.isnan(got) & np.isnan(exp)))
    else:
        bad = got != exp
    if bad.ndim == 3:
        bad = bad.any(axis=2)
    ys, xs = np.nonzero(bad)
    return "%d pixels differ, first at global (x=%d, y=%d): got %r, expected %r" % (
        len(ys),
        xs[0],
        ys[0],
        got[ys[0], xs[0]].tolist(),
        exp[ys[0], xs[0]].tolist(),
    )


def run_api(src, fmt, outdir):
    img = Image.from_array(src.copy(), default_format=fmt)
    pio = PyramidIO(outdir, default_format=fmt)
    b = Builder(pio)
    b.tile_base_as_study(img)
    b.write_index_rel_wtml()


def run_cli(src, fmt, outdir):
    # `tile-study` takes the tile format from the loaded image, which is "npy"
    # for .npy inputs whatever the mode.
    inp = os.path.join(outdir, "input.npy")
    os.makedirs(outdir, exist_ok=True)
    np.save(inp, src)
    tiles = os.path.join(outdir, "tiles")
    stdout, stderr = sys.stdout, sys.stderr
    try:
        # hush the success message and the progress bar
        sys.stdout = sys.stderr = open(os.devnull, "w")
        cli.entrypoint(
            ["tile-study", "--placeholder-thumbnail", "--outdir", tiles, inp]
        )
    finally:
        sys.stdout.close()
        sys.stdout, sys.stderr = stdout, stderr
    return tiles


def main():
    print("testing toasty from", os.path.dirname(toasty.__file__))
    failures = []
    n_cases = 0
    work = tempfile.mkdtemp(prefix="c08demo_")

    try:
        for label, fmt, maker in MODES:
            for w, h in SIZES:
                src = maker(w, h)
                p2n, exp = expected_canvas(src)

                for route in ("api", "cli"):
                    n_cases += 1
                    name = "%s %dx%d via %s" % (label, w, h, route)
                    outdir = os.path.join(work, "case%04d" % n_cases)

                    try:
                        if route == "api":
                            run_api(src, fmt, outdir)
                            tiles = outdir
                        else:
                            tiles = run_cli(src, fmt, outdir)

                        got = reassemble(tiles, exp)
                        if not same(got, exp):
                            failures.append(
                                "%s: %s" % (name, describe_mismatch(got, exp))
                            )
                    except BaseException as e:  # includes SystemExit from the CLI
                        if isinstance(e, KeyboardInterrupt):
                            raise
                        failures.append(
                            "%s: %s: %s" % (name, e.__class__.__name__, e)
                        )
    finally:
        shutil.rmtree(work, ignore_errors=True)

    if failures:
        print("C08 VIOLATED in %d of %d cases:" % (len(failures), n_cases))
        for f in failures:
            print("  -", f)
        return 1

    print("all %d cases reproduce their source image exactly" % n_cases)
    return 0


if __name__ == "__main__":
    sys.exit(main())
