import os, sys; sys.path.insert(0, os.getcwd())

"""
C09 demo: a mosaic is cut into overlapping sub-images whose borders are padded
with the blank value 0 (a very common convention for padded FITS cut-outs).
Tiling the sub-images with ``blankval=0`` must give exactly the deepest-level
tiles (and description) obtained by tiling the assembled mosaic, in which the
blank pixels are undefined (NaN) and never overwrite defined ones.

Exit status 0: property holds.  Non-zero: property violated (details printed).
"""

import glob
import shutil
import tempfile
import warnings

import numpy as np
from astropy.io import fits

warnings.simplefilter("ignore")

import toasty
from toasty import TilingMethod, tile_fits, par_util

par_util.SHOW_INFORMATIONAL_MESSAGES = False

assert os.path.realpath(os.path.dirname(os.path.dirname(toasty.__file__))) == os.path.realpath(
    os.getcwd()
), "demo must test the worktree it is started from"

W, H = 600, 420  # mosaic size; 3x2 tiles of 256 => 2 tile levels
BORDER = 9  # width of the blank (0-valued) frame around every sub-image
SCALE = 1.0 / 3600  # deg / pixel
CRPIX = (301.5, 190.25)  # 1-based reference pixel in the mosaic (FITS order)

# windows (x0, x1, y0, y1) in the mosaic's bottom-up FITS array; they overlap
WINDOWS = [
    (0, 330, 0, 250),
    (270, 600, 0, 260),
    (0, 310, 200, 420),
    (280, 600, 210, 420),
    (200, 420, 120, 330),
]


def header_for(x0, y0, h, topdown):
    hdr = fits.Header()
    hdr["CTYPE1"] = "RA---TAN"
    hdr["CTYPE2"] = "DEC--TAN"
    hdr["CRVAL1"] = 83.6
    hdr["CRVAL2"] = 22.0
    hdr["CDELT1"] = -SCALE
    hdr["CRPIX1"] = CRPIX[0] - x0
    crpix2 = CRPIX[1] - y0

    if topdown:
        hdr["CDELT2"] = -SCALE
        hdr["CRPIX2"] = h + 1 - crpix2
    else:
        hdr["CDELT2"] = SCALE
        hdr["CRPIX2"] = crpix2
    return hdr


def write(path, data, x0, y0, topdown):
    data = data.astype(np.float32)
    if topdown:
        data = data[::-1]
    fits.PrimaryHDU(data=data, header=header_for(x0, y0, data.shape[0], topdown)).writeto(
        path, overwrite=True
    )


def make_inputs(work, topdown):
    rng = np.random.RandomState(20240909)
    # strictly positive, so that 0 occurs in the blank frames only
    truth = (1.0 + 100 * rng.rand(H, W)).astype(np.float32)
    expected = np.full((H, W), np.nan, dtype=np.float32)
    paths = []

    for k, (x0, x1, y0, y1) in enumerate(WINDOWS):
        sub = truth[y0:y1, x0:x1].copy()
        defined = np.zeros(sub.shape, dtype=bool)
        defined[BORDER:-BORDER, BORDER:-BORDER] = True
        sub[~defined] = 0.0  # blank frame
        expected[y0:y1, x0:x1][defined] = sub[defined]

        p = os.path.join(work, "part%d.fits" % k)
        write(p, sub, x0, y0, topdown)
        paths.append(p)

    mosaic_path = os.path.join(work, "mosaic.fits")
    write(mosaic_path, expected, 0, 0, topdown)
    return paths, mosaic_path, expected


def deepest_tiles(out_dir, levels):
    res = {}
    for p in sorted(glob.glob(os.path.join(out_dir, str(levels), "*", "*.fits"))):
        with fits.open(p) as hdul:
            res[os.path.relpath(p, out_dir)] = np.array(hdul[0].data, dtype=np.float64)
    return res


DESC_FIELDS = """center_x center_y base_degrees_per_tile rotation_deg offset_x
offset_y tile_levels bottoms_up projection width_factor""".split()


def describe(bld):
    return dict((f, getattr(bld.imgset, f)) for f in DESC_FIELDS)


def compare(label, got_dir, got_bld, ref_dir, ref_bld):
    problems = []

    dg, dr = describe(got_bld), describe(ref_bld)
    if dg != dr:
        problems.append("description differs: %r vs mosaic %r" % (dg, dr))

    levels = ref_bld.imgset.tile_levels
    tg = deepest_tiles(got_dir, levels)
    tr = deepest_tiles(ref_dir, levels)

    if not tr:
        problems.append("no reference tiles found?!")
    if sorted(tg) != sorted(tr):
        problems.append("tile sets differ: %s vs mosaic %s" % (sorted(tg), sorted(tr)))

    n_tiles_bad = n_bad = n_zero_over_undefined = n_zero_over_defined = 0

    for name in sorted(set(tg) & set(tr)):
        a, b = tg[name], tr[name]
        same = (a == b) | (np.isnan(a) & np.isnan(b))
        if not same.all():
            n_tiles_bad += 1
            n_bad += int((~same).sum())
            n_zero_over_undefined += int(((a == 0) & np.isnan(b)).sum())
            n_zero_over_defined += int(((a == 0) & ~np.isnan(b)).sum())

    if n_tiles_bad:
        problems.append(
            "%d of %d deepest-level tiles differ from the mosaic tiling in %d pixels (%d "
            "blank-valued pixels where the mosaic is undefined, %d blank-valued pixels "
            "OVERWRITING defined data)"
            % (n_tiles_bad, len(tr), n_bad, n_zero_over_undefined, n_zero_over_defined)
        )

    locks = glob.glob(os.path.join(got_dir, "**", "*.lock"), recursive=True)
    if locks:
        problems.append("lock files remain: %r" % locks)

    for p in problems:
        print("FAIL [%s] %s" % (label, p))
    if not problems:
        print("ok   [%s] %d deepest-level tiles identical to mosaic tiling" % (label, len(tr)))
    return len(problems)


def main():
    n_problems = 0
    top = tempfile.mkdtemp(prefix="c09demo_")

    try:
        for topdown in (False, True):
            work = os.path.join(top, "td" if topdown else "bu")
            os.makedirs(work)
            paths, mosaic_path, _ = make_inputs(work, topdown)

            ref_dir, ref_bld = tile_fits(
                [mosaic_path],
                out_dir=os.path.join(work, "ref"),
                tiling_method=TilingMethod.TAN,
                parallel=1,
                override=True,
            )

            variants = [
                ("given order, serial", paths, 1),
                ("reversed order, serial", paths[::-1], 1),
                ("given order, 3 workers", paths, 3),
            ]

            for vi, (label, plist, par) in enumerate(variants):
                label = "%s inputs, %s, blankval=0" % ("top-down" if topdown else "bottom-up", label)
                out_dir, bld = tile_fits(
                    list(plist),
                    out_dir=os.path.join(work, "out%d" % vi),
                    tiling_method=TilingMethod.TAN,
                    blankval=0,
                    parallel=par,
                    override=True,
                )
                n_problems += compare(label, out_dir, bld, ref_dir, ref_bld)

            # Control: a non-zero blank value going through the very same path.
            cpaths = []
            for p in paths:
                with fits.open(p) as hdul:
                    d = np.array(hdul[0].data)
                    hdr = hdul[0].header.copy()
                d[d == 0] = -999.0
                cp = p.replace("part", "ctl")
                fits.PrimaryHDU(data=d, header=hdr).writeto(cp, overwrite=True)
                cpaths.append(cp)

            out_dir, bld = tile_fits(
                cpaths,
                out_dir=os.path.join(work, "outctl"),
                tiling_method=TilingMethod.TAN,
                blankval=-999,
                parallel=1,
                override=True,
            )
            n_problems += compare(
                "%s inputs, control blankval=-999" % ("top-down" if topdown else "bottom-up"),
                out_dir,
                bld,
                ref_dir,
                ref_bld,
            )
    finally:
        shutil.rmtree(top, ignore_errors=True)

    if n_problems:
        print("C09 VIOLATED: %d problem(s)" % n_problems)
        return 1

    print("C09 holds on this tree")
    return 0


if __name__ == "__main__":
    sys.exit(main())
