import os, sys; sys.path.insert(0, os.getcwd())

"""
C09 demo 1: tiling sub-images whose padding is marked with ``blankval=0``.

Two overlapping sub-images of one mosaic share a TAN grid. The second one is
padded with zeros (a very common "no data" marker), partly on top of real data
of the first one, partly where nobody has data. The user says so with
``tile_fits(..., blankval=0)``. The deepest-level tiles and the astrometric
description must then equal the ones obtained by tiling the assembled mosaic
(undefined pixels never overwrite defined ones, and stay undefined if nobody
defines them), whatever the order of the inputs.

Run as:  cd <worktree> && /venv/bin/python /tmp/seed_C09_out/demo1.py
"""

import shutil
import tempfile
import warnings

import numpy as np
from astropy.io import fits

warnings.simplefilter("ignore")

import toasty
from toasty import TilingMethod, tile_fits

W, H = 600, 400  # mosaic size
CRPIX1, CRPIX2 = 300.5, 200.5  # of the mosaic (1-based FITS convention)


def header(crpix1, crpix2):
    h = fits.Header()
    h["CTYPE1"] = "RA---TAN"
    h["CTYPE2"] = "DEC--TAN"
    h["CRVAL1"] = 10.0
    h["CRVAL2"] = 20.0
    h["CDELT1"] = -0.001
    h["CDELT2"] = 0.001
    h["CRPIX1"] = crpix1
    h["CRPIX2"] = crpix2
    return h


def write(path, data, x0, y0):
    """Write the sub-image whose pixel (0, 0) is pixel (x0, y0) of the mosaic."""
    fits.writeto(path, data, header(CRPIX1 - x0, CRPIX2 - y0), overwrite=True)


def deepest_tiles(out_dir, levels):
    """Map relative path -> data array for the deepest level; also *.lock list."""
    tiles = {}
    locks = []
    for root, _dirs, files in os.walk(out_dir):
        for f in files:
            full = os.path.join(root, f)
            rel = os.path.relpath(full, out_dir)
            if f.endswith(".lock"):
                locks.append(rel)
            elif f.endswith(".fits") and rel.split(os.sep)[0] == str(levels):
                with fits.open(full) as hdul:
                    tiles[rel] = np.array(hdul[0].data)
    return tiles, locks


ASTROMETRY = [
    "tile_levels",
    "projection",
    "center_x",
    "center_y",
    "rotation_deg",
    "offset_x",
    "offset_y",
    "base_degrees_per_tile",
    "bottoms_up",
]


def main():
    print("toasty imported from", os.path.dirname(toasty.__file__))
    work = tempfile.mkdtemp(prefix="c09demo1_")
    problems = []

    try:
        rng = np.random.default_rng(909)
        full = rng.uniform(1.0, 2.0, size=(H, W)).astype(np.float32)  # no zeros

        # Sub-image A: columns 0..349, all real data.
        a = full[:, 0:350].copy()

        # Sub-image B: columns 250..599. Its first 60 columns (mosaic columns
        # 250..309, which A covers with real data) are zero padding, and so are
        # its last 30 rows to the right of A (where nobody has data).
        b = full[:, 250:600].copy()
        b[:, 0:60] = 0.0
        b[H - 30 :, 100:] = 0.0

        # What the mosaic looks like once the padding is understood as "no data".
        expected = full.copy()
        expected[H - 30 :, 350:] = np.nan

        pa = os.path.join(work, "a.fits")
        pb = os.path.join(work, "b.fits")
        pm = os.path.join(work, "mosaic.fits")
        write(pa, a, 0, 0)
        write(pb, b, 250, 0)
        write(pm, expected, 0, 0)

        ref_dir, ref_bld = tile_fits(
            [pm],
            out_dir=os.path.join(work, "ref"),
            tiling_method=TilingMethod.TAN,
            parallel=1,
            override=True,
        )
        ref_levels = ref_bld.imgset.tile_levels
        ref_tiles, _ = deepest_tiles(ref_dir, ref_levels)
        assert ref_levels == 2 and len(ref_tiles) > 0, (ref_levels, sorted(ref_tiles))

        for label, paths in (("A,B", [pa, pb]), ("B,A", [pb, pa])):
            out_dir, bld = tile_fits(
                paths,
                out_dir=os.path.join(work, "out_" + label.replace(",", "")),
                tiling_method=TilingMethod.TAN,
                blankval=0,
                parallel=1,
                override=True,
            )

            for attr in ASTROMETRY:
                got = getattr(bld.imgset, attr)
                want = getattr(ref_bld.imgset, attr)
                same = got == want or (
                    isinstance(want, float) and abs(got - want) <= 1e-9 * max(1, abs(want))
                )
                if not same:
                    problems.append(
                        f"[order {label}] imageset {attr}: {got!r}, mosaic gives {want!r}"
                    )

            tiles, locks = deepest_tiles(out_dir, bld.imgset.tile_levels)

            if locks:
                problems.append(f"[order {label}] lock files left behind: {locks}")

            if sorted(tiles) != sorted(ref_tiles):
                problems.append(
                    f"[order {label}] deepest-level tile set {sorted(tiles)} differs "
                    f"from the mosaic's {sorted(ref_tiles)}"
                )

            for rel in sorted(set(tiles) & set(ref_tiles)):
                got = tiles[rel]
                want = ref_tiles[rel]
                if got.shape != want.shape:
                    problems.append(f"[order {label}] {rel}: shape {got.shape} vs {want.shape}")
                    continue
                bad = ~((got == want) | (np.isnan(got) & np.isnan(want)))
                if bad.any():
                    n_zero = int((bad & (got == 0)).sum())
                    n_lost = int((bad & (got == 0) & np.isfinite(want)).sum())
                    problems.append(
                        f"[order {label}] {rel}: {int(bad.sum())} pixels differ from the "
                        f"mosaic's tile; {n_zero} of them hold the blank value 0 "
                        f"({n_lost} of those replaced real data of another input, "
                        f"{n_zero - n_lost} should be undefined)"
                    )
    finally:
        shutil.rmtree(work, ignore_errors=True)

    if problems:
        print("C09 VIOLATED: tiling the pieces with blankval=0 != tiling the mosaic")
        for p in problems:
            print("  -", p)
        return 1

    print("OK: pieces tiled with blankval=0 match the assembled mosaic, both orders")
    return 0


if __name__ == "__main__":
    sys.exit(main())
