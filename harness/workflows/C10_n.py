import os, sys; sys.path.insert(0, os.getcwd())

"""
C10 demo: three workers of MultiWcsProcessor.tile(parallel=3) update ONE shared
tile through PyramidIO.update_image().  Every input image paints its own block
of that tile with its own constant (1, 2, 3); afterwards the tile must contain
all three values.

The interleaving is forced (nothing is left to chance):

  * every `mp.Process` that is started gets a serial number (`_demo_idx`), so a
    worker knows whether it is the 1st, 2nd or 3rd one that tile() created;
  * a Barrier inside the reproject function makes sure that each of the three
    workers holds exactly one of the three images;
  * worker #3 ("L") does its update first and alone, then idles until the
    worker loop lets it exit (that takes one or two 10 s queue time-outs);
  * worker #1 ("F") then enters update_image(), and *stays inside* the
    read-modify-write (it has read the tile and has not written it yet);
  * worker #2 ("S") asks for the same tile while F is inside.

On a correct tree S can only get in after F has written and released, so the
tile ends up with 1, 2 and 3.  F gives up waiting for S a few seconds after
worker L has exited (or after 60 s), so the clean run needs about 15-30 s.

If S gets into the read-modify-write while F is still inside, S has read a tile
without F's block; F writes, S writes afterwards, F's contribution is gone.
"""

import multiprocessing as mp
import multiprocessing.process
import shutil
import tempfile
import time
import warnings

import numpy as np

warnings.simplefilter("ignore")

import toasty
from toasty import builder, collection, multi_wcs, pyramid
from toasty.image import Image

assert os.path.dirname(os.path.dirname(os.path.abspath(toasty.__file__))) == os.getcwd(), (
    "not testing the worktree: " + toasty.__file__
)

N = 3  # workers == images
SIDE = 48  # pixels per image side

work = tempfile.mkdtemp(prefix="c10demo_")
outdir = os.path.join(work, "tiles")
tile_path = os.path.join(outdir, "0", "0", "0_0.fits")
lock_path = tile_path + ".lock"

# ---------------------------------------------------------------------------
# Inputs: three images on one TAN grid, side by side, filled with 1, 2, 3.


def make_inputs():
    from astropy.io import fits
    from astropy.wcs import WCS

    paths = []

    for k in range(N):
        w = WCS(naxis=2)
        w.wcs.ctype = ["RA---TAN", "DEC--TAN"]
        w.wcs.crval = [10.0, 20.0]
        w.wcs.cdelt = [-0.001, 0.001]
        w.wcs.crpix = [SIDE * 1.5 + 0.5 - SIDE * k, SIDE / 2 + 0.5]
        hdu = fits.PrimaryHDU(
            np.full((SIDE, SIDE), float(k + 1), dtype=np.float32), header=w.to_header()
        )
        p = os.path.join(work, "in%d.fits" % k)
        hdu.writeto(p)
        paths.append(p)

    return paths


# ---------------------------------------------------------------------------
# Choreography state, inherited by the forked workers.

n_started = 0
_orig_start = multiprocessing.process.BaseProcess.start


def counting_start(self):
    global n_started
    n_started += 1
    self._demo_idx = n_started
    return _orig_start(self)


multiprocessing.process.BaseProcess.start = counting_start

barrier = mp.Barrier(N)
f_in_cs = mp.Event()  # F has read the tile and is inside the read-modify-write
f_leaving = mp.Event()  # F is about to write and release
s_in_cs = mp.Event()  # S is inside the read-modify-write
overlap = mp.Value("i", 0)  # S got in while F was still inside
l_pid = mp.Value("i", 0)
trouble = mp.Value("i", 0)  # the choreography itself failed


def my_idx():
    return getattr(mp.current_process(), "_demo_idx", 0)


def pid_gone(pid):
    """True when the process has exited (a zombie counts as exited)."""
    try:
        with open("/proc/%d/stat" % pid) as f:
            state = f.read().rsplit(")", 1)[1].split()[0]
        return state in ("Z", "X")
    except FileNotFoundError:
        return True
    except Exception:
        return False


def fake_reproject(
    input_data, output_projection=None, shape_out=None, return_footprint=False, **kw
):
    """Stands in for reproject_interp: the image's block, filled with its constant."""
    array, _wcs = input_data
    idx = my_idx()

    try:
        barrier.wait(120)  # each worker now holds exactly one image
    except Exception:
        trouble.value = 1

    if idx == 3:  # L goes first, alone
        l_pid.value = os.getpid()
    elif idx == 1:  # F: after L's update is on disk and L's lock is gone
        t0 = time.time()
        while not (os.path.exists(tile_path) and not os.path.exists(lock_path)):
            if time.time() - t0 > 120:
                trouble.value = 2
                break
            time.sleep(0.02)
    elif idx == 2:  # S: once F is inside the read-modify-write
        if not f_in_cs.wait(120):
            trouble.value = 3

    return np.full(shape_out, float(np.asarray(array).flat[0]), dtype=np.float32)


_orig_update = Image.update_into_maskable_buffer


def choreographed_update(self, buffer, *args):
    """The "modify" step, which runs between update_image()'s read and write."""
    _orig_update(self, buffer, *args)
    idx = my_idx()

    if idx == 1:
        f_in_cs.set()
        # Stay inside until S shows up in here too (impossible while the lock
        # is respected). Give up 5 s after worker L has exited, or after 60 s.
        t0 = time.time()
        l_gone_at = None
        while not s_in_cs.wait(0.1):
            now = time.time()
            if l_gone_at is None and l_pid.value and pid_gone(l_pid.value):
                l_gone_at = now
            if l_gone_at is not None and now - l_gone_at > 5:
                break
            if now - t0 > 60:
                break
        f_leaving.set()
    elif idx == 2:
        if not f_leaving.is_set():
            overlap.value = 1
        s_in_cs.set()
        f_leaving.wait(120)
        time.sleep(1.5)  # let F write and release first


Image.update_into_maskable_buffer = choreographed_update

# ---------------------------------------------------------------------------


def main():
    paths = make_inputs()
    pio = pyramid.PyramidIO(outdir, default_format="fits")
    bld = builder.Builder(pio)
    coll = collection.SimpleFitsCollection(paths, hdu_index=0)
    proc = multi_wcs.MultiWcsProcessor(coll)
    proc.compute_global_pixelization(bld)

    if proc._tiling._tile_levels != 0:
        print("demo setup problem: expected a one-tile mosaic")
        return 3

    t0 = time.time()
    proc.tile(pio, fake_reproject, parallel=N, cli_progress=False)
    t_tile = time.time() - t0

    # tile() is documented to be complete when it returns; be generous anyway
    # and let every process that it started run to its end before looking.
    still_running = [c for c in mp.active_children() if c.is_alive()]
    for c in mp.active_children():
        c.join(180)

    print("tile() returned after %.1f s; workers still alive at that time: %d" % (t_tile, len(still_running)))

    if trouble.value:
        print("demo choreography failed (code %d); no verdict" % trouble.value)
        return 3

    img = pio.read_image(pyramid.Pos(0, 0, 0))
    if img is None:
        print("FAIL: the tile does not exist at all")
        return 1

    data = img.asarray()
    counts = {k + 1: int(np.sum(data == float(k + 1))) for k in range(N)}
    print("pixels per contribution in the final tile:", counts)
    print("a second updater was inside the read-modify-write together with the first:", bool(overlap.value))

    missing = [v for v, n in counts.items() if n < SIDE * SIDE // 2]

    if missing:
        print(
            "FAIL: lost update -- the contribution(s) %s of concurrent update_image() calls "
            "are missing from the final tile" % missing
        )
        return 1

    if overlap.value:
        print("FAIL: two updaters held the same tile's update lock at the same time")
        return 1

    print("OK: the tile contains every contribution")
    return 0


if __name__ == "__main__":
    try:
        rc = main()
    finally:
        shutil.rmtree(work, ignore_errors=True)
    sys.exit(rc)
