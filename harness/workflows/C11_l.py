import os, sys; sys.path.insert(0, os.getcwd())

# C11 demo 1: `toasty tile-allsky --projection plate-carree-galactic` must fill
# every tile pixel with the map pixel that contains the *Galactic* position of
# that tile pixel. The expected values are computed here from scratch with astropy
# and the documented map layout; toasty is only used to tell us where the TOAST
# tile pixels are on the sky.

import shutil
import tempfile

import numpy as np
from PIL import Image as PILImage

import astropy.units as u
from astropy.coordinates import ICRS, Galactic

import toasty
from toasty import cli
from toasty.toast import generate_tiles, toast_tile_get_coords

print("testing toasty from", os.path.dirname(toasty.__file__))

NX, NY = 90, 45  # odd height on purpose; 4 degree pixels
DEPTH = 1
EDGE_TOL = 1e-3  # in units of map pixels: skip points this close to a cell edge


def expected_indices(lon, lat, frame):
    """Map indices for ICRS positions of a sky map (lon increasing to the left,
    0 at the centre, lat=+90 at the top) drawn in the given frame."""
    if frame == "icrs":
        l, b = lon, lat
    elif frame == "galactic":
        c = ICRS(lon * u.rad, lat * u.rad).transform_to(Galactic())
        l, b = c.l.rad, c.b.rad
    else:
        raise ValueError(frame)

    l = (l + np.pi) % (2 * np.pi) - np.pi  # [-pi, pi)
    fx = (np.pi - l) / (2 * np.pi) * NX  # fractional column; l=+pi at the left edge
    fx = fx % NX  # l=-pi is the same meridian as l=+pi
    fy = (0.5 * np.pi - b) / np.pi * NY
    ix = np.clip(np.floor(fx).astype(int), 0, NX - 1)
    iy = np.clip(np.floor(fy).astype(int), 0, NY - 1)
    near_edge = (np.abs(fx - np.round(fx)) < EDGE_TOL) | (
        np.abs(fy - np.round(fy)) < EDGE_TOL
    )
    return iy, ix, near_edge


def run(projection, frame, workdir, map_arr, map_path):
    outdir = os.path.join(workdir, projection)
    cli.entrypoint(
        [
            "tile-allsky",
            "--projection",
            projection,
            "--placeholder-thumbnail",
            "--parallelism",
            "1",
            "--outdir",
            outdir,
            map_path,
            str(DEPTH),
        ]
    )

    n_bad = 0
    n_checked = 0
    first = None

    for tile in generate_tiles(DEPTH, bottom_only=True):
        p = os.path.join(
            outdir, str(tile.pos.n), str(tile.pos.y), f"{tile.pos.y}_{tile.pos.x}.png"
        )
        got = np.asarray(PILImage.open(p))[..., :3]
        assert got.shape == (256, 256, 3), got.shape

        lon, lat = toast_tile_get_coords(tile)
        iy, ix, near_edge = expected_indices(lon, lat, frame)
        want = map_arr[iy, ix]

        bad = np.any(got != want, axis=2) & ~near_edge
        n_bad += int(bad.sum())
        n_checked += int((~near_edge).sum())

        if first is None and bad.any():
            y, x = np.argwhere(bad)[0]
            first = (
                f"tile {tile.pos} pixel (y={y}, x={x}) at ICRS lon={lon[y, x]:.6f} "
                f"lat={lat[y, x]:.6f}: got {got[y, x].tolist()}, the map pixel "
                f"[{iy[y, x]}, {ix[y, x]}] containing that point is {want[y, x].tolist()}"
            )

    print(f"{projection}: {n_bad} of {n_checked} tile pixels are wrong")
    if first:
        print("   first:", first)
    return n_bad


def main():
    rng = np.random.default_rng(20221111)
    map_arr = rng.integers(1, 256, size=(NY, NX, 3), dtype=np.uint8)
    workdir = tempfile.mkdtemp(prefix="c11demo1_")

    try:
        map_path = os.path.join(workdir, "map.png")
        PILImage.fromarray(map_arr).save(map_path)

        total = 0
        total += run("plate-carree", "icrs", workdir, map_arr, map_path)
        total += run("plate-carree-galactic", "galactic", workdir, map_arr, map_path)
    finally:
        shutil.rmtree(workdir, ignore_errors=True)

    if total:
        print("FAIL: tile-allsky did not sample the map pixel containing each sky point")
        return 1

    print("OK")
    return 0


if __name__ == "__main__":
    sys.exit(main())
