import os, sys; sys.path.insert(0, os.getcwd())

"""
C09 demo: `toasty view --tile-only --tiling-method tan --blankval=N a.fits b.fits`

Two overlapping sub-images on one TAN grid, whose undefined borders are marked
with an integer blank value (-999, the usual convention for padded survey
cut-outs), are tiled through the command line. The deepest-level tiles and the
WTML description must equal those obtained by tiling the assembled mosaic (in
which the undefined pixels are NaN), whatever the input order and worker count.
"""

import glob
import shutil
import tempfile
import warnings

import numpy as np
from astropy.io import fits
from astropy.wcs import WCS

import toasty
from toasty import cli
from wwt_data_formats.folder import Folder

BLANK = -999
H, W = 420, 700
CRPIX1, CRPIX2 = 350.5, 210.5  # of the assembled mosaic (1-based FITS)


def header_for(x0, y0):
    w = WCS(naxis=2)
    w.wcs.ctype = ["RA---TAN", "DEC--TAN"]
    w.wcs.crval = [10.0, 20.0]
    w.wcs.cdelt = [-0.001, 0.001]
    w.wcs.crpix = [CRPIX1 - x0, CRPIX2 - y0]
    return w.to_header()


def write(path, data, x0, y0):
    fits.PrimaryHDU(data=data.astype(np.float32), header=header_for(x0, y0)).writeto(
        path
    )


def make_inputs(d):
    """Returns the paths (mosaic, a, b)."""
    rng = np.random.RandomState(9)
    truth = (1.0 + rng.rand(H, W) * 100).astype(np.float32)

    # A corner that no input defines
    undefined = np.zeros((H, W), dtype=bool)
    undefined[:40, :60] = True

    mosaic = truth.copy()
    mosaic[undefined] = np.nan

    # a covers columns 0..399, b covers 300..699; in the overlap each mosaic
    # pixel is defined by exactly one of the two, the other has a blank border.
    a = truth[:, 0:400].copy()
    a[undefined[:, 0:400]] = BLANK
    a[:, 350:400] = BLANK
    b = truth[:, 300:700].copy()
    b[:, 0:50] = BLANK

    pm = os.path.join(d, "mosaic.fits")
    pa = os.path.join(d, "a.fits")
    pb = os.path.join(d, "b.fits")
    write(pm, mosaic, 0, 0)
    write(pa, a, 0, 0)
    write(pb, b, 300, 0)
    return pm, pa, pb


def run_view(args):
    with warnings.catch_warnings():
        warnings.simplefilter("ignore")
        cli.entrypoint(["view", "--tile-only", "--tiling-method", "tan"] + args)


def deepest_tiles(out_dir):
    imgset = Folder.from_file(
        os.path.join(out_dir, "index_rel.wtml")
    ).children[0].foreground_image_set
    lev = imgset.tile_levels
    tiles = {}
    for p in sorted(glob.glob(os.path.join(out_dir, str(lev), "*", "*.fits"))):
        with fits.open(p) as hdul:
            tiles[os.path.relpath(p, out_dir)] = np.array(hdul[0].data, dtype=np.float64)
    return imgset, tiles


ASTROMETRY = """center_x center_y rotation_deg offset_x offset_y base_degrees_per_tile
tile_levels width_factor bottoms_up projection file_type url""".split()


def compare(label, out_dir, ref_dir):
    problems = []
    imgset, tiles = deepest_tiles(out_dir)
    rimgset, rtiles = deepest_tiles(ref_dir)

    for attr in ASTROMETRY:
        if getattr(imgset, attr) != getattr(rimgset, attr):
            problems.append(
                f"{label}: WTML {attr} = {getattr(imgset, attr)!r}, mosaic has {getattr(rimgset, attr)!r}"
            )

    if sorted(tiles) != sorted(rtiles):
        problems.append(
            f"{label}: tile files differ: {sorted(tiles)} vs mosaic {sorted(rtiles)}"
        )

    for name in sorted(set(tiles) & set(rtiles)):
        t, r = tiles[name], rtiles[name]
        if t.shape != r.shape:
            problems.append(f"{label}: tile {name} shape {t.shape} vs {r.shape}")
            continue
        bad = ~((t == r) | (np.isnan(t) & np.isnan(r)))
        if bad.any():
            nblank = int((t[bad] == BLANK).sum())
            problems.append(
                f"{label}: tile {name}: {int(bad.sum())} pixels differ from the mosaic's tile "
                f"({nblank} of them hold the blank value {BLANK} instead of data or NaN)"
            )

    locks = glob.glob(os.path.join(out_dir, "**", "*.lock"), recursive=True)
    if locks:
        problems.append(f"{label}: lock files left: {locks}")

    return problems


def main():
    top = tempfile.mkdtemp(prefix="c09demo")
    problems = []

    try:
        refd = os.path.join(top, "ref")
        os.mkdir(refd)
        pm, _, _ = make_inputs(refd)
        run_view(["-j", "1", pm])
        ref_dir = os.path.join(refd, "mosaic_tiled")

        for label, order, par in [
            ("a,b serial", "ab", 1),
            ("b,a serial", "ba", 1),
            ("a,b 2 workers", "ab", 2),
        ]:
            d = os.path.join(top, label.replace(" ", "_").replace(",", ""))
            os.mkdir(d)
            _, pa, pb = make_inputs(d)
            paths = [pa, pb] if order == "ab" else [pb, pa]
            run_view(["-j", str(par), f"--blankval={BLANK}"] + paths)
            out_dir = paths[0][: -len(".fits")] + "_tiled"
            problems += compare(label, out_dir, ref_dir)
    finally:
        shutil.rmtree(top, ignore_errors=True)

    if problems:
        print("C09 VIOLATED: tiling the parts differs from tiling the mosaic")
        for p in problems:
            print("  -", p)
        return 1

    print("OK: parts with integer blank borders tile identically to the assembled mosaic")
    return 0


if __name__ == "__main__":
    sys.exit(main())
