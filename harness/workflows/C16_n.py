import os, sys; sys.path.insert(0, os.getcwd())

"""
C16 demo: parity flips of the items of a FITS collection.

A FITS "cube" with one degenerate third axis (RA, DEC, FREQ; NAXIS3 = 1 -- the
usual layout of radio maps) is loaded through `toasty.collection.load()`.  The
collection hands out the same picture twice: as a full `Image` (`images()`) and
as a data-less `ImageDescription` (`descriptions()`), which is what the tiling
set-up code (`MultiTanProcessor.compute_global_pixelization`,
`ImageCollection._is_multi_tan`) flips.  For both we check the C16 statement:

  * parity sign +1 before, -1 after `ensure_negative_parity()`, idempotent;
  * the sky position of pixel (x, y) before equals that of (x, H-1-y) after,
    where H is the number of rows of the picture;
  * (image only) rows are reversed;
  * description and image end up with the same WCS.

Finally `toasty tile-multi-tan` is run on the file and the centre written to
index_rel.wtml is compared with the true sky position of the picture's centre.

Exit status 0 if everything holds, 1 otherwise.
"""

import shutil
import tempfile
import warnings

import numpy as np

warnings.simplefilter("ignore")

from astropy.io import fits
from astropy.wcs import WCS

import toasty
from toasty import collection

print("testing toasty from", os.path.dirname(toasty.__file__))

NX, NY = 40, 24
problems = []


def note(msg):
    print("PROBLEM:", msg)
    problems.append(msg)


def make_cube(path):
    data = (np.arange(NY, dtype=np.float32)[:, None] * 100 + np.arange(NX, dtype=np.float32)[None, :]) + 1
    data = data.reshape((1, NY, NX))

    theta = np.deg2rad(30.0)
    scale = 2.0e-4
    h = fits.Header()
    h["CTYPE1"] = "RA---TAN"
    h["CTYPE2"] = "DEC--TAN"
    h["CTYPE3"] = "FREQ"
    h["CRVAL1"] = 83.6
    h["CRVAL2"] = 22.0
    h["CRVAL3"] = 1.4e9
    h["CRPIX1"] = 13.5
    h["CRPIX2"] = 30.25  # above the top row: reference pixel outside the image
    h["CRPIX3"] = 1.0
    h["CDELT1"] = -scale  # FITS-like: positive parity
    h["CDELT2"] = scale
    h["CDELT3"] = 1.0e6
    h["CUNIT3"] = "Hz"
    h["PC1_1"] = np.cos(theta)
    h["PC1_2"] = -np.sin(theta)
    h["PC2_1"] = np.sin(theta)
    h["PC2_2"] = np.cos(theta)
    fits.PrimaryHDU(data=data, header=h).writeto(path, overwrite=True)


def check_item(label, item, height, width, is_image):
    """Check the C16 statement for one collection item."""
    xs, ys = np.meshgrid(np.arange(width, dtype=float), np.arange(height, dtype=float))
    before = np.array(item.wcs.pixel_to_world_values(xs, ys))
    rows_before = item.asarray().copy() if is_image else None

    if item.get_parity_sign() != 1:
        note(f"{label}: expected parity +1 before the flip, got {item.get_parity_sign()}")

    item.ensure_negative_parity()

    if item.get_parity_sign() != -1:
        note(f"{label}: parity after ensure_negative_parity() is {item.get_parity_sign()}, not -1")

    after = np.array(item.wcs.pixel_to_world_values(xs, (height - 1) - ys))
    err_deg = np.abs(after - before).max()
    pix_deg = 2.0e-4
    print(f"{label}: max sky displacement of a pixel by the flip = {err_deg:.3e} deg "
          f"(= {err_deg / pix_deg:.3f} pixels)")
    if not err_deg < 1e-9:
        note(f"{label}: the flip moved pixels on the sky by up to {err_deg / pix_deg:.2f} pixels "
             f"(item reports shape {tuple(item.shape)}, the picture has {height} rows)")

    if is_image:
        if not np.array_equal(item.asarray(), rows_before[::-1]):
            note(f"{label}: rows were not reversed by the flip")

    # idempotence
    hdr1 = item.wcs.to_header().tostring()
    item.ensure_negative_parity()
    if item.get_parity_sign() != -1 or item.wcs.to_header().tostring() != hdr1:
        note(f"{label}: ensure_negative_parity() is not idempotent")


def main():
    work = tempfile.mkdtemp(prefix="c16demo_")
    try:
        path = os.path.join(work, "cube.fits")
        make_cube(path)

        coll = collection.load(path)
        img = list(coll.images())[0]
        desc = list(coll.descriptions())[0]

        height, width = img.asarray().shape
        if (height, width) != (NY, NX):
            note(f"image loaded with shape {(height, width)}, expected {(NY, NX)}")
        print("image shape:", img.shape, " description shape:", tuple(desc.shape))

        true_center = WCS(fits.getheader(path)).celestial.pixel_to_world_values(
            (NX - 1) / 2, (NY - 1) / 2
        )

        check_item("Image", img, NY, NX, True)
        check_item("ImageDescription", desc, NY, NX, False)

        # Both views of the same picture must agree after the flip.
        hi = img.wcs.to_header()
        hd = desc.wcs.to_header()
        for key in ("CRPIX1", "CRPIX2", "PC1_1", "PC1_2", "PC2_1", "PC2_2", "CDELT1", "CDELT2"):
            vi, vd = hi.get(key), hd.get(key)
            if (vi is None) != (vd is None) or (vi is not None and abs(vi - vd) > 1e-12):
                note(f"after the flip the image has {key}={vi} but its description has {key}={vd}")

        # The workflow that consumes the descriptions.
        from toasty import cli
        from wwt_data_formats.folder import Folder

        outdir = os.path.join(work, "tiles")
        try:
            cli.entrypoint(["tile-multi-tan", "--outdir", outdir, path])
            place = Folder.from_file(os.path.join(outdir, "index_rel.wtml")).children[0]
            ra = place.ra_hr * 15.0
            dec = place.dec_deg
            d_ra = (ra - true_center[0]) * np.cos(np.deg2rad(dec))
            d_dec = dec - true_center[1]
            off_pix = np.hypot(d_ra, d_dec) / 2.0e-4
            print(f"tile-multi-tan: WTML centre is {off_pix:.3f} pixels from the true image centre")
            if not off_pix < 0.01:
                note(f"tile-multi-tan put the image centre {off_pix:.2f} pixels away from its true sky position")
        except SystemExit as e:
            if e.code not in (0, None):
                note(f"tile-multi-tan exited with status {e.code}")
        except Exception as e:
            note(f"tile-multi-tan failed on the cube: {type(e).__name__}: {e}")
    finally:
        shutil.rmtree(work, ignore_errors=True)

    if problems:
        print(f"FAIL: {len(problems)} problem(s)")
        return 1

    print("OK: parity flips of collection items keep every pixel in place")
    return 0


if __name__ == "__main__":
    sys.exit(main())
