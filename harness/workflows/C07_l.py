import os, sys; sys.path.insert(0, os.getcwd())

"""
Demo 1 (property C07): tiling a chunked planetary map chunk-by-chunk through
`Builder.toast_base(..., is_planet=True, tile_filter=...)` must give exactly
the pixels that tiling the whole map in one go (no filter) gives.

Exits 0 when every pixel of every leaf tile agrees; exits 1 otherwise.
"""

import shutil
import tempfile

import numpy as np

import toasty
from toasty.builder import Builder
from toasty.pyramid import Pos, PyramidIO
from toasty.samplers import ChunkedPlateCarreeSampler, plate_carree_planet_sampler

print("toasty under test:", os.path.dirname(toasty.__file__))

DEPTH = 2
H, W = 95, 190  # whole-planet plate carree map; sizes chosen so that no TOAST pixel
# centre sits exactly on a boundary between two map pixels (no rounding ties)
CH, CW = 40, 80  # chunk size; does not divide the map evenly on purpose


class ChunkedArray(object):
    """An in-memory stand-in for a chunked (tiled) image file: the same
    interface as toasty.jpeg2000.ChunkedJPEG2000Reader."""

    def __init__(self, data, chunk_h, chunk_w):
        self._data = data
        self._ch = chunk_h
        self._cw = chunk_w
        self._nrow = (data.shape[0] + chunk_h - 1) // chunk_h
        self._ncol = (data.shape[1] + chunk_w - 1) // chunk_w

    @property
    def shape(self):
        return self._data.shape

    @property
    def n_chunks(self):
        return self._nrow * self._ncol

    def chunk_spec(self, ichunk):
        irow, icol = divmod(ichunk, self._ncol)
        x0 = icol * self._cw
        y0 = irow * self._ch
        x1 = min(x0 + self._cw, self._data.shape[1])
        y1 = min(y0 + self._ch, self._data.shape[0])
        return x0, y0, x1 - x0, y1 - y0

    def chunk_data(self, ichunk):
        x0, y0, w, h = self.chunk_spec(ichunk)
        return self._data[y0 : y0 + h, x0 : x0 + w]


def main():
    # Every pixel of the map has its own value, all finite and nonzero, so any
    # misplaced or missing pixel shows.
    data = (1.0 + np.arange(H * W, dtype=np.float32)).reshape((H, W))

    work = tempfile.mkdtemp(prefix="c07demo1_")
    try:
        # (a) reference: the whole map, no filter.
        pio_whole = PyramidIO(os.path.join(work, "whole"), default_format="fits")
        Builder(pio_whole).toast_base(
            plate_carree_planet_sampler(data),
            DEPTH,
            is_planet=True,
            parallel=1,
        )

        # (b) chunk after chunk, each restricted by the chunk's tile filter.
        pio_chunked = PyramidIO(os.path.join(work, "chunked"), default_format="fits")
        bld = Builder(pio_chunked)
        chunker = ChunkedPlateCarreeSampler(ChunkedArray(data, CH, CW), planetary=True)

        for ichunk in range(chunker.n_chunks):
            bld.toast_base(
                chunker.sampler(ichunk),
                DEPTH,
                is_planet=True,
                tile_filter=chunker.filter(ichunk),
                parallel=1,
            )

        # Compare all leaf tiles.
        n_bad_tiles = 0
        n_bad_pix = 0
        n_holes = 0
        first = None

        for y in range(2**DEPTH):
            for x in range(2**DEPTH):
                pos = Pos(DEPTH, x, y)
                ref = pio_whole.read_image(pos, format="fits")
                got = pio_chunked.read_image(pos, format="fits")

                if ref is None:
                    print("unexpected: reference tile missing at", pos)
                    return 1

                ref = ref.asarray()

                if got is None:
                    got = np.full(ref.shape, np.nan, dtype=ref.dtype)
                else:
                    got = got.asarray()

                holes = np.isnan(got) & ~np.isnan(ref)
                differ = ~holes & (got != ref) & ~(np.isnan(got) & np.isnan(ref))

                if holes.any() or differ.any():
                    n_bad_tiles += 1
                    n_holes += int(holes.sum())
                    n_bad_pix += int(differ.sum())
                    if first is None:
                        first = (pos, int(holes.sum()), int(differ.sum()))

        if n_bad_tiles:
            print(
                f"FAIL: chunk-by-chunk filtered tiling differs from whole-map tiling "
                f"in {n_bad_tiles} of {4**DEPTH} level-{DEPTH} tiles: "
                f"{n_holes} pixels left empty, {n_bad_pix} pixels with a different value"
            )
            print(
                f"first bad tile: {first[0]} ({first[1]} empty, {first[2]} different)"
            )
            return 1

        print(
            f"OK: all {4**DEPTH} level-{DEPTH} tiles agree pixel-for-pixel "
            f"between filtered chunk-by-chunk tiling and whole-map tiling"
        )
        return 0
    finally:
        shutil.rmtree(work, ignore_errors=True)


if __name__ == "__main__":
    sys.exit(main())
