import os, sys; sys.path.insert(0, os.getcwd())

# C17 demo 2: the "study" workflow driven from the command line with AVM
# positioning (`toasty tile-study --avm` / `--avm-from`) on an image whose AVM
# block carries the usual descriptive tags (Title, Credit, ReferenceURL, ...).
# Expanding the Url template recorded in index_rel.wtml for every tile position
# must give the relative path of the tile file on disk, FileType must be the
# tiles' extension and TileLevels the deepest populated layer.
#
# Run as: cd /tmp/seed_C17 && /venv/bin/python /tmp/seed_C17_out/demo2.py

import re
import shutil
import tempfile
import warnings
from xml.etree import ElementTree as etree

import numpy as np
from PIL import Image as PilImage

import toasty
from toasty import cli

print("testing toasty from", os.path.dirname(toasty.__file__))

W, H = 700, 300  # -> 3x2 populated tiles at level 2


def make_images(work):
    from pyavm import AVM

    rng = np.random.RandomState(0)
    arr = (rng.rand(H, W, 3) * 255).astype(np.uint8)
    plain = os.path.join(work, "plain.jpg")
    PilImage.fromarray(arr).save(plain)

    avm = AVM()
    avm.Title = "C17 demo image"
    avm.Description = "A synthetic image with AVM tags"
    avm.Credit = "Nobody"
    avm.ReferenceURL = "https://example.org/images/c17demo/"
    avm.Spatial.CoordinateFrame = "ICRS"
    avm.Spatial.Equinox = "J2000"
    avm.Spatial.ReferenceValue = [83.6, 22.0]
    avm.Spatial.ReferenceDimension = [W, H]
    avm.Spatial.ReferencePixel = [W / 2, H / 2]
    avm.Spatial.Scale = [-0.001, 0.001]
    avm.Spatial.Rotation = 0.0
    avm.Spatial.CoordsystemProjection = "TAN"
    avm.Spatial.Quality = "Full"

    tagged = os.path.join(work, "tagged.jpg")
    with warnings.catch_warnings():
        warnings.simplefilter("ignore")
        avm.embed(plain, tagged)
    return plain, tagged


def expand(url, level, x, y):
    return url.replace("{1}", str(level)).replace("{2}", str(x)).replace("{3}", str(y))


def check_outdir(label, out_dir):
    problems = []
    wtml = os.path.join(out_dir, "index_rel.wtml")
    if not os.path.isfile(wtml):
        return [f"[{label}] no index_rel.wtml written"]

    imgsets = list(etree.parse(wtml).getroot().iter("ImageSet"))
    if len(imgsets) != 1:
        return [f"[{label}] expected one ImageSet in the WTML, found {len(imgsets)}"]

    iset = imgsets[0]
    url = iset.get("Url")
    ftype = iset.get("FileType")
    levels = int(iset.get("TileLevels"))
    print(f"[{label}] WTML: Url={url!r} FileType={ftype!r} TileLevels={levels}")

    # What is on disk (L/Y/YX layout)?
    pat = re.compile(r"^(\d+)/(\d+)/(\d+)_(\d+)(\.\w+)$")
    tiles = {}
    for dirpath, _dirs, files in os.walk(out_dir):
        for fn in files:
            rel = os.path.relpath(os.path.join(dirpath, fn), out_dir).replace(os.sep, "/")
            m = pat.match(rel)
            if m:
                lev, ydir, y, x = (int(g) for g in m.groups()[:4])
                tiles[(lev, x, y)] = (rel, m.group(5))

    if not tiles:
        return [f"[{label}] no tiles on disk"]

    print(f"[{label}] {len(tiles)} tile files on disk, e.g. {sorted(t[0] for t in tiles.values())[0]}")

    exts = set(ext for _rel, ext in tiles.values())
    if exts != {ftype}:
        problems.append(f"[{label}] FileType {ftype!r} but tile extensions on disk are {sorted(exts)}")

    deepest = max(lev for lev, _x, _y in tiles)
    if deepest != levels:
        problems.append(f"[{label}] TileLevels={levels} but deepest populated layer is {deepest}")

    seen = {}
    n_bad = 0
    n_dup = 0
    for (lev, x, y), (rel, _ext) in sorted(tiles.items()):
        got = expand(url, lev, x, y)
        if got in seen:
            n_dup += 1
            if n_dup == 1:
                problems.append(f"[{label}] distinct positions {seen[got]} and {(lev, x, y)} both expand to {got!r}")
        seen[got] = (lev, x, y)
        if got != rel:
            n_bad += 1
            if n_bad <= 3:
                problems.append(
                    f"[{label}] tile ({lev},{x},{y}) was written at {rel!r} but the WTML Url template expands to {got!r}"
                )
    if n_bad > 3:
        problems.append(f"[{label}] ... and {n_bad - 3} more tiles not at their template path")

    return problems


def main():
    work = tempfile.mkdtemp(prefix="c17demo2_")
    problems = []

    try:
        plain, tagged = make_images(work)

        runs = [
            ("no-avm", ["tile-study", "--outdir", os.path.join(work, "out_plain"), plain]),
            ("--avm", ["tile-study", "--avm", "--outdir", os.path.join(work, "out_avm"), tagged]),
            (
                "--avm-from",
                ["tile-study", "--avm-from", tagged, "--outdir", os.path.join(work, "out_avmfrom"), plain],
            ),
        ]

        for label, args in runs:
            with warnings.catch_warnings():
                warnings.simplefilter("ignore")
                cli.entrypoint(args)
            out_dir = args[args.index("--outdir") + 1]
            problems += check_outdir(label, out_dir)
    finally:
        shutil.rmtree(work, ignore_errors=True)

    return problems


if __name__ == "__main__":
    problems = main()
    if problems:
        print("C17 VIOLATED:")
        for p in problems:
            print("  -", p)
        sys.exit(1)
    print("OK: index_rel.wtml matches the files on disk in all runs")
    sys.exit(0)
