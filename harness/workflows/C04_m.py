import os, sys; sys.path.insert(0, os.getcwd())

# C04 demo 2: the TOAST layout that reaches the sampler / the tiles on disk must
# be the documented one for the kind of map requested: "longitude 0 towards the
# right for sky maps and towards the left for planetary maps".  The docs of
# `toasty tile-allsky` say that `plate-carree-panorama` is "like the default
# plate carree projection", i.e. the sky-like (astronomical) layout; only the
# three `plate-carree-planet*` projections use the planetary layout.
#
# Part 1 drives Builder.toast_base() with a recording sampler and compares the
# pixel coordinates it is asked for with those of the level-1 tiles of the
# expected coordinate system.
# Part 2 drives the command line in-process on a synthetic all-sky image that
# is black except for a white blob at lon = lat = 0 and looks where the blob
# lands in the level-1 tiles.

import shutil
import tempfile

import numpy as np
from PIL import Image as PILImage

import toasty
from toasty import cli
from toasty.builder import Builder
from toasty.pyramid import Pos, PyramidIO
from toasty.toast import ToastCoordinateSystem, generate_tiles, toast_tile_get_coords

assert os.path.dirname(os.path.dirname(os.path.abspath(toasty.__file__))) == os.getcwd(), (
    "demo is not testing the worktree it was started from: %s" % toasty.__file__
)

problems = []
work = tempfile.mkdtemp()


def unit(lon, lat):
    return np.stack(
        [np.cos(lon) * np.cos(lat), np.sin(lon) * np.cos(lat), np.sin(lat)], axis=-1
    )


try:
    # ---- Part 1: Builder.toast_base -> what is the sampler asked to sample? ----

    expected = {}
    for cs in ToastCoordinateSystem:
        expected[cs] = {
            (t.pos.x, t.pos.y): unit(*toast_tile_get_coords(t))
            for t in generate_tiles(1, coordsys=cs)
        }

    def layout_seen_by_sampler(**kwargs):
        """Return the set of coordinate systems whose level-1 tiles match all
        four coordinate grids that the sampler was asked for."""
        outdir = tempfile.mkdtemp(dir=work)
        calls = []

        def sampler(lon, lat):
            calls.append(unit(lon, lat))
            return np.zeros(lon.shape, dtype=np.float64)

        pio = PyramidIO(outdir, default_format="npy")
        Builder(pio).toast_base(sampler, 1, parallel=1, **kwargs)
        assert len(calls) == 4, "expected 4 level-1 sampler calls, got %d" % len(calls)

        matches = set()
        for cs, grids in expected.items():
            ok = all(
                any(np.allclose(c, g, rtol=0, atol=1e-9) for g in grids.values())
                for c in calls
            )
            if ok:
                matches.add(cs)
        return matches

    A = ToastCoordinateSystem.ASTRONOMICAL
    P = ToastCoordinateSystem.PLANETARY

    for kwargs, want in [
        ({}, A),
        ({"is_planet": True}, P),
        ({"is_pano": True}, A),
        ({"is_pano": True, "coordsys": A}, A),
    ]:
        got = layout_seen_by_sampler(**kwargs)
        if got != {want}:
            problems.append(
                "Builder.toast_base(%s): sampler was asked for the pixel coordinates of the %s "
                "level-1 tiles, expected the %s ones"
                % (
                    ", ".join("%s=%s" % kv for kv in kwargs.items()) or "<defaults>",
                    "/".join(sorted(c.value for c in got)) or "<no known>",
                    want.value,
                )
            )

    # ---- Part 2: command line, blob at lon = lat = 0 ----

    H, W = 256, 512
    arr = np.zeros((H, W, 3), dtype=np.uint8)
    arr[H // 2 - 12 : H // 2 + 12, W // 2 - 12 : W // 2 + 12] = 255  # lon=0, lat=0
    img_path = os.path.join(work, "blob.png")
    PILImage.fromarray(arr).save(img_path)

    def blob_location(projection):
        outdir = tempfile.mkdtemp(dir=work)
        cli.entrypoint(
            [
                "tile-allsky",
                "--projection=" + projection,
                "--outdir",
                outdir,
                "--placeholder-thumbnail",
                "-j",
                "1",
                img_path,
                "1",
            ]
        )
        pio = PyramidIO(outdir)
        # The point lon = lat = 0 is the middle of the right edge of the TOAST
        # square in the sky layout and the middle of the left edge in the
        # planetary layout: the lower-right pixel of tile (1, x=1, y=0) or the
        # lower-left pixel of tile (1, x=0, y=0), respectively.
        right = pio.read_image(Pos(1, 1, 0)).asarray()[253:, 253:, :3].mean()
        left = pio.read_image(Pos(1, 0, 0)).asarray()[253:, :3, :3].mean()
        tiles = {
            (x, y): pio.read_image(Pos(1, x, y)).asarray()[..., :3].astype(int)
            for x in (0, 1)
            for y in (0, 1)
        }
        if right > 200 and left < 50:
            return "right", tiles
        if left > 200 and right < 50:
            return "left", tiles
        return "unclear(right=%.0f,left=%.0f)" % (right, left), tiles

    where = {}
    tiles = {}
    for proj, want in [
        ("plate-carree", "right"),
        ("plate-carree-planet", "left"),
        ("plate-carree-panorama", "right"),
    ]:
        where[proj], tiles[proj] = blob_location(proj)
        if where[proj] != want:
            problems.append(
                "toasty tile-allsky --projection=%s: the lon=lat=0 marker is at the %s edge of "
                "the TOAST square, documented layout puts it at the %s edge"
                % (proj, where[proj], want)
            )

    # "like the default plate carree projection": same tiles, pixel for pixel
    ndiff = sum(
        int(np.abs(tiles["plate-carree"][k] - tiles["plate-carree-panorama"][k]).max() > 0)
        for k in tiles["plate-carree"]
    )
    if ndiff:
        problems.append(
            "toasty tile-allsky: %d of 4 level-1 tiles differ between --projection=plate-carree "
            "and --projection=plate-carree-panorama (documented as the same mapping)" % ndiff
        )
finally:
    shutil.rmtree(work, ignore_errors=True)

if problems:
    print("C04 VIOLATED: wrong TOAST layout reaches the sampler / the tiles")
    for p in problems:
        print(" - " + p)
    sys.exit(1)

print("ok: sky, planet and panorama requests each get their documented TOAST layout")
sys.exit(0)
