import os, sys; sys.path.insert(0, os.getcwd())

# C11 demo 2: tiling an all-sky map down to depth 0 (a single 256x256 TOAST
# tile) must show, at every tile pixel, the map pixel containing that sky
# point -- for every projection variant, including the planetary ones.
#
# Oracle: the level-0 TOAST tile is geometrically the 2x-coarser version of the
# 2x2 mosaic of the level-1 tiles: the centre of level-0 pixel (Y, X) is the
# common corner of the mosaic pixels (2Y..2Y+1, 2X..2X+1). So wherever those
# four depth-1 pixels all come from one and the same map pixel, the depth-0
# pixel must show that map pixel too. The depth-1 tiling is the code path that
# the existing test suite exercises.

import shutil
import tempfile

import numpy as np
from PIL import Image as PILImage

import toasty
from toasty import cli

print("testing toasty from", os.path.dirname(toasty.__file__))

NX, NY = 36, 18  # 10 degree map pixels


def tile_allsky(projection, map_path, outdir, depth):
    cli.entrypoint(
        [
            "tile-allsky",
            "--projection",
            projection,
            "--placeholder-thumbnail",
            "--parallelism",
            "1",
            "--outdir",
            outdir,
            map_path,
            str(depth),
        ]
    )


def read_tile(outdir, n, x, y):
    p = os.path.join(outdir, str(n), str(y), f"{y}_{x}.png")
    return np.asarray(PILImage.open(p))[..., :3]


def run(projection, workdir, map_path):
    d1 = os.path.join(workdir, projection + "-d1")
    d0 = os.path.join(workdir, projection + "-d0")
    tile_allsky(projection, map_path, d1, 1)
    tile_allsky(projection, map_path, d0, 0)

    mosaic = np.empty((512, 512, 3), dtype=np.uint8)
    for y in (0, 1):
        for x in (0, 1):
            mosaic[256 * y : 256 * (y + 1), 256 * x : 256 * (x + 1)] = read_tile(
                d1, 1, x, y
            )

    blocks = mosaic.reshape(256, 2, 256, 2, 3)
    ref = blocks[:, 0, :, 0]
    uniform = np.all(blocks == ref[:, None, :, None, :], axis=(1, 3, 4))

    got = read_tile(d0, 0, 0, 0)
    assert got.shape == (256, 256, 3), got.shape

    bad = uniform & np.any(got != ref, axis=2)
    n_bad = int(bad.sum())
    print(
        f"{projection}: {n_bad} of {int(uniform.sum())} checkable depth-0 pixels "
        "differ from the map pixel seen by all four depth-1 pixels they cover"
    )

    if n_bad:
        y, x = np.argwhere(bad)[0]
        print(
            f"   first: depth-0 pixel (y={y}, x={x}) is {got[y, x].tolist()}, "
            f"but depth-1 pixels ({2*y}..{2*y+1}, {2*x}..{2*x+1}) are all {ref[y, x].tolist()}"
        )

    # Sanity of the oracle itself: most pixels must be checkable.
    assert uniform.sum() > 0.8 * 256 * 256, uniform.sum()
    return n_bad


def main():
    rng = np.random.default_rng(1109)
    map_arr = rng.integers(1, 256, size=(NY, NX, 3), dtype=np.uint8)
    workdir = tempfile.mkdtemp(prefix="c11demo2_")

    try:
        map_path = os.path.join(workdir, "map.png")
        PILImage.fromarray(map_arr).save(map_path)

        total = 0
        for projection in (
            "plate-carree",
            "plate-carree-planet",
            "plate-carree-planet-zeroleft",
            "plate-carree-planet-zeroright",
        ):
            total += run(projection, workdir, map_path)
    finally:
        shutil.rmtree(workdir, ignore_errors=True)

    if total:
        print("FAIL: the depth-0 tile does not show the map pixel containing each sky point")
        return 1

    print("OK")
    return 0


if __name__ == "__main__":
    sys.exit(main())
