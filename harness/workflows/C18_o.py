import os, sys; sys.path.insert(0, os.getcwd())

"""
C18 demo: "after a transfer failure at any point ... re-running publish
completes the job", observed by somebody who drives the pipeline from the
command line.

Scenario (everything goes through toasty.cli.entrypoint):

  1. init / refresh / fetch / process-todos / approve one image;
  2. `pipeline publish` with a transfer failure injected at the k-th put_item
     (k = 2, and k = the transfer of index.wtml);
     -> the usual C18 post-conditions are checked (no index.wtml in the store,
        image still in approved/, nothing in published/);
  3. `pipeline refresh` correctly says that the image is NOT done, so the
     operator runs the image through the pipeline again (clears its cached
     download, fetch, process-todos) and approves it again while the first
     approval is still waiting in approved/;
  4. `pipeline publish` is re-run, with no failure injected.

The job must now complete: the image is in published/, nothing is left in
approved/, every file of the image is in the store byte for byte, index.wtml is
there and `refresh` counts the image as already done.  The pending directory in
approved/ must at all times be the flat set of files that publish can transfer.

Exit status 0 = property holds, 1 = it does not.
"""

import contextlib
import filecmp
import io
import shutil
import tempfile

from toasty import cli, pipeline
from toasty.pipeline import astropix, local_io
from toasty.tests import mk_test_path

IMGID = "fake_test1"


class DemoImageSource(astropix.AstroPixImageSource):
    def query_candidates(self):
        item = {
            "creator": "Fake Observatory",
            "title": "Test",
            "description": "An amazing image.",
            "object_name": ["NGC 253"],
            "resource_url": "http://example.com/amazingimage.jpg",
            "reference_url": "https://example.com/",
            "image_id": "test1",
            "image_credit": "Courtesy an amazing telescope.",
            "wcs_coordinate_frame": "ICRS",
            "wcs_equinox": "J2000",
            "wcs_reference_value": ["187.70593075", "12.39112325"],
            "wcs_reference_dimension": ["2166.0", "2129.0"],
            "wcs_reference_pixel": ["3738.9937831", "3032.00448074"],
            "wcs_scale": ["-5.91663506907e-14", "5.91663506907e-14"],
            "wcs_rotation": "0",
            "wcs_projection": "TAN",
            "wcs_quality": "Full",
            "wcs_notes": "FAKE",
            "publisher": "FAKE",
            "publisher_id": "fake",
            "resource_id": "test1",
            "last_updated": "2019-04-08T14:00:38.128143",
            "metadata_version": "1.1",
            "image_width": "7416",
            "image_height": "4320",
            "image_max_boundry": "7416",
            "astropix_id": 21642,
        }
        yield astropix.AstroPixCandidateInput(item)

    def fetch_candidate(self, unique_id, cand_data_stream, cachedir):
        shutil.copy(mk_test_path("NGC253ALMA.jpg"), os.path.join(cachedir, "image.jpg"))


pipeline.IMAGE_SOURCE_CLASS_LOADERS["_local_test_astropix"] = lambda: DemoImageSource


class InjectedTransferFailure(Exception):
    pass


def run(*args):
    """Run one `toasty pipeline ...` command in-process; return what it printed."""
    buf = io.StringIO()
    with contextlib.redirect_stdout(buf):
        cli.entrypoint(["pipeline"] + list(args))
    return buf.getvalue()


def flat_listing(d):
    """(sorted regular files, sorted sub-directories) of directory d."""
    files, dirs = [], []
    for n in sorted(os.listdir(d)):
        (dirs if os.path.isdir(os.path.join(d, n)) else files).append(n)
    return files, dirs


def scenario(fail_at):
    """fail_at: 1-based number of the failing transfer, or 'index'."""
    problems = []
    top = tempfile.mkdtemp(prefix="c18demo_")
    work = os.path.join(top, "work")
    repo = os.path.join(top, "repo")
    wd = ["--workdir", work]

    try:
        os.makedirs(repo)
        shutil.copy(mk_test_path("toasty-pipeline-config.yaml"), repo)

        # 1. first pass, up to approval
        run("init", "--local", repo, work)
        run("refresh", *wd)
        run("fetch", *wd, IMGID)
        run("process-todos", *wd)
        run("approve", *wd, IMGID)

        appr = os.path.join(work, "approved", IMGID)
        publ = os.path.join(work, "published", IMGID)
        store = os.path.join(repo, IMGID)
        files0, dirs0 = flat_listing(appr)
        assert "index.wtml" in files0 and not dirs0, (files0, dirs0)

        # 2. publish with an injected transfer failure
        real_put = local_io.LocalPipelineIo.put_item
        count = [0]

        def failing_put(self, *path, source=None):
            count[0] += 1
            if fail_at == "index":
                if path[-1] == "index.wtml":
                    raise InjectedTransferFailure("transfer of %s" % "/".join(path))
            elif count[0] == fail_at:
                raise InjectedTransferFailure("transfer #%d, %s" % (fail_at, "/".join(path)))
            return real_put(self, *path, source=source)

        local_io.LocalPipelineIo.put_item = failing_put
        try:
            try:
                run("publish", *wd)
            except InjectedTransferFailure as e:
                print("  publish interrupted by injected failure (%s)" % e)
            else:
                problems.append("the injected failure did not surface from `pipeline publish`")
        finally:
            local_io.LocalPipelineIo.put_item = real_put

        if os.path.exists(os.path.join(store, "index.wtml")):
            problems.append("index.wtml is in the store after the failed publish")
        if os.path.exists(publ):
            problems.append("image was moved to published/ although a transfer failed")
        if flat_listing(appr) != (files0, []):
            problems.append("approved/%s changed during the failed publish" % IMGID)

        # 3. refresh must not treat the image as done; the operator runs it
        #    through the pipeline again and approves it again.
        out = run("refresh", *wd)
        if "- 0 were already done" not in out:
            problems.append("refresh skipped the partially published image:\n" + out)

        shutil.rmtree(os.path.join(work, "cache_done", IMGID))  # drop the cached download
        run("fetch", *wd, IMGID)
        run("process-todos", *wd)

        try:
            run("approve", *wd, IMGID)
        except OSError as e:
            print("  second approve refused, first approval still pending (%s)" % e.strerror)
        else:
            print("  second approve returned normally")

        files1, dirs1 = flat_listing(appr)
        if dirs1:
            problems.append(
                "approved/%s is no longer a flat set of files, it now contains the "
                "directory(ies) %r" % (IMGID, dirs1)
            )
        if files1 != files0:
            problems.append("the files pending in approved/%s changed" % IMGID)

        # 4. re-run publish, nothing injected: the job must complete.
        for attempt in (1, 2):
            try:
                run("publish", *wd)
            except Exception as e:
                problems.append(
                    "re-run #%d of `pipeline publish` did not complete: %s: %s"
                    % (attempt, type(e).__name__, e)
                )
            else:
                break

        if os.path.isdir(appr):
            problems.append("image is still waiting in approved/ after re-running publish")

        if not os.path.isdir(publ):
            problems.append("image never reached published/")
        else:
            pfiles, pdirs = flat_listing(publ)
            if pfiles != files0 or pdirs:
                problems.append("published/%s is not the approved file set" % IMGID)
            for n in pfiles:
                sp = os.path.join(store, n)
                if not os.path.isfile(sp):
                    problems.append("store lacks %s/%s" % (IMGID, n))
                elif not filecmp.cmp(os.path.join(publ, n), sp, shallow=False):
                    problems.append("store copy of %s/%s differs" % (IMGID, n))

        have_index = os.path.exists(os.path.join(store, "index.wtml"))
        if not have_index:
            missing = [n for n in files0 if not os.path.exists(os.path.join(store, n))]
            problems.append(
                "store has no %s/index.wtml after re-running publish (%d of %d files missing)"
                % (IMGID, len(missing), len(files0))
            )

        out = run("refresh", *wd)
        if "- 1 were already done" not in out:
            problems.append("refresh does not count the image as done after the re-run")
    finally:
        shutil.rmtree(top, ignore_errors=True)

    return problems


def main():
    bad = 0
    for fail_at in (2, "index"):
        print("scenario: transfer failure at %r" % (fail_at,))
        problems = scenario(fail_at)
        for p in problems:
            print("  PROBLEM:", p)
        if problems:
            bad += 1
        else:
            print("  ok: re-running publish completed the job")

    if bad:
        print("FAIL: C18 violated in %d scenario(s)" % bad)
        sys.exit(1)
    print("PASS")


if __name__ == "__main__":
    main()
