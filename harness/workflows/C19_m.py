import os, sys; sys.path.insert(0, os.getcwd())

# Demo for change 2: `toasty.tile_fits(..., tiling_method=TilingMethod.TOAST,
# parallel=1)` asks for serial processing. If merging one tile fails during the
# downsampling step, tile_fits must raise that error to its caller.
#
# The work is done in a child process (this same script, started with the
# argument "child") in its own process group, so that a hang can be detected
# with a deadline and every leftover worker can be killed.
#
# Exit status: 0 when tile_fits raised the injected error, 1 when it hung or
# returned normally.

import shutil
import signal
import subprocess
import tempfile

DEADLINE = 90  # seconds; the healthy run takes a few seconds


class InjectedTileError(RuntimeError):
    pass


def child(work):
    import warnings

    import numpy as np
    from astropy.io import fits

    import toasty
    import toasty.merge
    from toasty import TilingMethod, tile_fits

    print("testing toasty from", os.path.dirname(toasty.__file__), flush=True)

    # A small image with a tangent-plane WCS, about 13 degrees across.

    hdu = fits.PrimaryHDU(
        np.arange(64 * 64, dtype=np.float32).reshape((64, 64)) / 4096.0
    )
    hdu.header["CTYPE1"] = "RA---TAN"
    hdu.header["CTYPE2"] = "DEC--TAN"
    hdu.header["CRVAL1"] = 40.0
    hdu.header["CRVAL2"] = 30.0
    hdu.header["CRPIX1"] = 32.5
    hdu.header["CRPIX2"] = 32.5
    hdu.header["CDELT1"] = -0.2
    hdu.header["CDELT2"] = 0.2
    fits_path = os.path.join(work, "img.fits")
    hdu.writeto(fits_path)

    # Make the merge of a tile fail, the first time any tile is merged.

    def failing_merger(data):
        raise InjectedTileError("simulated failure while merging a tile")

    toasty.merge.averaging_merger = failing_merger

    try:
        with warnings.catch_warnings():
            warnings.simplefilter("ignore")
            tile_fits(
                fits_path,
                out_dir=os.path.join(work, "tiled"),
                tiling_method=TilingMethod.TOAST,
                parallel=1,
                start=3,
            )
    except InjectedTileError as e:
        print("ok: tile_fits(parallel=1) raised:", e, flush=True)
        sys.exit(0)

    print("tile_fits(parallel=1) returned normally", flush=True)
    sys.exit(3)


def main():
    # When nobody asks for a worker count, toasty uses $SLURM_NPROCS or the CPU
    # count. Pin it, so that the outcome does not depend on this machine having
    # more than one CPU. (An explicit parallel=1 must override it, of course.)
    env = dict(os.environ)
    env["SLURM_NPROCS"] = "4"

    work = tempfile.mkdtemp(prefix="c19demo2_")

    try:
        proc = subprocess.Popen(
            [sys.executable, os.path.abspath(__file__), "child", work],
            env=env,
            start_new_session=True,
        )

        try:
            rc = proc.wait(timeout=DEADLINE)
        except subprocess.TimeoutExpired:
            rc = None
        finally:
            # Take down the child and any workers it left behind.
            try:
                os.killpg(proc.pid, signal.SIGKILL)
            except ProcessLookupError:
                pass
            proc.wait()
    finally:
        shutil.rmtree(work, ignore_errors=True)

    if rc is None:
        print(
            f"PROBLEM: tile_fits(tiling_method=TOAST, parallel=1) did not finish within {DEADLINE} s "
            "after the merge of a tile raised: it waits forever instead of reporting the error"
        )
        sys.exit(1)

    if rc == 3:
        print(
            "PROBLEM: tile_fits(tiling_method=TOAST, parallel=1) returned normally although "
            "the merge of a tile raised"
        )
        sys.exit(1)

    if rc != 0:
        print(f"PROBLEM: unexpected exit status {rc} of the child process")
        sys.exit(1)

    print("the tile error was reported to the caller")
    sys.exit(0)


if __name__ == "__main__":
    if len(sys.argv) == 3 and sys.argv[1] == "child":
        child(sys.argv[2])
    else:
        main()
