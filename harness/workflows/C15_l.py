import os, sys; sys.path.insert(0, os.getcwd())

"""
C15 demo 1: tiling several FITS images into one TOAST pyramid.

Two small FITS images, A (all pixels 1.0) and B (all pixels 2.0), sit next to
each other on the sky, inside the same TOAST tile. They are tiled

  * separately (A alone, B alone), and
  * together (`tile_fits([A, B], tiling_method=TOAST)`).

Every image is sampled into the tiles through "update" semantics: a pixel for
which the image being added has no value (NaN: outside of its footprint) must
keep whatever was there before. So every deepest-level tile of the combined
pyramid must be: B's value where B is defined, otherwise A's value where A is
defined, otherwise undefined. In particular A's pixels must still be there
after B has been added.
"""

import glob
import shutil
import tempfile
import warnings

import numpy as np

warnings.simplefilter("ignore")

from astropy.io import fits
from astropy.wcs import WCS

import toasty
from toasty import TilingMethod, tile_fits
from toasty.pyramid import PyramidIO, Pos


def make_fits(path, ra, dec, value):
    n = 40
    w = WCS(naxis=2)
    w.wcs.ctype = ["RA---TAN", "DEC--TAN"]
    w.wcs.crval = [ra, dec]
    w.wcs.crpix = [(n + 1) / 2, (n + 1) / 2]
    w.wcs.cdelt = [-0.2, 0.2]
    data = np.full((n, n), value, dtype=np.float32)
    fits.PrimaryHDU(data=data, header=w.to_header()).writeto(path, overwrite=True)


def deepest_tiles(out_dir, level):
    """Map (x, y) -> array, for the tiles of `level` that exist."""
    pio = PyramidIO(out_dir, default_format="fits")
    result = {}

    for p in glob.glob(os.path.join(out_dir, str(level), "*", "*.fits")):
        y, x = os.path.basename(p)[: -len(".fits")].split("_")
        img = pio.read_image(Pos(level, int(x), int(y)), format="fits")
        result[(int(x), int(y))] = np.array(img.asarray())

    return result


def main():
    assert os.path.dirname(os.path.abspath(toasty.__file__)).startswith(
        os.getcwd()
    ), "not testing the worktree"

    work = tempfile.mkdtemp(prefix="c15demo1_")
    problems = []

    try:
        pa = os.path.join(work, "a.fits")
        pb = os.path.join(work, "b.fits")
        make_fits(pa, 30.0, 20.0, 1.0)
        make_fits(pb, 39.0, 20.0, 2.0)

        dirs = {}
        levels = {}

        for key, inputs in (("a", [pa]), ("b", [pb]), ("ab", [pa, pb])):
            out = os.path.join(work, "tiled_" + key)
            out_dir, bld = tile_fits(
                inputs,
                out_dir=out,
                tiling_method=TilingMethod.TOAST,
                parallel=1,
                override=True,
            )
            dirs[key] = out_dir
            levels[key] = bld.imgset.tile_levels

        if len(set(levels.values())) != 1:
            problems.append(f"tiling depths differ: {levels}")
        level = levels["ab"]

        ta = deepest_tiles(dirs["a"], level)
        tb = deepest_tiles(dirs["b"], level)
        tab = deepest_tiles(dirs["ab"], level)

        if not (set(ta) & set(tb)):
            problems.append(
                "demo setup problem: images A and B do not share a tile "
                f"(A: {sorted(ta)}, B: {sorted(tb)})"
            )

        nan_tile = np.full((256, 256), np.nan, dtype=np.float32)

        for xy in sorted(set(ta) | set(tb) | set(tab)):
            a = ta.get(xy, nan_tile)
            b = tb.get(xy, nan_tile)
            expected = np.where(np.isnan(b), a, b)

            if xy not in tab:
                if not np.all(np.isnan(expected)):
                    problems.append(f"tile L{level} {xy}: missing from the combined pyramid")
                continue

            got = tab[xy]

            if got.shape != expected.shape:
                problems.append(f"tile L{level} {xy}: shape {got.shape}")
                continue

            lost = np.isnan(got) & ~np.isnan(expected)
            invented = ~np.isnan(got) & np.isnan(expected)
            both = ~np.isnan(got) & ~np.isnan(expected)
            differ = both & (got != expected)

            if lost.any() or invented.any() or differ.any():
                n_a_lost = int((lost & ~np.isnan(a) & np.isnan(b)).sum())
                problems.append(
                    f"tile L{level} {xy}: combined pyramid differs from "
                    f"'B where defined, else A': {int(lost.sum())} defined pixels became "
                    f"undefined ({n_a_lost} of them are pixels of image A outside of B's "
                    f"footprint), {int(invented.sum())} undefined pixels became defined, "
                    f"{int(differ.sum())} pixels have the wrong value"
                )

        n_a = sum(int((t == 1.0).sum()) for t in tab.values())
        n_a_alone = sum(int((t == 1.0).sum()) for t in ta.values())
        print(
            f"level {level}: image A alone gives {n_a_alone} pixels of value 1.0; "
            f"the combined pyramid has {n_a} pixels of value 1.0"
        )
    finally:
        shutil.rmtree(work, ignore_errors=True)

    if problems:
        print("C15 VIOLATED: adding a second image destroyed pixels it has no data for:")
        for p in problems:
            print("  -", p)
        return 1

    print("OK: pixels that the second image does not cover kept the first image's data")
    return 0


if __name__ == "__main__":
    sys.exit(main())
