import os, sys; sys.path.insert(0, os.getcwd())

"""
Demo for change1 (C04): the tile reported by the point lookup that users call
to find "which tile / which pixel holds this lon/lat" -- toast_pixel_for_point
-- must be the very same tile (position, corners, diagonal orientation) that
the other construction routes report for that position, in BOTH coordinate
systems, and it must actually contain the point that was looked up.

Run as:  cd /tmp/seed_C04 && /venv/bin/python /tmp/seed7_C04_out/demo1.py
Exit 0 = property holds; exit 1 = property broken (details printed).
"""

import numpy as np

import toasty
from toasty import toast
from toasty.toast import (
    ToastCoordinateSystem,
    create_single_tile,
    generate_tiles,
    generate_tiles_filtered,
    toast_pixel_for_point,
    toast_tile_for_point,
    toast_tile_get_coords,
)

print("testing toasty from:", os.path.dirname(toasty.__file__))

TWOPI = 2 * np.pi
failures = []


def fail(msg):
    failures.append(msg)
    print("FAIL:", msg)


def same_tile(a, b):
    return (
        a.pos == b.pos
        and bool(a.increasing) == bool(b.increasing)
        and np.allclose(np.asarray(a.corners), np.asarray(b.corners), rtol=0, atol=1e-12)
    )


def angdist(lat1, lon1, lat2, lon2):
    """Great-circle distance, radians."""
    a = np.array([np.cos(lat1) * np.cos(lon1), np.cos(lat1) * np.sin(lon1), np.sin(lat1)])
    b = np.array([np.cos(lat2) * np.cos(lon2), np.cos(lat2) * np.sin(lon2), np.sin(lat2)])
    return np.arccos(np.clip(np.dot(a, b), -1, 1))


# Points well away from tile boundaries and poles, spread over all four
# level-1 quadrants and both hemispheres. (lat, lon) in degrees.
points_deg = [
    (10.0, 20.0),
    (-35.0, 65.0),
    (50.0, 110.0),
    (-12.0, 160.0),
    (27.0, 200.0),
    (-61.0, 250.0),
    (5.7, 290.0),
    (-44.0, 340.0),
]

ENUM_DEPTH = 3  # full / filtered enumeration is compared at this depth
depths = [1, 2, 3, 5, 8]

for coordsys in (ToastCoordinateSystem.ASTRONOMICAL, ToastCoordinateSystem.PLANETARY):
    enumerated = {
        t.pos: t for t in generate_tiles(ENUM_DEPTH, bottom_only=False, coordsys=coordsys)
    }

    for lat_d, lon_d in points_deg:
        lat = np.radians(lat_d)
        lon = np.radians(lon_d)

        for depth in depths:
            label = f"{coordsys.value} depth={depth} point(lat={lat_d},lon={lon_d})"
            tile, px, py = toast_pixel_for_point(depth, lat, lon, coordsys=coordsys)

            # (1) route independence: point lookup via the pixel API vs. the
            # tile-only point lookup
            ref = toast_tile_for_point(depth, lat, lon, coordsys=coordsys)
            if not same_tile(tile, ref):
                fail(
                    f"{label}: toast_pixel_for_point gives tile {tuple(tile.pos)} but "
                    f"toast_tile_for_point gives {tuple(ref.pos)}"
                )

            # (2) route independence: vs. single-tile construction at the
            # position that the lookup itself reported
            single = create_single_tile(tile.pos, coordsys=coordsys)
            if not same_tile(tile, single):
                fail(
                    f"{label}: tile {tuple(tile.pos)} from toast_pixel_for_point has corners "
                    f"(deg) {np.degrees(np.asarray(tile.corners)).round(3).tolist()} "
                    f"incr={tile.increasing}, but create_single_tile says "
                    f"{np.degrees(np.asarray(single.corners)).round(3).tolist()} "
                    f"incr={single.increasing}"
                )

            # (3) vs. full and filtered enumeration
            if depth <= ENUM_DEPTH:
                if not same_tile(tile, enumerated[tile.pos]):
                    fail(f"{label}: tile {tuple(tile.pos)} differs from generate_tiles()")

                want = tile.pos
                filt = [
                    t
                    for t in generate_tiles_filtered(
                        depth,
                        lambda t: (t.pos.x >> (t.pos.n - 1), t.pos.y >> (t.pos.n - 1))
                        == (want.x >> (want.n - 1), want.y >> (want.n - 1)),
                        bottom_only=True,
                        coordsys=coordsys,
                    )
                    if t.pos == want
                ]
                if len(filt) != 1 or not same_tile(tile, filt[0]):
                    fail(f"{label}: tile {tuple(tile.pos)} differs from generate_tiles_filtered()")

            # (4) the documented layout: the reported position's tile, in the
            # requested coordinate system, really holds the point, at the
            # reported pixel.
            lons, lats = toast_tile_get_coords(single)
            ix = int(np.clip(round(px), 0, 255))
            iy = int(np.clip(round(py), 0, 255))
            d = angdist(lat, lon, lats[iy, ix], lons[iy, ix] % TWOPI)
            # tile angular size ~ (pi/2)/2**(depth-1); one pixel is 1/256 of that.
            tol = 4 * (np.pi / 2) / 2 ** (depth - 1) / 256
            if d > tol:
                fail(
                    f"{label}: pixel ({px:.1f},{py:.1f}) of tile {tuple(tile.pos)} in the "
                    f"{coordsys.value} layout lies {np.degrees(d):.3f} deg from the requested point"
                )

if failures:
    print(f"\n{len(failures)} check(s) failed: C04 route-independence / layout is broken")
    sys.exit(1)

print("all checks passed: point lookup agrees with the other construction routes")
sys.exit(0)
