import os, sys; sys.path.insert(0, os.getcwd())

# Demo for change 1 (C12): the fractional pixel position returned by
# toast_pixel_for_point must lie within 2 pixels of the pixel (of the returned
# tile) whose centre is nearest to the point -- in BOTH coordinate systems, and
# regardless of which lookups were made earlier in the same process.
#
# The program looks up each of a set of (lat, lon) points in the astronomical
# and then in the planetary system, the way a user comparing the two layouts
# would. (The longitudes are spaced by 30 degrees, so a planetary lookup lands
# in a tile position that an astronomical lookup 180 degrees away -- six points
# earlier in the loop -- has also landed in.) The oracle for "nearest pixel centre" is computed directly
# with the low-level `subsample` routine on corners that are derived from the
# astronomical tile (rotated by 180 degrees of longitude for the planetary
# system, as documented at the top of toasty/toast.py).

import numpy as np

from toasty._libtoasty import subsample
from toasty.pyramid import Pos
from toasty.toast import (
    ToastCoordinateSystem,
    create_single_tile,
    toast_pixel_for_point,
    toast_tile_for_point,
)

ASTRO = ToastCoordinateSystem.ASTRONOMICAL
PLANET = ToastCoordinateSystem.PLANETARY


def xyz(lat, lon):
    return np.array(
        [np.cos(lat) * np.cos(lon), np.cos(lat) * np.sin(lon), np.sin(lat)]
    )


def oracle_corners(pos, coordsys):
    """Corners of tile `pos`, derived from the astronomical layout only."""
    t = create_single_tile(pos, ASTRO)
    corners = np.array([[c[0], c[1]] for c in t.corners], dtype=float)
    if coordsys == PLANET:
        corners[:, 0] += np.pi
    return corners, t.increasing


def in_triangle(a, b, c, p, eps=1e-9):
    s = np.array(
        [np.dot(np.cross(a, b), p), np.dot(np.cross(b, c), p), np.dot(np.cross(c, a), p)]
    )
    return bool(np.all(s >= -eps) or np.all(s <= eps))


def tile_contains(corners, increasing, lat, lon):
    ul, ur, lr, ll = [xyz(c[1], c[0]) for c in corners]
    p = xyz(lat, lon)
    if increasing:
        return in_triangle(ul, ur, ll, p) or in_triangle(ur, lr, ll, p)
    return in_triangle(ul, ur, lr, p) or in_triangle(ul, lr, ll, p)


def nearest_pixel(corners, increasing, lat, lon):
    lons, lats = subsample(corners[0], corners[1], corners[2], corners[3], 256, increasing)
    p = xyz(lat, lon)
    cosd = (
        np.cos(lats) * np.cos(lons) * p[0]
        + np.cos(lats) * np.sin(lons) * p[1]
        + np.sin(lats) * p[2]
    )
    iy, ix = np.unravel_index(np.argmax(cosd), cosd.shape)
    return ix, iy


def main():
    lats = np.radians([-62.0, -31.0, -7.5, 12.0, 40.0, 71.0])
    lons = np.radians(np.arange(12) * 30.0 + 3.7)
    depths = [2, 3, 5]
    problems = []
    n_checked = 0

    # For each point, ask about it in both systems, one right after the other.
    for depth in depths:
        for lat in lats:
            for lon in lons:
                for coordsys in (ASTRO, PLANET):
                    tile, fx, fy = toast_pixel_for_point(depth, lat, lon, coordsys=coordsys)
                    n_checked += 1
                    tag = "%s depth=%d lat=%.2fdeg lon=%.2fdeg" % (
                        coordsys.value,
                        depth,
                        np.degrees(lat),
                        np.degrees(lon),
                    )

                    t2 = toast_tile_for_point(depth, lat, lon, coordsys=coordsys)
                    if t2.pos != tile.pos:
                        problems.append(
                            "%s: pixel lookup tile %r != tile lookup %r" % (tag, tile.pos, t2.pos)
                        )

                    corners, increasing = oracle_corners(tile.pos, coordsys)

                    if not tile_contains(corners, increasing, lat, lon):
                        problems.append(
                            "%s: returned tile %r does not contain the point" % (tag, tile.pos)
                        )
                        continue

                    ix, iy = nearest_pixel(corners, increasing, lat, lon)
                    if not (abs(fx - ix) <= 2 and abs(fy - iy) <= 2):
                        problems.append(
                            "%s: tile %r: returned pixel (%.2f, %.2f) but nearest pixel centre is (%d, %d)"
                            % (tag, tile.pos, fx, fy, ix, iy)
                        )

    print("checked %d pixel lookups" % n_checked)

    if problems:
        print("FAIL: %d lookups violate the property; first few:" % len(problems))
        for p in problems[:10]:
            print("  " + p)
        return 1

    print("OK: all returned pixels are within 2 pixels of the nearest pixel centre")
    return 0


if __name__ == "__main__":
    sys.exit(main())
