import os, sys; sys.path.insert(0, os.getcwd())

"""
C05 demo 2: the level-0 TOAST tile, sampled directly (depth 0), must use the
same global pixelisation as every other tile: its pixel (row i, column j) is
the centre of the TOAST tile (8, j, i), in both coordinate systems.

Part A drives toasty.toast.sample_layer(..., depth=0) with a sampler that
records the coordinate grids it is handed, and compares them with the centres
of the level-8 tiles.

Part B drives the command line: `toasty tile-allsky IMG 0` (direct sampling of
level 0) must give the same picture as `toasty tile-allsky IMG 1` followed by
`toasty cascade --start 1` (level 0 averaged from the level-1 tiles).

Exit 0 if all holds, 1 otherwise.
"""

import shutil
import tempfile

import numpy as np

import toasty
from toasty import cli
from toasty._libtoasty import mid
from toasty.pyramid import Pos, PyramidIO
from toasty.toast import ToastCoordinateSystem, create_single_tile, sample_layer

TWOPI = 2 * np.pi


def deep_centre(cs, i, j):
    t = create_single_tile(Pos(8, j, i), coordsys=cs)
    ul, ur, lr, ll = t.corners
    c = mid(ll, ur) if t.increasing else mid(ul, lr)
    return c[0], c[1]


def lon_close(a, b, tol=1e-9):
    d = (a - b + np.pi) % TWOPI - np.pi
    return abs(d) < tol


def part_a(problems):
    rng = np.random.default_rng(5)

    for cs in (ToastCoordinateSystem.ASTRONOMICAL, ToastCoordinateSystem.PLANETARY):
        recorded = []

        def sampler(lon, lat):
            recorded.append((np.array(lon), np.array(lat)))
            return np.zeros(lon.shape + (3,), dtype=np.uint8)

        work = tempfile.mkdtemp()
        try:
            sample_layer(
                PyramidIO(work, default_format="png"),
                sampler,
                0,
                coordsys=cs,
                format="png",
                parallel=1,
            )
        finally:
            shutil.rmtree(work, ignore_errors=True)

        if len(recorded) != 1:
            problems.append(f"{cs.value}: sampler called {len(recorded)} times at depth 0")
            continue

        lon, lat = recorded[0]

        if lon.shape != (256, 256) or lat.shape != (256, 256):
            problems.append(f"{cs.value}: level-0 grid has shape {lon.shape}")
            continue

        # Some pixels in each quadrant, plus the corners of the quadrants.
        pix = []
        for qi in (0, 128):
            for qj in (0, 128):
                pix += [(qi, qj), (qi + 127, qj + 127), (qi, qj + 127), (qi + 127, qj)]
                pix += [
                    (qi + int(a), qj + int(b)) for a, b in rng.integers(0, 128, (6, 2))
                ]

        bad = []
        for i, j in pix:
            wlon, wlat = deep_centre(cs, i, j)
            if not (lon_close(lon[i, j], wlon) and abs(lat[i, j] - wlat) < 1e-9):
                bad.append((i, j, lon[i, j] % TWOPI, lat[i, j], wlon % TWOPI, wlat))

        if bad:
            i, j, glon, glat, wlon, wlat = bad[0]
            msg = (
                f"{cs.value}: {len(bad)} of {len(pix)} checked level-0 pixels are not "
                f"the centre of the level-8 tile (8, col, row); e.g. pixel row {i}, "
                f"col {j} has (lon, lat) = ({glon:.6f}, {glat:.6f}) but tile "
                f"(8,{j},{i}) is centred at ({wlon:.6f}, {wlat:.6f})"
            )
            tlon, tlat = deep_centre(cs, j, i)
            if lon_close(glon, tlon) and abs(glat - tlat) < 1e-9:
                msg += f"; that is the centre of the transposed tile (8,{i},{j})"
            problems.append(msg)


def part_b(problems):
    img = os.path.join(
        os.path.dirname(toasty.__file__),
        "tests",
        "Equirectangular_projection_SW-tweaked.jpg",
    )

    for projection in ("plate-carree", "plate-carree-planet"):
        work = tempfile.mkdtemp()
        try:
            direct = os.path.join(work, "direct")
            cascaded = os.path.join(work, "cascaded")

            common = [
                "tile-allsky",
                "--parallelism=1",
                "--placeholder-thumbnail",
                f"--projection={projection}",
            ]
            cli.entrypoint(common + ["--outdir", direct, img, "0"])
            cli.entrypoint(common + ["--outdir", cascaded, img, "1"])
            cli.entrypoint(["cascade", "--parallelism=1", "--start", "1", cascaded])

            p0 = Pos(0, 0, 0)
            a = PyramidIO(direct).read_image(p0, format="png").asarray()[..., :3]
            b = PyramidIO(cascaded).read_image(p0, format="png").asarray()[..., :3]
            resid = np.abs(a.astype(float) - b.astype(float))

            for name, sl in (
                ("upper-left", (slice(0, 128), slice(0, 128))),
                ("upper-right", (slice(0, 128), slice(128, 256))),
                ("lower-left", (slice(128, 256), slice(0, 128))),
                ("lower-right", (slice(128, 256), slice(128, 256))),
            ):
                m = resid[sl].mean()
                if m > 12:
                    problems.append(
                        f"tile-allsky --projection={projection}: level-0 tile sampled "
                        f"directly differs from the one cascaded from level 1 in the "
                        f"{name} quadrant (mean abs difference {m:.1f} of 255)"
                    )
        finally:
            shutil.rmtree(work, ignore_errors=True)


def main():
    print("testing toasty from", os.path.dirname(toasty.__file__))
    problems = []
    part_a(problems)
    part_b(problems)

    if problems:
        print("FAIL: C05 broken for the directly sampled level-0 tile:")
        for p in problems:
            print("  -", p)
        return 1

    print(
        "OK: level-0 pixels are the centres of the level-8 tiles, and direct and "
        "cascaded level-0 tiles agree"
    )
    return 0


if __name__ == "__main__":
    sys.exit(main())
