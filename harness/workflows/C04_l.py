import os, sys; sys.path.insert(0, os.getcwd())

# C04 demo 1: the tiles that a (filtered / sub-pyramided) `Pyramid` hands to
# its leaf callback must be the same tiles -- same corners, same diagonal
# orientation -- that single-tile construction and full enumeration report
# for the same position, in BOTH TOAST coordinate systems.

import shutil
import tempfile

import numpy as np

import toasty
from toasty.pyramid import Pos, Pyramid, PyramidIO
from toasty.toast import (
    ToastCoordinateSystem,
    create_single_tile,
    generate_tiles,
    sample_layer_filtered,
    toast_tile_get_coords,
)

assert os.path.dirname(os.path.dirname(os.path.abspath(toasty.__file__))) == os.getcwd(), (
    "demo is not testing the worktree it was started from: %s" % toasty.__file__
)

DEPTH = 3
problems = []


def same_tile(a, b):
    if a.pos != b.pos or bool(a.increasing) != bool(b.increasing):
        return False
    return np.allclose(np.asarray(a.corners), np.asarray(b.corners), rtol=0, atol=1e-12)


def collect(pyramid):
    seen = {}

    def cb(pos, tile):
        seen[pos] = tile

    pyramid.visit_leaves(cb, parallel=1)
    return seen


def check(label, coordsys, seen, expected_positions):
    if set(seen) != set(expected_positions):
        problems.append(
            "%s [%s]: visited %d leaf positions, expected %d"
            % (label, coordsys.value, len(seen), len(expected_positions))
        )
        return

    full = {t.pos: t for t in generate_tiles(DEPTH, coordsys=coordsys)}
    nbad = 0
    first = None

    for pos, tile in sorted(seen.items()):
        single = create_single_tile(pos, coordsys=coordsys)
        if not (same_tile(tile, single) and same_tile(tile, full[pos])):
            nbad += 1
            if first is None:
                first = (pos, tile, single)

    if nbad:
        pos, tile, single = first
        problems.append(
            "%s [%s]: %d of %d leaf tiles differ from create_single_tile()/generate_tiles();\n"
            "    e.g. %s: Pyramid gave corners (deg)\n      %s\n    but single-tile construction gives\n      %s"
            % (
                label,
                coordsys.value,
                nbad,
                len(seen),
                pos,
                np.degrees(np.asarray(tile.corners)).round(3).tolist(),
                np.degrees(np.asarray(single.corners)).round(3).tolist(),
            )
        )


all_leaves = [Pos(DEPTH, x, y) for x in range(2**DEPTH) for y in range(2**DEPTH)]
APEX = Pos(1, 0, 1)
sub_leaves = [
    p for p in all_leaves if (p.x >> (DEPTH - 1), p.y >> (DEPTH - 1)) == (APEX.x, APEX.y)
]

for coordsys in (ToastCoordinateSystem.ASTRONOMICAL, ToastCoordinateSystem.PLANETARY):
    # Route A: unfiltered Pyramid
    check(
        "Pyramid.new_toast",
        coordsys,
        collect(Pyramid.new_toast(DEPTH, coordsys=coordsys)),
        all_leaves,
    )

    # Route B: Pyramid with a filter that accepts everything
    check(
        "Pyramid.new_toast_filtered(accept-all)",
        coordsys,
        collect(Pyramid.new_toast_filtered(DEPTH, lambda t: True, coordsys=coordsys)),
        all_leaves,
    )

    # Route C: sub-pyramid of an unfiltered TOAST pyramid
    check(
        "Pyramid.new_toast().subpyramid(%s)" % (APEX,),
        coordsys,
        collect(Pyramid.new_toast(DEPTH, coordsys=coordsys).subpyramid(APEX)),
        sub_leaves,
    )

    # Route D: what a sampler is asked to sample by sample_layer_filtered()
    work = tempfile.mkdtemp()
    try:
        pio = PyramidIO(work, default_format="npy")
        calls = []

        def sampler(lon, lat):
            calls.append((lon.copy(), lat.copy()))
            return np.zeros(lon.shape, dtype=np.float64)

        sample_layer_filtered(
            pio, lambda t: True, sampler, 1, coordsys=coordsys, parallel=1
        )
        want = []
        for t in generate_tiles(1, coordsys=coordsys):
            want.append(toast_tile_get_coords(t))

        def key(c):
            # compare on the unit circle so that 0 == 2pi
            return (
                np.round(np.cos(c[0]) * np.cos(c[1]), 9).tobytes(),
                np.round(np.sin(c[0]) * np.cos(c[1]), 9).tobytes(),
                np.round(c[1], 9).tobytes(),
            )

        if sorted(map(key, calls)) != sorted(map(key, want)):
            problems.append(
                "sample_layer_filtered [%s]: the pixel coordinates handed to the sampler "
                "are not those of the %s level-1 tiles" % (coordsys.value, coordsys.value)
            )
    finally:
        shutil.rmtree(work, ignore_errors=True)

if problems:
    print("C04 VIOLATED: tile geometry depends on the construction route")
    for p in problems:
        print(" - " + p)
    sys.exit(1)

print("ok: Pyramid / filtered Pyramid / sub-pyramid / sample_layer_filtered agree with "
      "create_single_tile and generate_tiles in both coordinate systems")
sys.exit(0)
