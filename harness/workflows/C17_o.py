import os, sys; sys.path.insert(0, os.getcwd())

"""
C17 demo 1: the `toasty pipeline` workflow with a Djangoplicity image source.

Runs `toasty pipeline init` + `toasty pipeline process-todos` in-process on a
work directory whose `cache_todo/` has been filled the way `pipeline fetch`
fills it for a Djangoplicity source (image.<ext> + metadata.json), so no
network access is needed. Then checks, for every processed item, that the
index_rel.wtml that was emitted describes the files that were written:

  * expanding the WTML `Url` template for (level, x, y) gives exactly the
    relative path of every tile file on disk, distinct positions -> distinct
    paths;
  * `FileType` is the extension of the tiles;
  * `TileLevels` is the depth of the deepest populated layer.

Exit status 0 if all of that holds, 1 otherwise.
"""

import json
import shutil
import tempfile
from xml.etree import ElementTree as etree

import numpy as np
from PIL import Image as PILImage

import toasty
from toasty import cli

assert os.path.realpath(toasty.__file__).startswith(
    os.path.realpath(os.getcwd()) + os.sep
), "toasty was not imported from the worktree: " + toasty.__file__

problems = []


def complain(msg):
    problems.append(msg)
    print("PROBLEM:", msg)


def expand(template, level, x, y):
    # The WWT convention: {1} = level, {2} = x, {3} = y
    return (
        template.replace("{1}", str(level))
        .replace("{2}", str(x))
        .replace("{3}", str(y))
    )


def check_outdir(label, outdir):
    """Compare index_rel.wtml in `outdir` with the tile files in `outdir`."""
    wtml_path = os.path.join(outdir, "index_rel.wtml")

    if not os.path.exists(wtml_path):
        complain(f"{label}: no index_rel.wtml was written")
        return

    with open(wtml_path, "rt", encoding="utf8") as f:
        root = etree.fromstring(f.read())

    imgsets = list(root.iter("ImageSet"))
    if len(imgsets) != 1:
        complain(f"{label}: expected 1 ImageSet in the WTML, found {len(imgsets)}")
        return

    url = imgsets[0].get("Url")
    file_type = imgsets[0].get("FileType")
    tile_levels = int(imgsets[0].get("TileLevels"))
    print(f"{label}: WTML says Url={url!r} FileType={file_type!r} TileLevels={tile_levels}")

    # What is actually on disk? Everything except the metadata files is a tile.
    on_disk = set()
    for dirpath, _dirnames, filenames in os.walk(outdir):
        for fn in filenames:
            rel = os.path.relpath(os.path.join(dirpath, fn), outdir).replace(os.sep, "/")
            if rel in ("index_rel.wtml", "index.wtml", "thumb.jpg"):
                continue
            on_disk.add(rel)

    if not on_disk:
        complain(f"{label}: no tiles on disk at all")
        return

    # Expand the template for every position down to a generous depth.
    max_depth = max(tile_levels, 5)
    path_to_pos = {}
    collision = None
    for level in range(max_depth + 1):
        n = 2**level
        for y in range(n):
            for x in range(n):
                p = expand(url, level, x, y)
                if p in path_to_pos and collision is None:
                    collision = (path_to_pos[p], (level, x, y), p)
                path_to_pos.setdefault(p, (level, x, y))

    if collision is not None:
        complain(
            f"{label}: template {url!r} maps distinct positions {collision[0]} and "
            f"{collision[1]} to the same path {collision[2]!r}"
        )

    unmatched = sorted(p for p in on_disk if p not in path_to_pos)
    if unmatched:
        complain(
            f"{label}: {len(unmatched)} of {len(on_disk)} tile files on disk are not "
            f"reachable through the WTML Url template {url!r}, e.g. {unmatched[:3]}"
        )

    matched = [path_to_pos[p] for p in on_disk if p in path_to_pos]
    if matched:
        deepest = max(pos[0] for pos in matched)
    else:
        # fall back to the file names so that we can still report something
        deepest = None

    if deepest is not None and deepest != tile_levels:
        complain(
            f"{label}: WTML TileLevels={tile_levels} but the deepest populated "
            f"layer on disk is {deepest}"
        )

    if matched and (0, 0, 0) not in matched:
        complain(f"{label}: the level-0 tile {expand(url, 0, 0, 0)!r} is not on disk")

    exts = set(os.path.splitext(p)[1] for p in on_disk)
    if exts != {file_type}:
        complain(f"{label}: WTML FileType={file_type!r} but tile extensions are {sorted(exts)}")

    print(f"{label}: {len(on_disk)} tile files on disk, {len(matched)} matched by the template")


def make_image(path, width, height):
    yy, xx = np.indices((height, width))
    arr = np.empty((height, width, 3), dtype=np.uint8)
    arr[..., 0] = 40 + (xx * 200 // width)
    arr[..., 1] = 40 + (yy * 200 // height)
    arr[..., 2] = 90
    PILImage.fromarray(arr).save(path)


def make_metadata(ident, ext, width, height):
    # The subset of the Djangoplicity "api/json" record that toasty uses,
    # plus the key that `fetch_candidate` adds.
    return {
        "ID": ident,
        "Title": f"Demo image {ident}",
        "Description": "A synthetic test image.",
        "Credit": "Demo Observatory",
        "ReferenceURL": f"https://demo.example.org/public/images/{ident}/",
        "Date": "2020-01-02T03:04:05",
        "Spatial.CoordsystemProjection": "TAN",
        "Spatial.ReferenceValue": ["83.63", "22.01"],
        "Spatial.ReferenceDimension": [str(width), str(height)],
        "Spatial.ReferencePixel": [str(width / 2), str(height / 2)],
        "Spatial.Scale": ["-0.0002", "0.0002"],
        "Spatial.Rotation": "12.5",
        "toasty_image_extension": ext,
    }


ITEMS = [
    ("demo0001a", "jpg", 600, 400),  # three tile levels (0..2)
    ("demo0002b", "png", 300, 500),  # two tile levels (0..1)
    ("demo0003c", "jpg", 200, 120),  # fits into a single tile
]

tmp = tempfile.mkdtemp(prefix="c17demo1_")

try:
    repo = os.path.join(tmp, "repo")
    work = os.path.join(tmp, "work")
    os.makedirs(repo)

    with open(os.path.join(repo, "toasty-pipeline-config.yaml"), "wt") as f:
        f.write(
            "source_type: djangoplicity\n"
            "publish_url_prefix: //localhost/\n"
            "folder_name: Demo\n"
            "djangoplicity:\n"
            "  base_url: https://demo.example.org/public/images/\n"
            "  channel_name: Demo Channel\n"
        )

    cli.entrypoint(["pipeline", "init", "--local", repo, work])

    # What `pipeline refresh` + `pipeline fetch` leave behind:
    os.makedirs(os.path.join(work, "candidates"))

    for ident, ext, width, height in ITEMS:
        with open(os.path.join(work, "candidates", ident), "wt") as f:
            json.dump({"id": ident}, f)

        cachedir = os.path.join(work, "cache_todo", ident)
        os.makedirs(cachedir)
        make_image(os.path.join(cachedir, "image." + ext), width, height)

        with open(os.path.join(cachedir, "metadata.json"), "wt", encoding="utf8") as f:
            json.dump(make_metadata(ident, ext, width, height), f)

    cli.entrypoint(["pipeline", "process-todos", "--workdir", work])

    for ident, _ext, _w, _h in ITEMS:
        check_outdir(ident, os.path.join(work, "processed", ident))
finally:
    shutil.rmtree(tmp, ignore_errors=True)

if problems:
    print()
    print(f"FAIL: {len(problems)} problem(s): the WTML does not describe the files on disk")
    sys.exit(1)

print()
print("OK: every index_rel.wtml matches the tiles on disk")
sys.exit(0)
