import os, sys; sys.path.insert(0, os.getcwd())

"""
C14 demonstration: in a cascaded FITS pyramid the DATAMIN/DATAMAX of every tile
(and the DataMin/DataMax that reach the WTML) must be the finite min/max over
all leaf tiles beneath it.

Part 1 builds sparse depth-3 pyramids whose leaves are written by toasty's own
PyramidIO.write_image, cascades them through Builder.cascade (serially and
with 2 workers), and compares every tile header and the WTML with the leaves.
The leaf data are ordinary "counts"-like images: non-negative, with isolated
pixels that are exactly 0 (and, in a second run, the sign-flipped data whose
maximum is exactly 0).

Part 2 does the same end-to-end through toasty.tile_fits on a synthetic
TAN-projected FITS image.

Exit status 0 = property holds; 1 = violated.
"""

import shutil
import tempfile
import warnings
from xml.etree import ElementTree as etree

import numpy as np
from astropy.io import fits

import toasty
from toasty.builder import Builder
from toasty.image import Image
from toasty.pyramid import Pos, PyramidIO

warnings.simplefilter("ignore")

print("toasty under test:", os.path.dirname(toasty.__file__))

DEPTH = 3
problems = []


def complain(msg):
    print("PROBLEM:", msg)
    problems.append(msg)


def make_leaves(sign):
    """Leaf arrays for a sparse depth-3 pyramid, keyed by (x, y)."""
    rng = np.random.RandomState(20240614)
    leaves = {}

    # One fully populated quartet, three partially populated ones, and large
    # empty regions.
    positions = [
        (0, 0), (1, 0), (0, 1), (1, 1),
        (2, 0),
        (6, 6), (7, 7),
        (0, 5), (1, 5), (1, 4),
        (5, 2),
    ]

    for i, (x, y) in enumerate(positions):
        # strictly positive background between 1 and 9 ...
        arr = rng.uniform(1.0, 9.0, size=(256, 256)).astype(np.float32)
        # ... a few isolated pixels that are exactly zero (in most leaves) ...
        if i % 4 != 3:
            arr[37 + i, 101] = 0.0
            arr[200, 13 + 2 * i] = 0.0
        # ... one very bright pixel somewhere ...
        arr[5, 7 + i] = 100.0 + i
        # ... and NaN regions.
        arr[128:140, :] = np.nan
        if i % 3 == 0:
            arr[:, :64] = np.nan
        leaves[(x, y)] = sign * arr

    # An all-NaN leaf: toasty does not write such a tile at all.
    leaves[(3, 3)] = np.full((256, 256), np.nan, dtype=np.float32)
    return leaves


def expected_range(leaves, pos):
    """Finite min/max over all leaves beneath `pos` (None if there are none)."""
    shift = DEPTH - pos.n
    vals = []
    for (x, y), arr in leaves.items():
        if (x >> shift) == pos.x and (y >> shift) == pos.y:
            good = arr[np.isfinite(arr)]
            if good.size:
                vals.append((good.min(), good.max()))
    if not vals:
        return None
    return (np.float32(min(v[0] for v in vals)), np.float32(max(v[1] for v in vals)))


def check_pyramid(label, pio, leaves):
    n_checked = 0
    for n in range(DEPTH + 1):
        for y in range(2**n):
            for x in range(2**n):
                pos = Pos(n, x, y)
                exp = expected_range(leaves, pos)
                path = pio.tile_path(pos, makedirs=False)

                if exp is None:
                    if os.path.exists(path):
                        complain(f"{label}: tile {pos} exists but has no finite leaf data beneath it")
                    continue

                if not os.path.exists(path):
                    complain(f"{label}: tile {pos} is missing")
                    continue

                with fits.open(path) as hdul:
                    hdr = hdul[0].header
                    got = (hdr.get("DATAMIN"), hdr.get("DATAMAX"))

                n_checked += 1
                for name, g, e in zip(("DATAMIN", "DATAMAX"), got, exp):
                    if g is None or np.float32(g) != e:
                        complain(
                            f"{label}: tile L{pos.n} x={pos.x} y={pos.y}: {name}={g!r}, "
                            f"but the leaves beneath it have {name.lower()[4:]} {float(e)!r}"
                        )
    return n_checked


def wtml_range(path):
    root = etree.parse(path).getroot()
    imgsets = list(root.iter("ImageSet"))
    assert len(imgsets) == 1, imgsets
    # wwt_data_formats omits these attributes when they are zero
    return (
        float(imgsets[0].attrib.get("DataMin", 0.0)),
        float(imgsets[0].attrib.get("DataMax", 0.0)),
    )


def part1(workdir):
    for sign, signlabel in ((+1.0, "non-negative data"), (-1.0, "non-positive data")):
        leaves = make_leaves(sign)

        for parallel in (1, 2):
            label = f"[{signlabel}, parallel={parallel}]"
            outdir = os.path.join(workdir, f"pyr_{'p' if sign > 0 else 'n'}_{parallel}")
            pio = PyramidIO(outdir, default_format="fits")

            for (x, y), arr in leaves.items():
                pio.write_image(Pos(DEPTH, x, y), Image.from_array(arr.copy()))

            bld = Builder(pio)
            bld.imgset.tile_levels = DEPTH
            bld.cascade(parallel=parallel)
            bld.write_index_rel_wtml()

            n = check_pyramid(label, pio, leaves)
            exp = expected_range(leaves, Pos(0, 0, 0))

            got = (np.float32(bld.imgset.data_min), np.float32(bld.imgset.data_max))
            if got != exp:
                complain(
                    f"{label}: Builder imgset range {tuple(map(float, got))} != "
                    f"leaf range {tuple(map(float, exp))}"
                )

            got = tuple(np.float32(v) for v in wtml_range(os.path.join(outdir, "index_rel.wtml")))
            if got != exp:
                complain(
                    f"{label}: WTML DataMin/DataMax {tuple(map(float, got))} != "
                    f"leaf range {tuple(map(float, exp))}"
                )

            print(f"{label}: checked {n} tiles; leaf range {tuple(map(float, exp))}")


def part2(workdir):
    # A 700x600 TAN image of "counts": positive everywhere except for a handful
    # of isolated zero pixels, with a NaN border strip.
    rng = np.random.RandomState(7)
    data = rng.uniform(2.0, 50.0, size=(600, 700)).astype(np.float32)
    for k in range(12):
        data[25 + 47 * k, 31 + 53 * k] = 0.0
    data[:, :9] = np.nan
    data[300, 400] = 1234.5

    hdr = fits.Header()
    hdr["CTYPE1"] = "RA---TAN"
    hdr["CTYPE2"] = "DEC--TAN"
    hdr["CRVAL1"] = 83.6
    hdr["CRVAL2"] = 22.0
    hdr["CRPIX1"] = 350.0
    hdr["CRPIX2"] = 300.0
    hdr["CDELT1"] = -0.0002
    hdr["CDELT2"] = 0.0002
    hdr["CUNIT1"] = "deg"
    hdr["CUNIT2"] = "deg"

    src = os.path.join(workdir, "counts.fits")
    fits.writeto(src, data, header=hdr)

    out_dir, bld = toasty.tile_fits(
        src,
        out_dir=os.path.join(workdir, "counts_tiled"),
        tiling_method=toasty.TilingMethod.TAN,
        parallel=1,
    )

    good = data[np.isfinite(data)]
    exp = (np.float32(good.min()), np.float32(good.max()))
    label = "[tile_fits TAN]"

    with fits.open(os.path.join(out_dir, "0", "0", "0_0.fits")) as hdul:
        got = (hdul[0].header.get("DATAMIN"), hdul[0].header.get("DATAMAX"))

    if got[0] is None or got[1] is None or (np.float32(got[0]), np.float32(got[1])) != exp:
        complain(f"{label}: root tile DATAMIN/DATAMAX {got} != data range {tuple(map(float, exp))}")

    got = (np.float32(bld.imgset.data_min), np.float32(bld.imgset.data_max))
    if got != exp:
        complain(
            f"{label}: returned imgset range {tuple(map(float, got))} != data range {tuple(map(float, exp))}"
        )

    got = tuple(np.float32(v) for v in wtml_range(os.path.join(out_dir, "index_rel.wtml")))
    if got != exp:
        complain(
            f"{label}: WTML DataMin/DataMax {tuple(map(float, got))} != data range {tuple(map(float, exp))}"
        )

    print(f"{label}: levels={bld.imgset.tile_levels}; data range {tuple(map(float, exp))}")


def main():
    workdir = tempfile.mkdtemp(prefix="c14demo_")
    try:
        part1(workdir)
        part2(workdir)
    finally:
        shutil.rmtree(workdir, ignore_errors=True)

    if problems:
        print(f"\nFAIL: {len(problems)} violation(s) of C14")
        return 1

    print("\nOK: every tile header and the WTML carry the leaves' true data range")
    return 0


if __name__ == "__main__":
    sys.exit(main())
