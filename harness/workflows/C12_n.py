import os, sys; sys.path.insert(0, os.getcwd())

# Demonstration for C12: the tile returned by toast_tile_for_point must contain
# the point, tiles for increasing depths must be nested, and longitudes that
# differ by multiples of 2*pi must give the same answer -- in every quadrant and
# in both coordinate systems.
#
# The containment check here is done with this file's own lat/lon -> unit
# vector conversion applied to the corners of the returned tile, so it does not
# depend on toasty's internal helpers.
#
# Exits 0 if everything holds, 1 (after printing the offending points) if not.

import math

import numpy as np

import toasty
from toasty.toast import (
    ToastCoordinateSystem,
    toast_pixel_for_point,
    toast_tile_for_point,
    toast_tile_get_coords,
)

TOL = 1e-9
MAX_DEPTH = 7


def xyz(lon, lat):
    cl = math.cos(lat)
    return np.array([math.cos(lon) * cl, math.sin(lat), math.sin(lon) * cl])


def outside_by(tile, lat, lon):
    """How far (as a sine of an angle, roughly radians) the point is outside of
    the spherical quadrilateral spanned by the tile corners; 0 if inside."""
    p = xyz(lon, lat)
    c = [xyz(cc[0], cc[1]) for cc in tile.corners]
    worst = 0.0
    for i in range(4):
        a, b = c[i], c[(i + 1) % 4]
        nrm = np.cross(a, b)
        ln = np.linalg.norm(nrm)
        if ln < 1e-14:
            continue
        worst = min(worst, float(np.dot(nrm / ln, p)))
    return -worst


def angdist(lons, lats, lon, lat):
    c = np.sin(lats) * math.sin(lat) + np.cos(lats) * math.cos(lat) * np.cos(lons - lon)
    return np.arccos(np.clip(c, -1, 1))


def main():
    print("toasty imported from", os.path.dirname(toasty.__file__))
    problems = []

    lats_deg = [-90, -89, -72.5, -33.3, -1e-3, 0, 12.25, 45, 80, 89, 90]
    lons_deg = [
        0, 1e-4, 10, 45, 77, 90, 101, 135, 180, 185.5, 225, 260,
        270, 271, 288.8, 315, 337.5, 345, 352, 359.999,
    ]

    for coordsys in (ToastCoordinateSystem.ASTRONOMICAL, ToastCoordinateSystem.PLANETARY):
        for lat_d in lats_deg:
            lat = math.radians(lat_d)
            for lon_d in lons_deg:
                lon = math.radians(lon_d)
                prev = None

                for depth in range(0, MAX_DEPTH + 1):
                    tile = toast_tile_for_point(depth, lat, lon, coordsys=coordsys)

                    if tile.pos.n != depth:
                        problems.append(
                            f"{coordsys.value} lat={lat_d} lon={lon_d} depth={depth}: "
                            f"got a tile of level {tile.pos.n}"
                        )

                    if depth >= 1:
                        miss = outside_by(tile, lat, lon)
                        if miss > TOL:
                            problems.append(
                                f"{coordsys.value} lat={lat_d} lon={lon_d} depth={depth}: "
                                f"tile {tuple(tile.pos)} does NOT contain the point "
                                f"(outside by {miss:.3e} rad; tile size ~{math.pi / 2 / 2 ** (depth - 1):.3e} rad)"
                            )

                    if prev is not None and depth >= 2:
                        if (tile.pos.x >> 1, tile.pos.y >> 1) != (prev.pos.x, prev.pos.y):
                            problems.append(
                                f"{coordsys.value} lat={lat_d} lon={lon_d}: tile at depth {depth} "
                                f"{tuple(tile.pos)} is not nested in the one at depth {depth - 1} {tuple(prev.pos)}"
                            )
                    prev = tile

                # 2*pi periodicity at one depth
                t0 = toast_tile_for_point(6, lat, lon, coordsys=coordsys)
                for k in (-1, 1, 2):
                    t1 = toast_tile_for_point(6, lat, lon + k * 2 * math.pi, coordsys=coordsys)
                    if tuple(t1.pos) != tuple(t0.pos) and outside_by(t1, lat, lon) > TOL:
                        problems.append(
                            f"{coordsys.value} lat={lat_d} lon={lon_d}{k:+d}*360: tile {tuple(t1.pos)} "
                            f"differs from {tuple(t0.pos)} and does not contain the point"
                        )

        # Fractional pixel vs. brute-force nearest pixel centre, away from the poles.
        for lat_d in (-72.5, -10, 0.7, 45, 80):
            for lon_d in (10, 101, 185.5, 288.8, 337.5, 352, 359):
                lat, lon = math.radians(lat_d), math.radians(lon_d)
                depth = 4
                tile, fx, fy = toast_pixel_for_point(depth, lat, lon, coordsys=coordsys)
                miss = outside_by(tile, lat, lon)
                lons, lats = toast_tile_get_coords(tile)
                d = angdist(lons, lats, lon, lat)
                iy, ix = np.unravel_index(np.argmin(d), d.shape)
                pixsize = math.pi / 2 / 2 ** (depth - 1) / 256
                if miss > TOL or d[iy, ix] > 2 * pixsize:
                    problems.append(
                        f"{coordsys.value} lat={lat_d} lon={lon_d} depth={depth}: pixel lookup landed in tile "
                        f"{tuple(tile.pos)} whose nearest pixel centre is {d[iy, ix] / pixsize:.1f} pixels "
                        f"away from the point (outside by {miss:.3e} rad)"
                    )
                elif abs(fx - ix) > 2 or abs(fy - iy) > 2:
                    problems.append(
                        f"{coordsys.value} lat={lat_d} lon={lon_d} depth={depth}: fractional pixel "
                        f"({fx:.2f}, {fy:.2f}) is more than 2 px from nearest centre ({ix}, {iy})"
                    )

    if problems:
        print(f"C12 VIOLATED: {len(problems)} problem(s); first ones:")
        for p in problems[:25]:
            print("  " + p)
        bad_lons = sorted({p.split("lon=")[1].split()[0].rstrip(":") for p in problems})
        print("longitudes involved (deg):", ", ".join(bad_lons))
        return 1

    print("OK: every looked-up tile contains its point, tiles are nested, 2*pi shifts agree, pixels are consistent")
    return 0


if __name__ == "__main__":
    sys.exit(main())
