import os, sys; sys.path.insert(0, os.getcwd())

# Demo for C20: tile_fits() with a per-file list of HDU indexes / WCS keys.
#
# Two multi-extension FITS files are written, every image HDU filled with its
# own constant value.  The files are passed to toasty.tile_fits() in an order
# that is NOT alphabetical ("b_field.fits" first, "a_field.fits" second)
# together with a per-file `hdu_index` list (and then a per-file `wcs_key`
# list).  The pixel values / positions found in the resulting tile pyramid tell
# which HDU and which WCS solution each file actually contributed.
#
# Exit status 0: every file contributed the HDU / WCS the user selected for it.
# Exit status 1: some file contributed something else (details are printed).

import shutil
import tempfile
import warnings

import numpy as np
from astropy.io import fits

import toasty
from toasty import TilingMethod, tile_fits
from toasty.collection import load
from toasty.pyramid import PyramidIO, Pos

N = 256  # each input image is exactly one tile


def header(crpix1, crpix1_alt):
    """Common TAN grid.  Primary WCS puts the image at `crpix1`; the alternate
    solution "A" puts it at `crpix1_alt` (i.e. N pixels further right when
    crpix1_alt = crpix1 - N)."""
    h = fits.Header()
    for key, cp1 in ((" ", crpix1), ("A", crpix1_alt)):
        k = key.strip()
        h["CTYPE1" + k] = "RA---TAN"
        h["CTYPE2" + k] = "DEC--TAN"
        h["CRVAL1" + k] = 30.0
        h["CRVAL2" + k] = 10.0
        h["CDELT1" + k] = -0.001
        h["CDELT2" + k] = 0.001
        h["CRPIX1" + k] = float(cp1)
        h["CRPIX2" + k] = 128.5
    return h


def write_mef(path, values, crpix1, crpix1_alt):
    hdus = [fits.PrimaryHDU()]
    for v in values:
        hdus.append(
            fits.ImageHDU(
                data=np.full((N, N), float(v), dtype=np.float32),
                header=header(crpix1, crpix1_alt),
            )
        )
    fits.HDUList(hdus).writeto(path, overwrite=True)


def mosaic_columns(out_dir, bld):
    """Return {value: sorted list of tile x-positions where it occurs} for the
    deepest level of the pyramid in `out_dir`."""
    pio = PyramidIO(out_dir, default_format="fits")
    lev = bld.imgset.tile_levels
    found = {}
    for iy in range(2**lev):
        for ix in range(2**lev):
            img = pio.read_image(Pos(lev, ix, iy), default="none", format="fits")
            if img is None:
                continue
            arr = img.asarray()
            for v in np.unique(arr[np.isfinite(arr)]):
                found.setdefault(float(v), set()).add(ix)
    return {v: sorted(xs) for v, xs in found.items()}


def main():
    problems = []
    work = tempfile.mkdtemp(prefix="c20demo_")

    try:
        # NOTE the names: the file listed FIRST sorts AFTER the second one.
        path_b = os.path.join(work, "b_field.fits")
        path_a = os.path.join(work, "a_field.fits")

        # b_field: HDU1 = 11, HDU2 = 12 ; a_field: HDU1 = 21, HDU2 = 22
        # Primary WCS: b occupies the left tile, a the right tile.
        write_mef(path_b, (11, 12), crpix1=128.5, crpix1_alt=128.5 - N)
        write_mef(path_a, (21, 22), crpix1=128.5 - N, crpix1_alt=128.5 - 2 * N)

        inputs = [path_b, path_a]

        with warnings.catch_warnings():
            warnings.simplefilter("ignore")

            # ---- 1. per-file HDU list through tile_fits --------------------
            hdu_sel = [1, 2]  # b_field -> HDU 1 (11), a_field -> HDU 2 (22)
            expected_vals = {11.0, 22.0}

            # What the collection itself says for this selection:
            coll = load(inputs, hdu_index=hdu_sel)
            coll_vals = {float(np.unique(i.asarray())[0]) for i in coll.images()}
            assert coll_vals == expected_vals, coll_vals

            out1 = os.path.join(work, "out_hdu")
            out_dir, bld = tile_fits(
                list(inputs),
                out_dir=out1,
                hdu_index=list(hdu_sel),
                tiling_method=TilingMethod.TAN,
                parallel=1,
                override=True,
            )
            cols = mosaic_columns(out_dir, bld)
            print("tile_fits(%r, hdu_index=%r)" % ([os.path.basename(p) for p in inputs], hdu_sel))
            print("   pixel values in the deepest level:", sorted(cols))
            if set(cols) != expected_vals:
                problems.append(
                    "hdu_index=%r for [b_field, a_field]: expected the pyramid to hold "
                    "values %s (b_field HDU 1, a_field HDU 2) but it holds %s"
                    % (hdu_sel, sorted(expected_vals), sorted(cols))
                )

            # ---- 2. per-file WCS-key list through tile_fits ----------------
            # b_field uses solution "A" (shifted one tile right -> column 1),
            # a_field uses the primary solution (column 1 as well), so with the
            # user's choice both land in the same single column; the mosaic is
            # one tile wide.  If the keys go to the wrong files, b_field stays
            # in column 0 and a_field moves to column 2: a three-tile-wide mosaic.
            key_sel = ["A", " "]
            out2 = os.path.join(work, "out_key")
            out_dir, bld = tile_fits(
                list(inputs),
                out_dir=out2,
                hdu_index=1,
                wcs_key=list(key_sel),
                tiling_method=TilingMethod.TAN,
                parallel=1,
                override=True,
            )
            descs = list(load(inputs, hdu_index=1, wcs_key=key_sel).descriptions())
            exp_crpix = [float(d.wcs.wcs.crpix[0]) for d in descs]
            print("tile_fits(%r, hdu_index=1, wcs_key=%r)" % ([os.path.basename(p) for p in inputs], key_sel))
            print("   CRPIX1 selected per file (collection):", exp_crpix)
            print("   pyramid depth:", bld.imgset.tile_levels)
            # both images coincide -> a single 256x256 tile -> depth 0
            if bld.imgset.tile_levels != 0:
                problems.append(
                    "wcs_key=%r for [b_field, a_field]: both images should coincide "
                    "(a one-tile mosaic, depth 0) but the pyramid has depth %d: the "
                    "keys were applied to the wrong files" % (key_sel, bld.imgset.tile_levels)
                )

            # ---- 3. default output directory still names the FIRST input ---
            out_dir, bld = tile_fits(
                list(inputs),
                hdu_index=list(hdu_sel),
                tiling_method=TilingMethod.TAN,
                parallel=1,
                override=True,
            )
            cols = mosaic_columns(out_dir, bld)
            print("default out_dir:", os.path.basename(out_dir), " values:", sorted(cols))
            if set(cols) != expected_vals:
                problems.append(
                    "default out_dir run: expected values %s, got %s"
                    % (sorted(expected_vals), sorted(cols))
                )
    finally:
        shutil.rmtree(work, ignore_errors=True)

    if problems:
        print()
        print("C20 VIOLATED (toasty from %s):" % os.path.dirname(toasty.__file__))
        for p in problems:
            print("  -", p)
        return 1

    print("OK: every file contributed the HDU and WCS solution selected for it")
    return 0


if __name__ == "__main__":
    sys.exit(main())
