import os, sys; sys.path.insert(0, os.getcwd())

"""
C09 demo 2: the result of a multi-process tiling run must not depend on how
long it takes to hand an input over to the worker processes.

Three sub-images of one mosaic share a TAN grid and are tiled with
``MultiTanProcessor.tile(pio, parallel=2)``. The deepest-level tiles must equal
the ones obtained by tiling the assembled mosaic serially.

In a parallel run the main process pushes every ``(image, descriptor)`` pair
through a ``multiprocessing.Queue``; a background "feeder" thread serialises
each item and writes it into the pipe that the workers read from. For a big
input (toasty is meant for multi-gigabyte mosaics) serialising takes seconds.
To make that deterministic with small test data, the *last* image handed out
by the collection is given a ``__reduce_ex__`` that sleeps for a few seconds
before pickling as usual -- i.e. it merely is slow to serialise. Nothing in
toasty is patched.

Run as:  cd <worktree> && /venv/bin/python /tmp/seed_C09_out/demo2.py
"""

import shutil
import signal
import tempfile
import time
import warnings

import numpy as np
from astropy.io import fits

warnings.simplefilter("ignore")

import toasty
from toasty import par_util
from toasty.builder import Builder
from toasty.collection import ImageCollection, SimpleFitsCollection
from toasty.image import Image
from toasty.multi_tan import MultiTanProcessor
from toasty.pyramid import PyramidIO

par_util.SHOW_INFORMATIONAL_MESSAGES = False

W, H = 300, 100  # mosaic size; three 100x100 pieces side by side
CRPIX1, CRPIX2 = 150.5, 50.5
SERIALISE_DELAY = 5.0  # seconds
WATCHDOG = 120  # seconds


def header(crpix1, crpix2):
    h = fits.Header()
    h["CTYPE1"] = "RA---TAN"
    h["CTYPE2"] = "DEC--TAN"
    h["CRVAL1"] = 10.0
    h["CRVAL2"] = 20.0
    h["CDELT1"] = -0.001
    h["CDELT2"] = 0.001
    h["CRPIX1"] = crpix1
    h["CRPIX2"] = crpix2
    return h


def write(path, data, x0, y0):
    fits.writeto(path, data, header(CRPIX1 - x0, CRPIX2 - y0), overwrite=True)


class SlowToSerialiseImage(Image):
    """An Image that takes a while to pickle, like a very large one does."""

    def __reduce_ex__(self, protocol):
        time.sleep(SERIALISE_DELAY)
        return super().__reduce_ex__(protocol)


class LastOneIsSlow(ImageCollection):
    """Same collection, but the last image handed out is slow to serialise."""

    def __init__(self, inner, n):
        self._inner = inner
        self._n = n

    def descriptions(self):
        return self._inner.descriptions()

    def images(self):
        for k, img in enumerate(self._inner.images()):
            if k == self._n - 1:
                img.__class__ = SlowToSerialiseImage
            yield img


def deepest_tiles(out_dir, levels):
    tiles = {}
    locks = []
    for root, _dirs, files in os.walk(out_dir):
        for f in files:
            full = os.path.join(root, f)
            rel = os.path.relpath(full, out_dir)
            if f.endswith(".lock"):
                locks.append(rel)
            elif f.endswith(".fits") and rel.split(os.sep)[0] == str(levels):
                with fits.open(full) as hdul:
                    tiles[rel] = np.array(hdul[0].data)
    return tiles, locks


def tile(coll, out_dir, parallel):
    pio = PyramidIO(out_dir, default_format="fits")
    bld = Builder(pio)
    proc = MultiTanProcessor(coll)
    proc.compute_global_pixelization(bld)
    proc.tile(pio, parallel=parallel)
    bld.write_index_rel_wtml()
    return bld


def on_alarm(_signum, _frame):
    print(f"C09 VIOLATED: the tiling run did not finish within {WATCHDOG} s (hang)")
    sys.stdout.flush()
    os._exit(3)


def main():
    print("toasty imported from", os.path.dirname(toasty.__file__))
    signal.signal(signal.SIGALRM, on_alarm)
    signal.alarm(WATCHDOG)

    work = tempfile.mkdtemp(prefix="c09demo2_")
    problems = []

    try:
        rng = np.random.default_rng(9092)
        full = rng.uniform(1.0, 2.0, size=(H, W)).astype(np.float32)

        pm = os.path.join(work, "mosaic.fits")
        write(pm, full, 0, 0)

        pieces = []
        for k in range(3):
            p = os.path.join(work, f"piece{k}.fits")
            write(p, full[:, 100 * k : 100 * (k + 1)].copy(), 100 * k, 0)
            pieces.append(p)

        ref_dir = os.path.join(work, "ref")
        ref_bld = tile(SimpleFitsCollection([pm]), ref_dir, 1)
        ref_levels = ref_bld.imgset.tile_levels
        ref_tiles, _ = deepest_tiles(ref_dir, ref_levels)
        assert ref_levels == 1 and len(ref_tiles) == 4, (ref_levels, sorted(ref_tiles))

        for parallel in (2, 4):
            label = f"parallel={parallel}"
            coll = LastOneIsSlow(SimpleFitsCollection(pieces), len(pieces))
            out_dir = os.path.join(work, f"out{parallel}")
            t0 = time.time()
            bld = tile(coll, out_dir, parallel)
            print(f"{label}: tile() returned after {time.time() - t0:.1f} s")

            if bld.imgset.tile_levels != ref_levels:
                problems.append(
                    f"[{label}] tile levels {bld.imgset.tile_levels} vs {ref_levels}"
                )

            tiles, locks = deepest_tiles(out_dir, bld.imgset.tile_levels)

            if locks:
                problems.append(f"[{label}] lock files left behind: {locks}")

            if sorted(tiles) != sorted(ref_tiles):
                problems.append(
                    f"[{label}] deepest-level tile set {sorted(tiles)} differs from "
                    f"the mosaic's {sorted(ref_tiles)}"
                )

            for rel in sorted(set(tiles) & set(ref_tiles)):
                got = tiles[rel]
                want = ref_tiles[rel]
                bad = ~((got == want) | (np.isnan(got) & np.isnan(want)))
                if bad.any():
                    n_missing = int((bad & np.isnan(got) & np.isfinite(want)).sum())
                    problems.append(
                        f"[{label}] {rel}: {int(bad.sum())} pixels differ from the "
                        f"mosaic's tile; {n_missing} of them are undefined although an "
                        f"input defines them (an input never reached a worker)"
                    )
    finally:
        shutil.rmtree(work, ignore_errors=True)

    signal.alarm(0)

    if problems:
        print("C09 VIOLATED: parallel tiling of the pieces != tiling the mosaic")
        for p in problems:
            print("  -", p)
        return 1

    print("OK: parallel tiling matches the assembled mosaic even with a slow hand-over")
    return 0


if __name__ == "__main__":
    code = main()
    sys.stdout.flush()
    sys.stderr.flush()
    # Skip interpreter teardown: a feeder thread that is still busy must not be
    # able to turn the verdict into a hang.
    os._exit(code)
