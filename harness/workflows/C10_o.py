import os, sys; sys.path.insert(0, os.getcwd())

"""
C10 demo 1: several processes update ONE tile of a fresh pyramid at the same
time through PyramidIO.update_image(); every one of them must end up in the
final tile.

Each of N_PROCS child processes writes its own horizontal band (value k+1) into
tile (3, 5, 2) of an empty pyramid using the read-modify-write interface, the
way toasty.multi_tan / toasty.multi_wcs / toasty.toast do.  The parent then
reads the tile back and checks that all N_PROCS bands are present and that all
children finished without error.

Determinism: the children are released together by a barrier, and (in the
children only) os.path.isdir is wrapped so that a "no such directory" answer
for a path inside the pyramid is returned DELAY seconds late.  That only widens
the window between "look whether the tile's directory exists" and "create it";
it changes no result.  Code that creates the directory race-free
(os.makedirs(..., exist_ok=True)) is unaffected by the delay; code that does
check-then-create lets all children see "missing" and all but one of them then
fail in os.makedirs() with FileExistsError before ever reaching the lock, so
their contributions never make it into the tile.

Exit status 0: every contribution present.  Non-zero: something was lost.
"""

import multiprocessing as mp
import shutil
import tempfile
import time

import numpy as np

import toasty
from toasty.image import Image, ImageMode
from toasty.pyramid import Pos, PyramidIO

N_PROCS = 4
BAND = 256 // N_PROCS
POS = Pos(3, 5, 2)
DELAY = 0.5


def child(k, base, barrier):
    real_isdir = os.path.isdir

    def slow_isdir(p):
        r = real_isdir(p)
        try:
            inside = os.fspath(p).startswith(base)
        except TypeError:
            inside = False
        if inside and not r:
            time.sleep(DELAY)
        return r

    os.path.isdir = slow_isdir

    pio = PyramidIO(base, default_format="fits")
    contribution = Image.from_array(np.full((BAND, 256), k + 1, dtype=np.float32))
    barrier.wait()

    with pio.update_image(POS, masked_mode=ImageMode.F32, default="masked") as basis:
        contribution.update_into_maskable_buffer(
            basis,
            slice(None),
            slice(None),
            slice(k * BAND, (k + 1) * BAND),
            slice(None),
        )


def main():
    print("toasty under test:", os.path.dirname(toasty.__file__))
    ctx = mp.get_context("fork")
    work = tempfile.mkdtemp(prefix="c10demo1_")
    base = os.path.join(work, "pyramid")
    problems = []

    try:
        barrier = ctx.Barrier(N_PROCS)
        procs = [ctx.Process(target=child, args=(k, base, barrier)) for k in range(N_PROCS)]
        for p in procs:
            p.start()
        for p in procs:
            p.join(120)

        for k, p in enumerate(procs):
            if p.is_alive():
                p.kill()
                problems.append(f"updater {k} did not finish")
            elif p.exitcode != 0:
                problems.append(f"updater {k} died (exit code {p.exitcode})")

        final = PyramidIO(base, default_format="fits").read_image(POS)

        if final is None:
            problems.append("the tile was not written at all")
        else:
            arr = np.asarray(final.asarray())
            for k in range(N_PROCS):
                band = arr[k * BAND : (k + 1) * BAND]
                if not np.all(band == k + 1):
                    n_bad = int(np.sum(band != k + 1))
                    problems.append(
                        f"contribution of updater {k} is missing from the final tile "
                        f"({n_bad} of {band.size} pixels are not {k + 1})"
                    )
    finally:
        shutil.rmtree(work, ignore_errors=True)

    if problems:
        print(f"FAIL: {N_PROCS} concurrent update_image() calls on tile {tuple(POS)}:")
        for m in problems:
            print("  -", m)
        return 1

    print(f"OK: all {N_PROCS} concurrent contributions are in the final tile")
    return 0


if __name__ == "__main__":
    sys.exit(main())
