import os, sys; sys.path.insert(0, os.getcwd())

# Demo 1: tile two small FITS images that lie in different parts of the sky into
# one TOAST pyramid with the public `toasty.tile_fits()` entry point, then check
# property C02 on the FITS tiles found on disk: every tile above the start level
# exists exactly when one of its children exists, and is the 2x2 block mean
# (NaN-aware) of the mosaic of its children.

import shutil
import tempfile
import warnings

import numpy as np
from astropy.io import fits
from astropy.wcs import WCS

START = 3


def make_fits(path, ra, dec, seed):
    rng = np.random.RandomState(seed)
    n = 64
    data = (rng.uniform(1.0, 2.0, size=(n, n)) + seed).astype(np.float32)
    w = WCS(naxis=2)
    w.wcs.ctype = ["RA---TAN", "DEC--TAN"]
    w.wcs.crval = [ra, dec]
    w.wcs.crpix = [(n + 1) / 2, (n + 1) / 2]
    w.wcs.cdelt = [-0.2, 0.2]
    w.wcs.cunit = ["deg", "deg"]
    hdu = fits.PrimaryHDU(data, header=w.to_header())
    hdu.writeto(path, overwrite=True)


def tile_file(base, n, x, y):
    return os.path.join(base, str(n), str(y), "%d_%d.fits" % (y, x))


def read_stored(path):
    with fits.open(path) as hdul:
        return np.array(hdul[0].data, dtype=np.float64)


def check_pyramid(base, start):
    """Return a list of problems with the cascade output under `base`."""
    problems = []

    for n in range(start - 1, -1, -1):
        for y in range(2**n):
            for x in range(2**n):
                # Mosaic in *display* orientation (row 0 on top).
                mosaic = np.full((512, 512), np.nan)
                any_child = False

                for j in range(2):
                    for i in range(2):
                        cp = tile_file(base, n + 1, 2 * x + i, 2 * y + j)
                        if os.path.exists(cp):
                            any_child = True
                            stored = read_stored(cp)
                            # FITS tiles are stored bottom-up
                            mosaic[
                                256 * j : 256 * (j + 1), 256 * i : 256 * (i + 1)
                            ] = stored[::-1]

                with warnings.catch_warnings():
                    warnings.simplefilter("ignore")
                    expected = np.nanmean(
                        mosaic.reshape((256, 2, 256, 2)), axis=(1, 3)
                    )

                should_exist = any_child and not np.all(np.isnan(expected))
                pp = tile_file(base, n, x, y)
                exists = os.path.exists(pp)

                if exists != should_exist:
                    problems.append(
                        "tile L%d x=%d y=%d: exists=%s but expected exists=%s "
                        "(some child exists: %s)" % (n, x, y, exists, should_exist, any_child)
                    )
                    continue

                if exists:
                    got = read_stored(pp)[::-1]  # to display orientation
                    if got.shape != (256, 256) or not np.allclose(
                        got, expected, rtol=1e-5, atol=1e-6, equal_nan=True
                    ):
                        problems.append(
                            "tile L%d x=%d y=%d: pixels are not the 2x2 reduction of its children"
                            % (n, x, y)
                        )

    return problems


def main():
    from toasty import TilingMethod, tile_fits

    work = tempfile.mkdtemp(prefix="c02demo1_")
    problems = []

    try:
        p1 = os.path.join(work, "img_a.fits")
        p2 = os.path.join(work, "img_b.fits")
        make_fits(p1, 40.0, 25.0, 1)
        make_fits(p2, 215.0, -35.0, 5)

        for parallel in (1, 2):
            out = os.path.join(work, "tiled_j%d" % parallel)

            with warnings.catch_warnings():
                warnings.simplefilter("ignore")
                out_dir, bld = tile_fits(
                    [p1, p2],
                    out_dir=out,
                    tiling_method=TilingMethod.TOAST,
                    start=START,
                    parallel=parallel,
                    override=True,
                )

            # sanity: both images gave leaf tiles
            n_leaves = 0
            for y in range(2**START):
                for x in range(2**START):
                    if os.path.exists(tile_file(out_dir, START, x, y)):
                        n_leaves += 1
            print("parallel=%d: %d leaf tiles at level %d" % (parallel, n_leaves, START))
            if n_leaves < 2:
                problems.append("parallel=%d: unexpectedly few leaf tiles" % parallel)

            for p in check_pyramid(out_dir, START):
                problems.append("parallel=%d: %s" % (parallel, p))
    finally:
        shutil.rmtree(work, ignore_errors=True)

    if problems:
        print("C02 VIOLATED after tile_fits(two images, TOAST):")
        for p in problems:
            print("  -", p)
        return 1

    print("OK: every parent tile is the 2x2 downsample of its children")
    return 0


if __name__ == "__main__":
    sys.exit(main())
