import os, sys; sys.path.insert(0, os.getcwd())

"""
demo2: `toasty tile-study --avm IMG.png` for images that carry AVM (Astronomy
Visualization Metadata) tags.

AVM tags as found in the wild describe the picture with a FITS-like (positive
parity) WCS even though the pixel data are stored top-down. toasty therefore
flips the parity of the WCS that pyavm hands it (`Builder.apply_avm_info`),
leaving the pixels alone. C16 says what a parity flip must mean: the world
coordinates of pixel (x, y) before the flip are those of pixel (x, height-1-y)
after it -- nothing moves on the sky, whatever the image size, rotation or
reference pixel.

We check that as the user sees it: the position that the emitted WTML assigns to
row y of the emitted tile must be the position the AVM WCS assigns to FITS row
height-1-y. Square and non-square images are tried.

Exit 0 = property holds; exit 1 = broken.
"""

import shutil
import tempfile
import warnings

import numpy as np

warnings.simplefilter("ignore")

from astropy.wcs import WCS
from PIL import Image as PILImage
from pyavm import AVM

import toasty
from toasty import cli

assert os.path.realpath(toasty.__file__).startswith(
    os.path.realpath(os.getcwd())
), "not testing the worktree: %s" % toasty.__file__

failures = []
SCALE = 0.002  # deg / pixel


def make_image(path, W, H):
    arr = np.zeros((H, W, 3), dtype=np.uint8)
    arr[..., 0] = (np.arange(H)[:, None] * 2) % 256  # row code
    arr[..., 1] = np.arange(W)[None, :] % 256  # column code
    arr[..., 2] = 200
    PILImage.fromarray(arr).save(path)
    return arr


def make_avm(W, H, rot_deg, refpix):
    a = AVM()
    a.Spatial.CoordinateFrame = "ICRS"
    a.Spatial.CoordsystemProjection = "TAN"
    a.Spatial.Equinox = "J2000"
    a.Spatial.ReferenceValue = [150.0, 20.0]
    a.Spatial.ReferenceDimension = [float(W), float(H)]
    a.Spatial.ReferencePixel = [float(refpix[0]), float(refpix[1])]
    a.Spatial.Scale = [-SCALE, SCALE]
    a.Spatial.Rotation = float(rot_deg)
    return a


def run_case(label, W, H, rot_deg, refpix):
    work = tempfile.mkdtemp(prefix="c16demo2_")
    try:
        plain_path = os.path.join(work, "plain.png")
        img_path = os.path.join(work, "img.png")
        src = make_image(plain_path, W, H)

        avm = make_avm(W, H, rot_deg, refpix)
        avm.embed(plain_path, img_path)

        # The WCS that the tags express (FITS-like: row index counts from the
        # bottom of the picture).
        avm_wcs = AVM.from_image(img_path).to_wcs(target_shape=(W, H))
        assert np.linalg.det(avm_wcs.pixel_scale_matrix) < 0  # positive parity sign

        outdir = os.path.join(work, "out")
        cli.entrypoint(["tile-study", "--avm", "--outdir", outdir, img_path])

        from wwt_data_formats.folder import Folder

        f = Folder.from_file(os.path.join(outdir, "index_rel.wtml"))
        imgset = f.children[0].foreground_image_set
        assert imgset.tile_levels == 0
        out_wcs = WCS(imgset.wcs_headers_from_position(height=H))

        # The pixels must have been left alone ...
        tile = np.asarray(
            PILImage.open(os.path.join(outdir, "0", "0", "0_0.png")).convert("RGB")
        )
        gx0 = (256 - W) // 2
        gy0 = (256 - H) // 2
        out = tile[gy0 : gy0 + H, gx0 : gx0 + W]

        if not np.array_equal(out, src):
            failures.append(f"{label}: tile pixels differ from the input image")
            return

        # ... the emitted coordinates must have negative parity ...
        if np.linalg.det(out_wcs.pixel_scale_matrix) < 0:
            failures.append(f"{label}: emitted WTML has positive parity")

        # ... and (x, y) after the flip is (x, H-1-y) before it.
        ys, xs = np.mgrid[0:H:7, 0:W:9]
        ys = ys.ravel().astype(float)
        xs = xs.ravel().astype(float)

        got = out_wcs.pixel_to_world(xs, ys)
        want = avm_wcs.pixel_to_world(xs, H - 1 - ys)
        worst = float((got.separation(want).deg / SCALE).max())

        print(
            f"{label} ({W}x{H}): worst sky displacement of a pixel = {worst:.4f} pixels"
        )

        if worst > 0.01:
            failures.append(
                f"{label} ({W}x{H}): the parity flip moved pixels on the sky by up to {worst:.2f} pixels"
            )
    finally:
        shutil.rmtree(work, ignore_errors=True)


run_case("square/rotated", 160, 160, 25.0, (50.0, 70.0))
run_case("landscape/unrotated", 200, 120, 0.0, (100.5, 60.5))
run_case("landscape/rotated", 200, 120, 25.0, (70.0, 31.0))
run_case("portrait/rotated/refpix-outside", 90, 230, -110.0, (-35.5, 300.25))

if failures:
    print()
    print("C16 VIOLATED through `tile-study --avm`:")
    for f in failures:
        print("  -", f)
    sys.exit(1)

print("OK: parity flip in `tile-study --avm` moved no pixel on the sky")
sys.exit(0)
