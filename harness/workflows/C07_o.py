#!/usr/bin/env python
"""
C07 demo: sampling all chunks of a chunked (JPEG2000) plate-carree map, one
after another, must fill every TOAST pixel with the value that sampling the
whole map at once gives -- no holes.

The chunk grid comes from `toasty.jpeg2000.ChunkedJPEG2000Reader`
(`n_chunks`, `chunk_spec`, `chunk_data`), which feeds
`ChunkedPlateCarreeSampler.filter()/.sampler()`. The `glymur` package is not
installed here, so this program registers a minimal in-memory stand-in for the
small part of the glymur API that toasty uses (`Jp2k(path)`, `.shape`,
`.codestream.segment[...]` with the SIZ marker, and array slicing). Everything
in toasty itself is the real code.

The JPEG2000 "tiles" (chunks) used here are NOT square: 100 rows x 50 columns,
on a 201 x 403 map, so the chunk grid is 3 x 9 with ragged last row/column.

Run as:  cd /tmp/seed_C07 && /venv/bin/python /tmp/seed8_C07_out/demo1.py
Exit status 0 = property holds; 1 = property violated.
"""

import os, sys; sys.path.insert(0, os.getcwd())

import shutil
import tempfile
import types

import numpy as np

# ---------------------------------------------------------------------------
# Minimal stand-in for `glymur` (third-party JPEG2000 reader), in memory.

MAP_H, MAP_W = 201, 403  # odd sizes: no TOAST pixel centre falls exactly on a map-pixel edge
CHUNK_H, CHUNK_W = 100, 50  # non-square JPEG2000 tiles, taller than wide

_yy, _xx = np.indices((MAP_H, MAP_W))
MAP = np.stack(
    [
        (1 + _yy % 250).astype(np.uint8),
        (1 + _xx % 250).astype(np.uint8),
        (1 + (_xx // 250) + 2 * (_yy // 250)).astype(np.uint8),
    ],
    axis=-1,
)  # every map pixel has its own colour, never black


class _Seg(object):
    def __init__(self, marker_id, **kw):
        self.marker_id = marker_id
        self.__dict__.update(kw)


class _Codestream(object):
    segment = [
        _Seg("SOC"),
        _Seg("SIZ", xsiz=MAP_W, ysiz=MAP_H, xtsiz=CHUNK_W, ytsiz=CHUNK_H),
        _Seg("COD"),
    ]


class _Jp2k(object):
    def __init__(self, path):
        self.path = path
        self.codestream = _Codestream()

    @property
    def shape(self):
        return MAP.shape

    def __getitem__(self, idx):
        return MAP[idx]


if "glymur" not in sys.modules:
    fake = types.ModuleType("glymur")
    fake.Jp2k = _Jp2k
    sys.modules["glymur"] = fake

# ---------------------------------------------------------------------------

import toasty
from toasty.jpeg2000 import ChunkedJPEG2000Reader
from toasty.pyramid import Pos, PyramidIO
from toasty.samplers import ChunkedPlateCarreeSampler, plate_carree_planet_sampler
from toasty.toast import ToastCoordinateSystem, sample_layer, sample_layer_filtered

print("toasty under test:", os.path.dirname(toasty.__file__))

DEPTH = 1
work = tempfile.mkdtemp(prefix="c07demo_")
status = 0

try:
    # (a) chunk by chunk, each with its tile filter, the way the docs/tests do it
    pio_chunks = PyramidIO(os.path.join(work, "chunks"), default_format="png")
    reader = ChunkedJPEG2000Reader("in-memory.jp2")
    chunker = ChunkedPlateCarreeSampler(reader, planetary=True)

    n = chunker.n_chunks
    print("map %dx%d, chunks of %dx%d (rows x cols): n_chunks = %d" % (MAP_H, MAP_W, CHUNK_H, CHUNK_W, n))

    covered = np.zeros((MAP_H, MAP_W), dtype=int)

    for ichunk in range(n):
        x0, y0, w, h = reader.chunk_spec(ichunk)
        covered[y0 : y0 + h, x0 : x0 + w] += 1
        sample_layer_filtered(
            pio_chunks,
            chunker.filter(ichunk),
            chunker.sampler(ichunk),
            DEPTH,
            coordsys=ToastCoordinateSystem.PLANETARY,
            parallel=1,
        )

    n_uncovered = int((covered == 0).sum())
    if n_uncovered:
        print(
            "PROBLEM: the %d chunks offered by the reader leave %d of %d map pixels "
            "in no chunk at all (rows %d.., cols %d..)"
            % (
                n,
                n_uncovered,
                MAP_H * MAP_W,
                np.nonzero((covered == 0).any(axis=1))[0].min(),
                np.nonzero((covered == 0).any(axis=0))[0].min(),
            )
        )
        status = 1

    # (b) the whole map at once, every tile, no filter
    pio_whole = PyramidIO(os.path.join(work, "whole"), default_format="png")
    sample_layer(
        pio_whole,
        plate_carree_planet_sampler(MAP),
        DEPTH,
        coordsys=ToastCoordinateSystem.PLANETARY,
        format="png",
        parallel=1,
    )

    # compare
    for y in range(2**DEPTH):
        for x in range(2**DEPTH):
            pos = Pos(n=DEPTH, x=x, y=y)
            ref = pio_whole.read_image(pos).asarray()[..., :3]
            img = pio_chunks.read_image(pos)

            if img is None:
                print("PROBLEM: tile %r was never written by the chunked sampling" % (pos,))
                status = 1
                continue

            got = img.asarray()
            if got.shape != (256, 256, 4):
                print("PROBLEM: tile %r has unexpected shape %r" % (pos, got.shape))
                status = 1
                continue

            holes = int((got[..., 3] != 255).sum())
            wrong = int(((got[..., :3] != ref).any(axis=-1) & (got[..., 3] == 255)).sum())
            print("tile %r: %5d empty pixels, %5d pixels with a wrong value (of 65536)" % (tuple(pos), holes, wrong))

            if holes or wrong:
                status = 1
finally:
    shutil.rmtree(work, ignore_errors=True)

if status:
    print("FAIL: chunk-by-chunk sampling does not reproduce whole-map sampling (C07 violated)")
else:
    print("OK: chunk-by-chunk sampling fills every pixel with the whole-map value")

sys.exit(status)
