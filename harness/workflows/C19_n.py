import os, sys; sys.path.insert(0, os.getcwd())

# C19 demo: inside a Slurm job step (SLURM_NPROCS is exported by Slurm), a user
# who forces serial processing -- parallel=1 / `-j 1`, documented as "Pass 1 to
# force serial processing" -- must see the error raised by a failing tile.
#
# Exit status 0: every operation below failed visibly.  Non-zero: at least one
# returned normally or hung although one of its tiles raised.

import shutil
import signal
import tempfile

os.environ["SLURM_NPROCS"] = "4"  # what `srun -n 4` / `sbatch -n 4` exports

import numpy as np

from toasty import cli
from toasty.image import Image
from toasty.pyramid import Pos, Pyramid, PyramidIO
from toasty.transform import u8_to_rgb

HANG_SECONDS = 30


class Hang(BaseException):
    pass


def _on_alarm(signum, frame):
    raise Hang()


signal.signal(signal.SIGALRM, _on_alarm)


class TileError(Exception):
    pass


problems = []


def expect_visible_failure(label, func):
    """Run `func`, which has one failing tile; it has to raise."""
    signal.alarm(HANG_SECONDS)
    try:
        func()
    except Hang:
        problems.append(f"{label}: still waiting after {HANG_SECONDS} s (hang)")
    except Exception as e:
        print(f"ok   {label}: raised {e.__class__.__name__}")
    else:
        problems.append(f"{label}: returned normally although a tile failed")
    finally:
        signal.alarm(0)


# 1. Library level: leaf visit and walk with a callback that fails on one tile.


def leaf_callback(pos, tile):
    if pos == Pos(2, 3, 1):
        raise TileError(f"cannot process leaf {pos}")


def walk_callback(pos):
    if pos == Pos(1, 1, 0):
        raise TileError(f"cannot process tile {pos}")


expect_visible_failure(
    "Pyramid.visit_leaves(parallel=1)",
    lambda: Pyramid.new_generic(2).visit_leaves(leaf_callback, parallel=1),
)

expect_visible_failure(
    "Pyramid.walk(parallel=1)",
    lambda: Pyramid.new_generic(2).walk(walk_callback, parallel=1),
)

# 2. Workflow level: a pyramid on disk with one damaged tile.

work = tempfile.mkdtemp(prefix="c19demo")

try:
    # `toasty cascade -j 1` over PNG tiles, one of which is not a PNG at all.
    casc_dir = os.path.join(work, "cascade")
    pio = PyramidIO(casc_dir, default_format="png")
    rgb = np.full((256, 256, 3), 200, dtype=np.uint8)

    for y in range(2):
        for x in range(2):
            pio.write_image(Pos(1, x, y), Image.from_array(rgb))

    with open(pio.tile_path(Pos(1, 1, 1)), "wb") as f:
        f.write(b"this is not a PNG file")

    expect_visible_failure(
        "toasty cascade -j 1 (damaged tile)",
        lambda: cli.entrypoint(
            ["cascade", "-j", "1", "--format", "png", "--start", "1", casc_dir]
        ),
    )

    # transform.u8_to_rgb(parallel=1) over NPY tiles, one of which is damaged.
    tr_dir = os.path.join(work, "transform")
    pio = PyramidIO(tr_dir, default_format="npy")
    u8 = np.full((256, 256), 7, dtype=np.uint8)

    for pos in [Pos(0, 0, 0)] + [Pos(1, x, y) for y in range(2) for x in range(2)]:
        pio.write_image(pos, Image.from_array(u8))

    with open(pio.tile_path(Pos(1, 0, 1)), "wb") as f:
        f.write(b"this is not an NPY file")

    expect_visible_failure(
        "transform.u8_to_rgb(parallel=1) (damaged tile)",
        lambda: u8_to_rgb(pio, 1, parallel=1),
    )
finally:
    shutil.rmtree(work, ignore_errors=True)

if problems:
    print()
    print("C19 VIOLATED: serial processing was requested, a tile failed, and:")
    for p in problems:
        print("  -", p)
    sys.exit(1)

print("all operations failed visibly, as they must")
