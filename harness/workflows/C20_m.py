import os, sys; sys.path.insert(0, os.getcwd())

# Demo 2: per-file HDU lists must line up with the input paths, position by
# position -- including the very natural case where the same multi-extension
# file is named more than once in order to pick up several of its HDUs:
#
#     paths     = [mef.fits, mef.fits, other.fits]
#     hdu_index = [1,        3,        2]
#
# must yield, in this order, HDU 1 of mef.fits, HDU 3 of mef.fits and HDU 2 of
# other.fits -- from collection.load(), from toasty.tile_fits() and from
# `toasty view --hdu-index 1,3,2 mef.fits mef.fits other.fits`.
#
# Every image HDU is filled with its own constant value (mef HDU k -> 10+k,
# other HDU k -> 20+k) and has its own height, so we can tell from shapes and
# from the pixel values in the finished tile pyramid which HDUs were used. All
# HDUs are non-overlapping panels of one common TAN projection so that tiling
# is a quick exact pixel copy (multi-TAN mode).

import shutil
import tempfile

import numpy as np
from astropy.io import fits
from astropy.wcs import WCS

import toasty
from toasty import cli, collection

PANEL_W = 256
TOTAL_W = 3 * PANEL_W


def panel_header(panel):
    w = WCS(naxis=2)
    w.wcs.ctype = ["RA---TAN", "DEC--TAN"]
    w.wcs.crval = [50.0, 10.0]
    w.wcs.cdelt = [-0.001, 0.001]
    w.wcs.crpix = [TOTAL_W / 2 + 0.5 - PANEL_W * panel, 128.5]
    return w.to_header()


def write_mef(path, base_value, specs):
    """specs: list of (panel, height) for HDUs 1, 2, 3, ..."""
    hdus = [fits.PrimaryHDU()]
    for k, (panel, height) in enumerate(specs, start=1):
        data = np.full((height, PANEL_W), float(base_value + k), dtype=np.float32)
        hdus.append(fits.ImageHDU(data=data, header=panel_header(panel)))
    fits.HDUList(hdus).writeto(path)


def deepest_level_values(out_dir):
    """The set of distinct finite pixel values in the deepest level of a FITS pyramid."""
    levels = [int(d) for d in os.listdir(out_dir) if d.isdigit()]
    top = os.path.join(out_dir, str(max(levels)))
    values = set()
    for dirpath, _dirs, files in os.walk(top):
        for fn in files:
            if fn.endswith(".fits"):
                with fits.open(os.path.join(dirpath, fn)) as hdul:
                    arr = np.asarray(hdul[0].data, dtype=float)
                values.update(float(v) for v in np.unique(arr[np.isfinite(arr)]))
    return values


def main():
    print("toasty loaded from:", os.path.dirname(toasty.__file__))
    work = tempfile.mkdtemp(prefix="c20demo2_")
    problems = []

    def check(label, got, expected):
        print(f"{label}: {got!r}")
        if got != expected:
            problems.append(f"{label}: got {got!r}, expected {expected!r}")

    try:
        mef = os.path.join(work, "mef.fits")
        other = os.path.join(work, "other.fits")
        #                 HDU1        HDU2        HDU3
        write_mef(mef, 10, [(0, 256), (1, 200), (1, 240)])
        write_mef(other, 20, [(2, 100), (2, 220), (1, 180)])

        paths = [mef, mef, other]
        hdu_index = [1, 3, 2]
        exp_ids = [mef, mef, other]
        exp_shapes = [(256, PANEL_W), (240, PANEL_W), (220, PANEL_W)]
        exp_values = [11.0, 13.0, 22.0]
        exp_export = [(mef, 1), (mef, 3), (other, 2)]

        # 1. Python API: collection.load()

        coll = collection.load(paths, hdu_index=hdu_index)
        descs = list(coll.descriptions())
        imgs = list(coll.images())
        check("load(): description ids", [d.collection_id for d in descs], exp_ids)
        check("load(): description shapes", [tuple(d.shape) for d in descs], exp_shapes)
        check("load(): image ids", [i.collection_id for i in imgs], exp_ids)
        check("load(): image shapes", [tuple(i.shape) for i in imgs], exp_shapes)
        check(
            "load(): image values",
            [float(np.unique(i.asarray())[0]) for i in imgs],
            exp_values,
        )
        check("load(): export_simple()", list(coll.export_simple()), exp_export)

        # 2. Python API: tile_fits()

        out_api = os.path.join(work, "api_tiled")
        toasty.tile_fits(
            paths,
            out_dir=out_api,
            hdu_index=hdu_index,
            tiling_method=toasty.TilingMethod.TAN,
            parallel=1,
        )
        check(
            "tile_fits(): pixel values in the deepest pyramid level",
            sorted(deepest_level_values(out_api)),
            sorted(exp_values),
        )

        # 3. Command line: toasty view --tile-only

        cli.entrypoint(
            [
                "view",
                "--tile-only",
                "--tiling-method",
                "tan",
                "-j",
                "1",
                "--hdu-index",
                ",".join(str(i) for i in hdu_index),
            ]
            + paths
        )
        out_cli = os.path.join(work, "mef_tiled")
        check(
            "toasty view: pixel values in the deepest pyramid level",
            sorted(deepest_level_values(out_cli)),
            sorted(exp_values),
        )
    finally:
        shutil.rmtree(work, ignore_errors=True)

    if problems:
        print()
        print("PROPERTY VIOLATED:")
        for p in problems:
            print("  -", p)
        sys.exit(1)

    print("OK: every input path contributed exactly the HDU selected for its list position")


if __name__ == "__main__":
    main()
