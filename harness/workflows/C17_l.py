import os, sys; sys.path.insert(0, os.getcwd())

# C17 demo 1: FITS auto-tiling in TOAST mode of TWO images with different pixel
# scales (finer one first), no explicit `start`.  The TileLevels recorded in
# index_rel.wtml (and in the returned Builder) must be the depth of the deepest
# populated layer on disk, and every tile file must sit at the path obtained by
# expanding the WTML Url template.
#
# Run as: cd /tmp/seed_C17 && /venv/bin/python /tmp/seed_C17_out/demo1.py

import re
import shutil
import tempfile
import warnings
from xml.etree import ElementTree as etree

import numpy as np
from astropy.io import fits
from astropy.wcs import WCS

import toasty
from toasty import TilingMethod, tile_fits

print("testing toasty from", os.path.dirname(toasty.__file__))


def make_fits(path, n, cdelt_deg, ra, dec, seed):
    w = WCS(naxis=2)
    w.wcs.ctype = ["RA---TAN", "DEC--TAN"]
    w.wcs.crval = [ra, dec]
    w.wcs.crpix = [(n + 1) / 2, (n + 1) / 2]
    w.wcs.cdelt = [-cdelt_deg, cdelt_deg]
    w.wcs.cunit = ["deg", "deg"]
    rng = np.random.RandomState(seed)
    data = (1.0 + rng.rand(n, n)).astype(np.float32)
    fits.PrimaryHDU(data=data, header=w.to_header()).writeto(path, overwrite=True)


def template_to_relpath(url, level, x, y):
    return url.replace("{1}", str(level)).replace("{2}", str(x)).replace("{3}", str(y))


def scan_tiles(out_dir, ext):
    """Return {level: set((x, y))} for the L/Y/YX tree found on disk."""
    found = {}
    pat = re.compile(r"^(\d+)/(\d+)/(\d+)_(\d+)" + re.escape(ext) + "$")
    for dirpath, _dirs, files in os.walk(out_dir):
        for fn in files:
            rel = os.path.relpath(os.path.join(dirpath, fn), out_dir).replace(os.sep, "/")
            m = pat.match(rel)
            if m is None:
                continue
            lev, ydir, y, x = (int(g) for g in m.groups())
            if ydir != y:
                continue
            found.setdefault(lev, set()).add((x, y))
    return found


def main():
    work = tempfile.mkdtemp(prefix="c17demo1_")
    problems = []

    try:
        fine = os.path.join(work, "fine.fits")
        coarse = os.path.join(work, "coarse.fits")
        # 3 arcmin/pixel -> natural TOAST level 4; 10 arcmin/pixel -> level 3
        make_fits(fine, 40, 3.0 / 60, 40.0, 10.0, seed=1)
        make_fits(coarse, 30, 10.0 / 60, 48.0, 12.0, seed=2)

        out_dir = os.path.join(work, "tiled")

        with warnings.catch_warnings():
            warnings.simplefilter("ignore")
            ret_dir, bld = tile_fits(
                [fine, coarse],
                out_dir=out_dir,
                tiling_method=TilingMethod.TOAST,
                parallel=1,
            )

        wtml = os.path.join(ret_dir, "index_rel.wtml")
        root = etree.parse(wtml).getroot()
        imgsets = list(root.iter("ImageSet"))
        if len(imgsets) != 1:
            problems.append(f"expected exactly one ImageSet in {wtml}, got {len(imgsets)}")
            return problems
        iset = imgsets[0]
        url = iset.get("Url")
        ftype = iset.get("FileType")
        levels = int(iset.get("TileLevels"))
        print(f"WTML: Url={url!r} FileType={ftype!r} TileLevels={levels}")
        print(f"returned Builder: url={bld.imgset.url!r} file_type={bld.imgset.file_type!r} tile_levels={bld.imgset.tile_levels}")

        if (bld.imgset.url, bld.imgset.file_type, bld.imgset.tile_levels) != (url, ftype, levels):
            problems.append("returned Builder.imgset disagrees with index_rel.wtml")

        found = scan_tiles(ret_dir, ftype)
        for lev in sorted(found):
            print(f"  on disk: level {lev}: {len(found[lev])} tiles")

        if not found:
            problems.append("no tile files found on disk")
            return problems

        deepest = max(found)
        if deepest != levels:
            problems.append(
                f"WTML says TileLevels={levels} but the deepest populated layer on disk is level {deepest} "
                f"({len(found[deepest])} tiles there, e.g. {template_to_relpath(url, deepest, *sorted(found[deepest])[0])})"
            )

        # every tile on disk is where the template says, and is within range
        for lev, poses in found.items():
            for (x, y) in poses:
                rel = template_to_relpath(url, lev, x, y)
                if not os.path.isfile(os.path.join(ret_dir, rel)):
                    problems.append(f"template path {rel} for ({lev},{x},{y}) does not exist")
                if not (0 <= x < 2**lev and 0 <= y < 2**lev):
                    problems.append(f"tile ({lev},{x},{y}) out of range")

        # a client that trusts TileLevels descends level by level: all levels 0..TileLevels populated
        for lev in range(0, levels + 1):
            if lev not in found:
                problems.append(f"level {lev} <= TileLevels={levels} has no tiles on disk")

        # same answer when the directory is reused
        with warnings.catch_warnings():
            warnings.simplefilter("ignore")
            _d2, bld2 = tile_fits(
                [fine, coarse],
                out_dir=out_dir,
                tiling_method=TilingMethod.TOAST,
                parallel=1,
            )
        if (bld2.imgset.url, bld2.imgset.file_type, bld2.imgset.tile_levels) != (url, ftype, levels):
            problems.append("Builder.imgset returned on directory reuse disagrees with index_rel.wtml")
    finally:
        shutil.rmtree(work, ignore_errors=True)

    return problems


if __name__ == "__main__":
    problems = main()
    if problems:
        print("C17 VIOLATED:")
        for p in problems:
            print("  -", p)
        sys.exit(1)
    print("OK: WTML / returned description match the files on disk")
    sys.exit(0)
