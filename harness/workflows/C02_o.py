import os, sys; sys.path.insert(0, os.getcwd())

# Demonstration for property C02 (cascade output: every parent tile is the 2x2
# downsample of its children mosaic; identical serially and in parallel; without
# a tile filter or with one that accepts every populated tile).
#
# A sparse set of level-3 leaf tiles (with NaN / transparent pixels) is written
# in three tile formats (npy and png top-down, fits bottom-up). The pyramid is
# then cascaded through the public function `toasty.merge.cascade_images` with
# 1 and 2 workers, without a tile filter and with a filter that accepts every
# populated tile (and its ancestors), using the default `cli_progress=False`
# and also `cli_progress=True`. After each cascade every tile position of
# levels 2, 1 and 0 is compared with an independent model.
#
# Run as: cd /tmp/seed_C02 && /venv/bin/python /tmp/seed8_C02_out/demo1.py
# Exit status 0 = property holds in every configuration; 1 = violations found.

import shutil
import tempfile
import warnings

import numpy as np

import toasty
from toasty.image import Image
from toasty.merge import averaging_merger, cascade_images
from toasty.pyramid import Pos, PyramidIO

START = 3
LEAVES = [(0, 0), (1, 0), (2, 5), (5, 6), (7, 7)]  # (x, y) at level START


def make_leaf(fmt, rng, k):
    """Stored array of leaf number k."""
    if fmt == "png":
        a = rng.integers(0, 256, size=(256, 256, 4), dtype=np.uint8)
        a[..., 3] = 255
        # Some transparent pixels, including whole 2x2 blocks and a whole
        # transparent half for one of the tiles.
        a[10:40, 20:90, 3] = 0
        a[rng.random((256, 256)) < 0.1, 3] = 0
        if k == 1:
            a[:, 128:, 3] = 0
        return a

    a = rng.random((256, 256)).astype(np.float32) * 100 - 20
    a[10:40, 20:90] = np.nan
    a[rng.random((256, 256)) < 0.1] = np.nan
    if k == 1:
        a[:, 128:] = np.nan
    return a


def to_display(fmt, stored):
    # FITS tiles are stored bottom-up; everything else top-down.
    return stored[::-1] if fmt == "fits" else stored


def reduce_mosaic(fmt, mosaic):
    """2x2 block reduction of a 512x512 display-orientation mosaic."""
    if fmt == "png":
        s = mosaic.astype(np.int64).reshape(256, 2, 256, 2, 4).sum(axis=(1, 3))
        return (s // 4).astype(np.uint8)

    b = mosaic.astype(np.float64).reshape(256, 2, 256, 2)
    n = np.sum(~np.isnan(b), axis=(1, 3))
    t = np.nansum(b, axis=(1, 3))
    with np.errstate(invalid="ignore", divide="ignore"):
        out = np.where(n > 0, t / n, np.nan)
    return out.astype(np.float32)


def model_pyramid(fmt, leaves):
    """Expected display-orientation tiles of all levels above START.

    `leaves` maps (x, y) -> display array at level START. Returns a dict
    level -> {(x, y): display array}; positions not in the dict must not exist.
    """
    levels = {START: leaves}

    for n in range(START - 1, -1, -1):
        below = levels[n + 1]
        here = {}

        for x in range(2**n):
            for y in range(2**n):
                kids = {
                    (i, j): below.get((2 * x + i, 2 * y + j))
                    for i in (0, 1)
                    for j in (0, 1)
                }
                if all(v is None for v in kids.values()):
                    continue

                if fmt == "png":
                    mosaic = np.zeros((512, 512, 4), dtype=np.uint8)
                else:
                    mosaic = np.full((512, 512), np.nan, dtype=np.float32)

                for (i, j), kid in kids.items():
                    if kid is None:
                        continue
                    quad = mosaic[256 * j : 256 * (j + 1), 256 * i : 256 * (i + 1)]
                    if fmt == "png":
                        valid = kid[..., 3] != 0
                        quad[valid] = kid[valid]
                    else:
                        valid = ~np.isnan(kid)
                        quad[valid] = kid[valid]

                merged = reduce_mosaic(fmt, mosaic)

                if fmt == "png":
                    undefined = np.all(merged[..., 3] == 0)
                else:
                    undefined = np.all(np.isnan(merged))

                if not undefined:
                    here[(x, y)] = merged

        levels[n] = here

    return levels


def make_filter():
    keep = set()
    for x, y in LEAVES:
        for n in range(1, START + 1):
            keep.add((n, x >> (START - n), y >> (START - n)))

    def accept_populated(tile):
        return (tile.pos.n, tile.pos.x, tile.pos.y) in keep

    return accept_populated


def check(fmt, pio, expected, label, problems):
    n_bad = 0

    for n in range(START - 1, -1, -1):
        for x in range(2**n):
            for y in range(2**n):
                pos = Pos(n, x, y)
                path = pio.tile_path(pos, makedirs=False)
                want = expected[n].get((x, y))
                have = os.path.exists(path)

                if want is None and have:
                    problems.append(f"{label}: tile {pos} exists but none of its children do")
                    n_bad += 1
                    continue

                if want is not None and not have:
                    problems.append(
                        f"{label}: tile {pos} is MISSING although it has populated children"
                    )
                    n_bad += 1
                    continue

                if want is None:
                    continue

                got = to_display(fmt, pio.read_image(pos).asarray())
                # FITS data come back big-endian; only the kind and size of the
                # data type matter here.
                got = got.astype(got.dtype.newbyteorder("="))

                if got.shape != want.shape or got.dtype != want.dtype:
                    problems.append(
                        f"{label}: tile {pos} has shape/dtype {got.shape}/{got.dtype}, "
                        f"expected {want.shape}/{want.dtype}"
                    )
                    n_bad += 1
                elif fmt == "png":
                    if not np.array_equal(got, want):
                        problems.append(f"{label}: tile {pos} has wrong pixel values")
                        n_bad += 1
                elif not np.allclose(got, want, rtol=1e-5, atol=1e-5, equal_nan=True):
                    problems.append(f"{label}: tile {pos} has wrong pixel values")
                    n_bad += 1

    return n_bad


def listing(base):
    out = []
    for root, _dirs, files in os.walk(base):
        for f in files:
            out.append(os.path.relpath(os.path.join(root, f), base))
    return sorted(out)


def main():
    print("testing the toasty in", os.path.dirname(toasty.__file__))
    warnings.simplefilter("ignore")

    work = tempfile.mkdtemp(prefix="demo_C02_")
    problems = []

    configs = [
        # (workers, use a tile filter, cli_progress)
        (1, False, False),
        (2, False, False),
        (1, True, False),
        (2, True, False),
        (1, True, True),
    ]

    try:
        for fmt in ("npy", "fits", "png"):
            rng = np.random.default_rng(20240802)
            stored = {pos: make_leaf(fmt, rng, k) for k, pos in enumerate(LEAVES)}
            expected = model_pyramid(
                fmt, {pos: to_display(fmt, a) for pos, a in stored.items()}
            )
            n_expected = sum(len(expected[n]) for n in range(START))
            listings = {}

            for workers, filtered, progress in configs:
                label = (
                    f"format={fmt} workers={workers} "
                    f"tile_filter={'accept-populated' if filtered else 'None'} "
                    f"cli_progress={progress}"
                )
                base = os.path.join(work, f"{fmt}_{workers}_{int(filtered)}_{int(progress)}")
                pio = PyramidIO(base, default_format=fmt)

                for (x, y), a in stored.items():
                    pio.write_image(Pos(START, x, y), Image.from_array(a.copy()))

                cascade_images(
                    pio,
                    START,
                    averaging_merger,
                    parallel=workers,
                    cli_progress=progress,
                    tile_filter=make_filter() if filtered else None,
                )

                n_bad = check(fmt, pio, expected, label, problems)
                listings[label] = listing(base)
                print(
                    f"{label}: {n_expected} parent tiles expected, "
                    f"{'OK' if n_bad == 0 else str(n_bad) + ' PROBLEMS'}"
                )

            # The set of files must be the same in every configuration.
            ref_label = next(iter(listings))
            for label, files in listings.items():
                if files != listings[ref_label]:
                    problems.append(
                        f"{label}: set of tile files differs from [{ref_label}]: "
                        f"{len(files)} files vs {len(listings[ref_label])}"
                    )
    finally:
        shutil.rmtree(work, ignore_errors=True)

    if problems:
        print()
        print(f"C02 VIOLATED: {len(problems)} problem(s); the first ones are:")
        for p in problems[:25]:
            print("  -", p)
        return 1

    print()
    print("C02 holds in every configuration tried")
    return 0


if __name__ == "__main__":
    sys.exit(main())
