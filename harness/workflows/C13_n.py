import os, sys; sys.path.insert(0, os.getcwd())

# Demo for property C13: the reported tile counts equal the numbers of tiles
# actually enumerated / visited.
#
# `toasty.toast.count_tiles_matching_filter(depth, filter, bottom_only, coordsys)`
# is the public "how many tiles will I get?" companion of
# `generate_tiles_filtered()` (its docstring: "call signature and
# tree-exploration semantics match generate_tiles_filtered"). A user sizes a job
# (progress total, allocation, sanity check) with it. So for every depth, filter,
# coordinate system and value of `bottom_only`:
#
#   count_tiles_matching_filter(d, f, bottom_only=b, coordsys=c)
#       == number of tiles yielded by generate_tiles_filtered(d, f, b, c)
#
# and these must also agree with what a Pyramid with the same filter reports and
# visits:
#   b=True : == Pyramid.count_leaf_tiles() == number of visit_leaves() callbacks
#   b=False: == count_live_tiles() - 1 (level 0 is not counted) for filters whose
#            matched tiles are all live, == depth2tiles(d) - 1 with no filtering,
#            and == count_operations() - 1 + count_leaf_tiles().

import toasty
from toasty import toast
from toasty.pyramid import Pyramid, depth2tiles, tiles_at_depth
from toasty.samplers import _latlon_tile_filter
from toasty.toast import ToastCoordinateSystem

assert os.path.dirname(os.path.abspath(toasty.__file__)) == os.path.join(
    os.getcwd(), "toasty"
), "demo must run against the worktree it is started from"


def everything(tile):
    return True


def left_half(tile):
    # hierarchical: a tile matches iff it lies in the left half of the TOAST map
    return 2 * tile.pos.x < 2**tile.pos.n


def one_corner(tile):
    # hierarchical: the chain of tiles touching the upper-left corner
    return tile.pos.x == 0 and tile.pos.y == 0


box = _latlon_tile_filter(0.106, 4.878, -1.285, -0.120)

FILTERS = [
    ("everything", everything, True),
    ("left_half", left_half, True),
    ("one_corner", one_corner, True),
    ("latlon_box", box, False),  # matched-but-not-live tiles are possible
]

problems = []
n_checks = 0

for depth in range(0, 5):
    for cs in (ToastCoordinateSystem.ASTRONOMICAL, ToastCoordinateSystem.PLANETARY):
        for name, filt, matched_are_live in FILTERS:
            for bottom_only in (True, False):
                label = (
                    f"depth={depth} coordsys={cs.name} filter={name} "
                    f"bottom_only={bottom_only}"
                )
                reported = toast.count_tiles_matching_filter(
                    depth, filt, bottom_only=bottom_only, coordsys=cs
                )
                tiles = list(
                    toast.generate_tiles_filtered(
                        depth, filt, bottom_only=bottom_only, coordsys=cs
                    )
                )
                n_checks += 1

                if len(set(t.pos for t in tiles)) != len(tiles):
                    problems.append(f"{label}: a position was enumerated twice")

                if reported != len(tiles):
                    problems.append(
                        f"{label}: count_tiles_matching_filter() reports {reported}, "
                        f"but generate_tiles_filtered() yields {len(tiles)} tiles"
                    )

                if depth < 1:
                    continue

                # Cross-check with a Pyramid carrying the same filter.
                p = Pyramid.new_toast_filtered(depth, filt, coordsys=cs)
                n_leaf = p.count_leaf_tiles()
                n_live = p.count_live_tiles()
                n_ops = p.count_operations()

                if n_ops + n_leaf != n_live:
                    problems.append(f"{label}: ops {n_ops} + leaves {n_leaf} != live {n_live}")

                if bottom_only:
                    visited = []
                    p.visit_leaves(lambda pos, tile: visited.append(pos), parallel=1)

                    if not (reported == n_leaf == len(visited)):
                        problems.append(
                            f"{label}: reported {reported}, count_leaf_tiles() {n_leaf}, "
                            f"{len(visited)} leaf visits"
                        )
                    if filt is everything and reported != tiles_at_depth(depth):
                        problems.append(
                            f"{label}: reported {reported}, closed form {tiles_at_depth(depth)}"
                        )
                else:
                    walked = []
                    p.walk(walked.append, parallel=1)

                    if len(walked) != n_ops:
                        problems.append(
                            f"{label}: {len(walked)} walk visits, count_operations() {n_ops}"
                        )
                    if matched_are_live and reported != n_live - 1:
                        problems.append(
                            f"{label}: reported {reported} tiles over all levels, but "
                            f"count_live_tiles() - 1 = {n_live - 1} "
                            f"(= {len(walked)} walk visits - level 0 + {n_leaf} leaves)"
                        )
                    if filt is everything and reported != depth2tiles(depth) - 1:
                        problems.append(
                            f"{label}: reported {reported}, closed form "
                            f"{depth2tiles(depth) - 1}"
                        )

if problems:
    print(f"C13 VIOLATED ({len(problems)} findings in {n_checks} cases):")
    for line in problems[:25]:
        print("  -", line)
    if len(problems) > 25:
        print(f"  ... and {len(problems) - 25} more")
    sys.exit(1)

print(f"ok: reported tile counts match enumerated/visited tiles in {n_checks} cases")
sys.exit(0)
