import os, sys; sys.path.insert(0, os.getcwd())

# Demo 1: Builder.toast_base() must sample every (filtered) tile at that tile's
# own pixel centres *in the coordinate system that was asked for*, whether or
# not a tile filter is in use.
#
# Exits 0 if every tile file holds the sampler's values at the tile's pixel
# centres; exits 1 (listing the offending cases) otherwise.

import shutil
import tempfile

import numpy as np
from astropy.io import fits

from toasty import par_util
from toasty.builder import Builder
from toasty.pyramid import PyramidIO
from toasty.toast import (
    ToastCoordinateSystem,
    generate_tiles,
    toast_tile_get_coords,
)

par_util.SHOW_INFORMATIONAL_MESSAGES = False


def sampler(lon, lat):
    # Smooth, finite everywhere, and with no mirror symmetry in longitude, so
    # that the two TOAST coordinate systems give different tiles.
    return 3.0 * np.sin(lat) + np.cos(lon) + 0.5 * np.sin(2 * lon + 0.3) + 0.1 * lon


def west_half(tile):
    # Accept the tiles (and their ancestors) that descend from level-1 column 0.
    return (tile.pos.x >> (tile.pos.n - 1)) == 0


def accept_all(tile):
    return True


def read_tile_display(root, pos, fmt):
    p = os.path.join(root, str(pos.n), str(pos.y), "%d_%d.%s" % (pos.y, pos.x, fmt))
    if not os.path.exists(p):
        return None
    if fmt == "npy":
        return np.load(p)
    with fits.open(p) as hdul:
        return np.asarray(hdul[0].data)[::-1]  # FITS is stored bottom-up


def run_case(depth, fmt, tile_filter, how, coordsys, parallel):
    """Returns a list of problem strings."""
    root = tempfile.mkdtemp(prefix="c06demo1_")
    problems = []

    try:
        pio = PyramidIO(root, default_format=fmt)
        builder = Builder(pio)
        kwargs = dict(parallel=parallel)

        if tile_filter is not None:
            kwargs["tile_filter"] = tile_filter

        if how == "is_planet":
            kwargs["is_planet"] = coordsys == ToastCoordinateSystem.PLANETARY
        else:
            kwargs["coordsys"] = coordsys

        builder.toast_base(sampler, depth, **kwargs)

        n_checked = 0

        for tile in generate_tiles(depth, bottom_only=True, coordsys=coordsys):
            wanted = tile_filter is None or tile_filter(tile)
            got = read_tile_display(root, tile.pos, fmt)

            if not wanted:
                if got is not None:
                    problems.append("%r: file exists but tile was filtered out" % (tile.pos,))
                continue

            if got is None:
                problems.append("%r: tile file is missing" % (tile.pos,))
                continue

            lon, lat = toast_tile_get_coords(tile)
            expected = sampler(lon, lat)
            n_checked += 1

            if got.shape != expected.shape or not np.array_equal(got, expected):
                nbad = (
                    int((got != expected).sum())
                    if got.shape == expected.shape
                    else -1
                )
                problems.append(
                    "%r: %d pixels differ from sampler(tile's own coordinates)"
                    % (tile.pos, nbad)
                )

        if n_checked == 0:
            problems.append("no tiles were checked?!")
    finally:
        shutil.rmtree(root, ignore_errors=True)

    return problems


def main():
    failures = 0
    n_cases = 0

    for depth in (1, 2):
        for fmt in ("npy", "fits"):
            for tf_name, tf in (("none", None), ("all", accept_all), ("west", west_half)):
                for how in ("is_planet", "coordsys-kwarg"):
                    for coordsys in (
                        ToastCoordinateSystem.ASTRONOMICAL,
                        ToastCoordinateSystem.PLANETARY,
                    ):
                        for parallel in (1, 2):
                            if parallel == 2 and depth == 1:
                                continue
                            n_cases += 1
                            problems = run_case(depth, fmt, tf, how, coordsys, parallel)
                            if problems:
                                failures += 1
                                print(
                                    "FAIL depth=%d format=%s filter=%s via=%s coordsys=%s parallel=%d"
                                    % (depth, fmt, tf_name, how, coordsys.name, parallel)
                                )
                                for p in problems[:4]:
                                    print("    " + p)
                                if len(problems) > 4:
                                    print("    ... and %d more" % (len(problems) - 4))

    if failures:
        print(
            "%d of %d cases: tiles do not hold the sampler's values at their own "
            "pixel centres in the requested coordinate system" % (failures, n_cases)
        )
        return 1

    print("all %d cases OK" % n_cases)
    return 0


if __name__ == "__main__":
    sys.exit(main())
