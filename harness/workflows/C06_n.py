import os, sys; sys.path.insert(0, os.getcwd())

"""
Demo for C06: filtered TOAST sampling must write, into every tile that passes
the filter, the sampler's values at that tile's own pixel centres *in the
requested coordinate system*.

We sample a depth-2 layer in filtered mode (the "updating" code path) for both
coordinate systems, through the two public entry points:

  - toasty.toast.sample_layer_filtered(..., coordsys=...)
  - toasty.builder.Builder.toast_base(..., is_planet=..., tile_filter=...)

and compare every tile file with the sampler evaluated on the coordinates of
that very tile (`generate_tiles(coordsys=...)` + `toast_tile_get_coords`), and
with the unfiltered `sample_layer` output for the same coordinate system.

Exit 0 if everything agrees, 1 otherwise.
"""

import shutil
import tempfile

import numpy as np

from toasty.builder import Builder
from toasty.pyramid import Pos, PyramidIO
from toasty.toast import (
    ToastCoordinateSystem,
    generate_tiles,
    sample_layer,
    sample_layer_filtered,
    toast_tile_get_coords,
)

DEPTH = 2
problems = []


def sampler(lon, lat):
    # An exact, injective-enough function of the sky position (float64).
    return np.cos(lat) * np.sin(lon) + 10.0 * lat + 100.0 * np.cos(lon)


def accept_all(tile):
    return True


def accept_some(tile):
    # Keep the left half of the pyramid: positions with x < 2**n / 2.
    return tile.pos.x < 2 ** (tile.pos.n - 1)


def expected_tiles(coordsys, tile_filter):
    exp = {}
    for tile in generate_tiles(DEPTH, bottom_only=True, coordsys=coordsys):
        if tile_filter(tile):
            lon, lat = toast_tile_get_coords(tile)
            exp[tile.pos] = sampler(lon, lat)
    return exp


def read_tile(pio, pos, fmt):
    path = pio.tile_path(pos, format=fmt, makedirs=False)
    if not os.path.exists(path):
        return None
    if fmt == "npy":
        return np.load(path)
    from astropy.io import fits

    with fits.open(path) as hdul:
        # FITS tiles are stored bottom-up; bring to display orientation.
        return np.array(hdul[0].data)[::-1]


def check(label, pio, fmt, coordsys, tile_filter):
    exp = expected_tiles(coordsys, tile_filter)
    n_bad = 0

    for y in range(2**DEPTH):
        for x in range(2**DEPTH):
            pos = Pos(DEPTH, x, y)
            got = read_tile(pio, pos, fmt)

            if pos not in exp:
                if got is not None:
                    problems.append(f"{label}: tile {pos} written although filtered out")
                continue

            if got is None:
                problems.append(f"{label}: tile {pos} is missing")
                continue

            if got.shape != exp[pos].shape or not np.array_equal(got, exp[pos]):
                n_bad += 1
                if n_bad <= 3:
                    d = np.nanmax(np.abs(got - exp[pos]))
                    problems.append(
                        f"{label}: tile {pos} does not hold the sampler's values at its "
                        f"own {coordsys.name} pixel centres (max abs diff {d:.6g})"
                    )

    if n_bad > 3:
        problems.append(f"{label}: ... {n_bad} of {len(exp)} tiles wrong in total")

    print(f"{label}: {len(exp)} tiles expected, {n_bad} wrong")


def main():
    work = tempfile.mkdtemp(prefix="c06demo_")

    try:
        for coordsys in (ToastCoordinateSystem.ASTRONOMICAL, ToastCoordinateSystem.PLANETARY):
            is_planet = coordsys == ToastCoordinateSystem.PLANETARY

            for fmt in ("npy", "fits"):
                for fname, tf in (("all", accept_all), ("half", accept_some)):
                    for par in (1, 3):
                        tag = f"{coordsys.name}/{fmt}/{fname}/j{par}"

                        # 1. the library function
                        d = os.path.join(work, tag.replace("/", "_") + "_fn")
                        pio = PyramidIO(d, default_format=fmt)
                        sample_layer_filtered(
                            pio, tf, sampler, DEPTH, coordsys=coordsys, parallel=par
                        )
                        check("sample_layer_filtered " + tag, pio, fmt, coordsys, tf)

                        # 2. the Builder, the way FitsTiler and scripts drive it
                        d = os.path.join(work, tag.replace("/", "_") + "_bld")
                        pio = PyramidIO(d, default_format=fmt)
                        Builder(pio).toast_base(
                            sampler,
                            DEPTH,
                            is_planet=is_planet,
                            tile_filter=tf,
                            parallel=par,
                        )
                        check("Builder.toast_base " + tag, pio, fmt, coordsys, tf)

                # 3. filtered(accept everything) == unfiltered, same coordsys
                d1 = os.path.join(work, f"{coordsys.name}_{fmt}_plain")
                pio1 = PyramidIO(d1, default_format=fmt)
                sample_layer(pio1, sampler, DEPTH, coordsys=coordsys, parallel=1)
                d2 = os.path.join(work, f"{coordsys.name}_{fmt}_all_j1_fn")
                pio2 = PyramidIO(d2, default_format=fmt)
                ndiff = 0
                for y in range(2**DEPTH):
                    for x in range(2**DEPTH):
                        pos = Pos(DEPTH, x, y)
                        a = read_tile(pio1, pos, fmt)
                        b = read_tile(pio2, pos, fmt)
                        if a is None or b is None or not np.array_equal(a, b):
                            ndiff += 1
                if ndiff:
                    problems.append(
                        f"{coordsys.name}/{fmt}: {ndiff} of {4**DEPTH} tiles differ between "
                        f"sample_layer and sample_layer_filtered(accept-all)"
                    )
    finally:
        shutil.rmtree(work, ignore_errors=True)

    if problems:
        print()
        print("C06 VIOLATED:")
        for p in problems:
            print("  -", p)
        return 1

    print("OK: all filtered-mode tiles hold the sampler's values at their own pixel centres")
    return 0


if __name__ == "__main__":
    sys.exit(main())
