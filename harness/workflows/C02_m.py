import os, sys; sys.path.insert(0, os.getcwd())

# Demo 2: a tile pyramid directory that holds the same sparse set of leaf tiles
# in two formats (float32 `.npy` data tiles and RGBA `.png` tiles -- the layout
# that e.g. an in-place `toasty transform` leaves behind). The user cascades
# each format with `toasty cascade --format FMT --start 2 DIR` and we check
# property C02 on the files of that format: every tile above the start level
# exists exactly when one of its children exists (and the merge is not entirely
# undefined) and is the 2x2 block reduction of the mosaic of its children.
#
# Determinism: PyramidIO's format guessing walks the directory with
# `glob.iglob()`, whose order is whatever the filesystem returns. To make the
# outcome independent of the filesystem we wrap `glob.iglob` so that it yields
# its results in sorted order (so `.npy` files come before `.png` files). On the
# clean tree no guessing happens at all when `--format` is given, so the
# wrapper is irrelevant there.

import glob
import shutil
import tempfile
import warnings

import numpy as np
from PIL import Image as PILImage

_orig_iglob = glob.iglob


def _sorted_iglob(*args, **kwargs):
    return iter(sorted(_orig_iglob(*args, **kwargs)))


glob.iglob = _sorted_iglob

START = 2
LEAVES = [(0, 0), (1, 0), (3, 1), (2, 3)]  # (x, y) at level START; sparse


def tile_file(base, n, x, y, ext):
    return os.path.join(base, str(n), str(y), "%d_%d.%s" % (y, x, ext))


def make_leaves(base):
    rng = np.random.RandomState(20240229)

    for x, y in LEAVES:
        os.makedirs(os.path.join(base, str(START), str(y)), exist_ok=True)

        # float32 data with some NaNs, including a fully-NaN 2x2 block
        f = rng.uniform(-5, 5, size=(256, 256)).astype(np.float32)
        f[rng.uniform(size=f.shape) < 0.2] = np.nan
        f[10:12, 20:22] = np.nan
        np.save(tile_file(base, START, x, y, "npy"), f)

        # RGBA with some fully transparent pixels (stored as all-zero)
        c = rng.randint(1, 256, size=(256, 256, 4)).astype(np.uint8)
        transparent = rng.uniform(size=(256, 256)) < 0.2
        transparent[30:32, 40:42] = True
        c[transparent] = 0
        PILImage.fromarray(c, mode="RGBA").save(tile_file(base, START, x, y, "png"))


def read_tile(path, ext):
    if ext == "npy":
        return np.load(path)
    return np.asarray(PILImage.open(path).convert("RGBA"))


def check_pyramid(base, start, ext):
    problems = []

    for n in range(start - 1, -1, -1):
        for y in range(2**n):
            for x in range(2**n):
                if ext == "npy":
                    mosaic = np.full((512, 512), np.nan, dtype=np.float32)
                else:
                    mosaic = np.zeros((512, 512, 4), dtype=np.uint8)

                any_child = False

                for j in range(2):
                    for i in range(2):
                        cp = tile_file(base, n + 1, 2 * x + i, 2 * y + j, ext)
                        if os.path.exists(cp):
                            any_child = True
                            child = np.array(read_tile(cp, ext))
                            if ext == "png":
                                # fully transparent pixels are undefined: only
                                # valid pixels are put into the mosaic
                                child[child[..., 3] == 0] = 0
                            # npy and png tiles are both stored top-down
                            mosaic[
                                256 * j : 256 * (j + 1), 256 * i : 256 * (i + 1)
                            ] = child

                blocks = mosaic.reshape((256, 2, 256, 2) + mosaic.shape[2:])

                with warnings.catch_warnings():
                    warnings.simplefilter("ignore")
                    if ext == "npy":
                        expected = np.nanmean(
                            blocks.astype(np.float64), axis=(1, 3)
                        ).astype(np.float32)
                        undefined = np.all(np.isnan(expected))
                    else:
                        expected = (
                            blocks.astype(np.float64).sum(axis=(1, 3)) / 4
                        ).astype(np.uint8)
                        undefined = np.all(expected[..., 3] == 0)

                should_exist = any_child and not undefined
                pp = tile_file(base, n, x, y, ext)
                exists = os.path.exists(pp)

                if exists != should_exist:
                    problems.append(
                        "%s tile L%d x=%d y=%d: exists=%s but expected exists=%s "
                        "(some .%s child exists: %s)"
                        % (ext, n, x, y, exists, should_exist, ext, any_child)
                    )
                    continue

                if exists:
                    got = read_tile(pp, ext)
                    if ext == "npy":
                        ok = (
                            got.shape == expected.shape
                            and got.dtype == np.float32
                            and np.allclose(
                                got, expected, rtol=1e-5, atol=1e-6, equal_nan=True
                            )
                        )
                    else:
                        ok = got.shape == expected.shape and np.array_equal(
                            got, expected
                        )
                    if not ok:
                        problems.append(
                            "%s tile L%d x=%d y=%d: pixels are not the 2x2 reduction of its children"
                            % (ext, n, x, y)
                        )

    return problems


def main():
    from toasty import cli

    work = tempfile.mkdtemp(prefix="c02demo2_")
    problems = []

    try:
        for jobs in ("1", "2"):
            base = os.path.join(work, "pyramid_j" + jobs)
            make_leaves(base)

            for ext in ("npy", "png"):
                cli.entrypoint(
                    ["cascade", "--start", str(START), "--format", ext, "-j", jobs, base]
                )

                for p in check_pyramid(base, START, ext):
                    problems.append("-j %s --format %s: %s" % (jobs, ext, p))
    finally:
        shutil.rmtree(work, ignore_errors=True)

    if problems:
        print("C02 VIOLATED after `toasty cascade --format FMT`:")
        for p in problems:
            print("  -", p)
        return 1

    print("OK: for both formats every parent tile is the 2x2 downsample of its children")
    return 0


if __name__ == "__main__":
    sys.exit(main())
