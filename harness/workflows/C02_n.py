import os, sys; sys.path.insert(0, os.getcwd())

# Demo for C02: `toasty cascade --format FMT` on a pyramid directory that
# holds tiles of more than one format (e.g. after an in-place `toasty transform
# fx3-to-rgb`, which writes PNG tiles next to the NPY ones, or a FITS study and
# its PNG rendering sharing a directory).
#
# For each of the formats present we ask the command line to cascade exactly
# that format, and then check that every parent tile of that format (a) exists
# exactly when one of its children exists and the merge is not all-undefined
# and (b) is the 2x2 block reduction of the mosaic of its children.
#
# Exit 0: all good.  Exit 1: a discrepancy was found (it is printed).

import shutil
import tempfile
import warnings

import numpy as np
from astropy.io import fits
from PIL import Image as PILImage

import toasty
from toasty import cli

DEPTH = 2
# sparse population of the 4x4 level-2 grid: (x, y)
LEAVES = [(0, 0), (1, 0), (0, 1), (3, 2), (2, 3)]
EXT = {"png": "png", "npy": "npy", "fits": "fits"}


def tile_path(root, n, x, y, fmt):
    return os.path.join(root, str(n), str(y), "{}_{}.{}".format(y, x, EXT[fmt]))


def make_leaf(fmt, x, y):
    """Displayed (row 0 on top) content of the leaf tile for this format.
    Different formats get different contents so that a mix-up is visible."""
    rng = np.random.RandomState(1000 * ("png", "npy", "fits").index(fmt) + 10 * x + y)
    if fmt == "png":
        a = rng.randint(1, 256, size=(256, 256, 4)).astype(np.uint8)
        a[..., 3] = 255
        # a transparent patch, stored as all-zero RGBA
        a[40:90, 100:180, :] = 0
        return a
    else:
        a = rng.normal(size=(256, 256)).astype(np.float32)
        a += 5.0 if fmt == "npy" else -5.0
        a[10:60, 30:200] = np.nan
        if (x, y) == (3, 2):
            a[:, :] = np.nan
            a[200:, 200:] = 1.5
        return a


def write_tile(root, n, x, y, fmt, displayed):
    p = tile_path(root, n, x, y, fmt)
    os.makedirs(os.path.dirname(p), exist_ok=True)
    if fmt == "png":
        PILImage.fromarray(displayed, mode="RGBA").save(p, format="PNG")
    elif fmt == "npy":
        np.save(p, displayed)
    elif fmt == "fits":
        # FITS tiles are stored bottom-up
        fits.writeto(p, displayed[::-1].copy(), overwrite=True)


def read_tile(root, n, x, y, fmt):
    """Return the displayed (row 0 on top) content, or None if missing."""
    p = tile_path(root, n, x, y, fmt)
    if not os.path.exists(p):
        return None
    if fmt == "png":
        return np.asarray(PILImage.open(p).convert("RGBA"))
    elif fmt == "npy":
        return np.load(p)
    elif fmt == "fits":
        with fits.open(p) as hdul:
            data = np.array(hdul[0].data)
            # FITS is big-endian on disk; same type, native byte order
            data = data.astype(data.dtype.newbyteorder("="))
            return data[::-1]


def reduce_mosaic(fmt, kids):
    """kids: dict (i, j) -> displayed child or None. Return the expected
    displayed parent, or None if it should not exist."""
    if all(k is None for k in kids.values()):
        return None

    if fmt == "png":
        mosaic = np.zeros((512, 512, 4), dtype=np.uint8)
    else:
        mosaic = np.full((512, 512), np.nan, dtype=np.float32)

    for (i, j), k in kids.items():
        if k is not None:
            mosaic[256 * j : 256 * (j + 1), 256 * i : 256 * (i + 1)] = k

    if fmt == "png":
        # transparent pixels count as (0,0,0,0)
        mosaic[mosaic[..., 3] == 0] = 0
        blocks = mosaic.reshape(256, 2, 256, 2, 4).astype(np.float64)
        out = blocks.mean(axis=(1, 3)).astype(np.uint8)
        if np.all(out[..., 3] == 0):
            return None
        return out
    else:
        blocks = mosaic.reshape(256, 2, 256, 2)
        with warnings.catch_warnings():
            warnings.simplefilter("ignore")
            out = np.nanmean(blocks, axis=(1, 3)).astype(np.float32)
        if np.all(np.isnan(out)):
            return None
        return out


def expected_pyramid(fmt):
    """dict (n, x, y) -> displayed array, for levels DEPTH-1 .. 0."""
    level = {(x, y): make_leaf(fmt, x, y) for (x, y) in LEAVES}
    result = {}
    for n in range(DEPTH - 1, -1, -1):
        up = {}
        for x in range(2**n):
            for y in range(2**n):
                kids = {
                    (i, j): level.get((2 * x + i, 2 * y + j))
                    for i in (0, 1)
                    for j in (0, 1)
                }
                up[(x, y)] = reduce_mosaic(fmt, kids)
                result[(n, x, y)] = up[(x, y)]
        level = {k: v for k, v in up.items() if v is not None}
    return result


def check(root, fmt, problems):
    exp = expected_pyramid(fmt)
    for (n, x, y), e in sorted(exp.items(), key=lambda t: (-t[0][0], t[0][1:])):
        got = read_tile(root, n, x, y, fmt)
        name = "{} tile L{} x={} y={}".format(fmt, n, x, y)
        if e is None:
            if got is not None:
                problems.append(name + ": exists but none of its children do")
            continue
        if got is None:
            problems.append(
                name + ": MISSING although it has populated children (`cascade --format {}`)".format(fmt)
            )
            continue
        if got.shape != e.shape or got.dtype != e.dtype:
            problems.append(
                name + ": shape/dtype {} {} expected {} {}".format(got.shape, got.dtype, e.shape, e.dtype)
            )
            continue
        if fmt == "png":
            same = np.array_equal(got, e)
        else:
            same = np.array_equal(got, e, equal_nan=True)
        if not same:
            problems.append(name + ": pixels differ from the 2x2 reduction of its children")


def main():
    print("toasty imported from", os.path.dirname(toasty.__file__))
    problems = []
    formats = ["png", "npy", "fits"]

    work = tempfile.mkdtemp(prefix="c02demo_")
    try:
        for workers in ("1", "2"):
            root = os.path.join(work, "pyr_j" + workers)

            # One pyramid directory holding the same sparse base layer in three formats.
            for fmt in formats:
                for x, y in LEAVES:
                    write_tile(root, DEPTH, x, y, fmt, make_leaf(fmt, x, y))

            for fmt in formats:
                cli.entrypoint(
                    [
                        "cascade",
                        "--parallelism",
                        workers,
                        "--format",
                        fmt,
                        "--start",
                        str(DEPTH),
                        root,
                    ]
                )

            for fmt in formats:
                before = len(problems)
                check(root, fmt, problems)
                print(
                    "workers={} format={}: {}".format(
                        workers, fmt, "ok" if len(problems) == before else "PROBLEMS"
                    )
                )
    finally:
        shutil.rmtree(work, ignore_errors=True)

    if problems:
        print()
        print("C02 violated: after `toasty cascade --format FMT --start {} DIR`:".format(DEPTH))
        for p in problems:
            print("  -", p)
        return 1

    print("all parent tiles of every requested format are the 2x2 reduction of their children")
    return 0


if __name__ == "__main__":
    sys.exit(main())
