import os, sys; sys.path.insert(0, os.getcwd())

"""
Demo for change 1 (property C13).

Two small FITS images on opposite sides of the sky are tiled together into
one TOAST pyramid with `toasty.tile_fits(..., tiling_method=TOAST, start=4)`.

What a user relies on: the downsampling walk visits exactly the live non-leaf
tiles of the pyramid restricted to the area covered by the inputs, i.e.

    number of walk visits == count_operations()
    leaves + operations   == live tiles
    every leaf tile on disk has all of its ancestors on disk

where the pyramid is the one filtered by "tile touches image 1 OR image 2".
"""

import glob
import shutil
import tempfile

import numpy as np
from astropy.io import fits
from astropy.wcs import WCS

import toasty
from toasty import TilingMethod, collection, merge
from toasty.pyramid import Pos, Pyramid, pos_parent
from toasty.samplers import WcsSampler

DEPTH = 4


def make_fits(path, ra, dec):
    w = WCS(naxis=2)
    w.wcs.ctype = ["RA---TAN", "DEC--TAN"]
    w.wcs.crval = [ra, dec]
    w.wcs.crpix = [20.5, 20.5]
    w.wcs.cdelt = [-0.25, 0.25]
    hdr = w.to_header()
    data = (1.0 + np.arange(40 * 40, dtype=np.float32)).reshape((40, 40))
    fits.PrimaryHDU(data=data, header=hdr).writeto(path)


def tiles_on_disk(out_dir):
    found = set()
    for p in glob.glob(os.path.join(out_dir, "*", "*", "*_*.fits")):
        rel = os.path.relpath(p, out_dir).split(os.sep)
        n = int(rel[0])
        y = int(rel[1])
        x = int(os.path.splitext(rel[2])[0].split("_")[1])
        found.add(Pos(n, x, y))
    return found


def main():
    work = tempfile.mkdtemp(prefix="c13demo1_")
    problems = []

    try:
        p1 = os.path.join(work, "a.fits")
        p2 = os.path.join(work, "b.fits")
        make_fits(p1, 40.0, 30.0)
        make_fits(p2, 220.0, -40.0)
        out_dir = os.path.join(work, "tiled")

        # Record what the downsampling walk actually visits.
        visited = []
        orig_cb = merge.TileMerger.walk_callback

        def recording_cb(self, pos):
            visited.append(pos)
            return orig_cb(self, pos)

        merge.TileMerger.walk_callback = recording_cb

        try:
            toasty.tile_fits(
                [p1, p2],
                out_dir=out_dir,
                tiling_method=TilingMethod.TOAST,
                start=DEPTH,
                parallel=1,
                cli_progress=False,
            )
        finally:
            merge.TileMerger.walk_callback = orig_cb

        # The pyramid the user asked for: tiles touching either input image.
        coll = collection.load([p1, p2])
        filters = [
            WcsSampler(data=img.asarray(), wcs=img.wcs).filter()
            for img in coll.images()
        ]
        union = lambda t: any(f(t) for f in filters)

        pyr = Pyramid.new_toast_filtered(DEPTH, union)
        n_leaves = pyr.count_leaf_tiles()
        n_live = pyr.count_live_tiles()
        n_ops = pyr.count_operations()
        print(f"union pyramid: leaves={n_leaves} live={n_live} operations={n_ops}")

        if n_ops + n_leaves != n_live:
            problems.append("operations + leaves != live for the union pyramid")

        print(f"walk visits during tile_fits cascade: {len(visited)}")

        if len(visited) != len(set(visited)):
            problems.append("the walk visited some position more than once")

        if len(visited) != n_ops:
            problems.append(
                f"cascade walk visited {len(visited)} tiles but the pyramid "
                f"covering both images has {n_ops} operations"
            )

        # Same thing, seen from the files the user ends up with.
        on_disk = tiles_on_disk(out_dir)
        leaves = set(p for p in on_disk if p.n == DEPTH)
        inner = set(p for p in on_disk if p.n < DEPTH)

        if len(set((p.x >> (DEPTH - 1), p.y >> (DEPTH - 1)) for p in leaves)) < 2:
            problems.append("test setup: leaf tiles do not span two level-1 tiles")

        expected_inner = set()
        for p in leaves:
            while p.n > 0:
                p = pos_parent(p)[0]
                expected_inner.add(p)

        print(
            f"on disk: {len(leaves)} leaf tiles, {len(inner)} shallower tiles; "
            f"ancestors of the leaves: {len(expected_inner)}"
        )

        missing = sorted(expected_inner - inner)
        extra = sorted(inner - expected_inner)

        if missing:
            problems.append(
                f"{len(missing)} ancestors of leaf tiles were never produced, e.g. {missing[:4]}"
            )
        if extra:
            problems.append(f"{len(extra)} shallower tiles have no leaf below them")
    finally:
        shutil.rmtree(work, ignore_errors=True)

    if problems:
        for p in problems:
            print("FAIL:", p)
        return 1

    print("OK")
    return 0


if __name__ == "__main__":
    sys.exit(main())
