import os, sys; sys.path.insert(0, os.getcwd())

# Demo for C15 (undefined pixels stay undefined), observed through the
# `--black-to-transparent` image-loading option of `toasty tile-study`.
#
# The input is a 512x512 RGBA PNG:
#   - left half: opaque colour, with a block of pure black opaque pixels;
#   - right half: fully transparent (alpha = 0), but -- as many image editors
#     leave it -- with non-zero colour values underneath the zero alpha.
#
# Expected (clean tree):
#   - pixels that were undefined in the input stay undefined after loading;
#     `--black-to-transparent` only *adds* the black pixels to the undefined set
#   - the two right-hand tiles are all-undefined: they are not stored, and stale
#     files already sitting at those positions are removed
#   - the level-0 tile produced by `toasty cascade` is undefined on its right half
#
# Run as: cd /tmp/seed_C15 && /venv/bin/python /tmp/seed7_C15_out/demo1.py

import argparse
import shutil
import tempfile

import numpy as np
from PIL import Image as PILImage

import toasty
from toasty import cli
from toasty.image import ImageLoader
from toasty.pyramid import Pos, PyramidIO

print("testing toasty from:", os.path.dirname(toasty.__file__))

failures = []


def check(cond, msg):
    if not cond:
        failures.append(msg)
        print("FAIL:", msg)
    else:
        print("ok:  ", msg)


work = tempfile.mkdtemp(prefix="seed7_C15_demo_")

try:
    # Build the input image

    src = np.zeros((512, 512, 4), dtype=np.uint8)
    src[:, :256, 0] = 200
    src[:, :256, 1] = 100
    src[:, :256, 2] = 50
    src[:, :256, 3] = 255
    src[100:140, 30:90, :3] = 0  # opaque pure-black block in the left half
    src[:, 256:, :3] = (10, 20, 30)  # colour underneath ...
    src[:, 256:, 3] = 0  # ... fully transparent pixels

    in_path = os.path.join(work, "input.png")
    PILImage.fromarray(src, mode="RGBA").save(in_path)

    src_undefined = src[..., 3] == 0
    black = np.all(src[..., :3] == 0, axis=2)
    expect_alpha = np.where(src_undefined | black, 0, 255).astype(np.uint8)

    # 1. The loader, as configured from the command-line options

    parser = argparse.ArgumentParser()
    ImageLoader.add_arguments(parser)
    settings = parser.parse_args(["--black-to-transparent"])
    img = ImageLoader.create_from_args(settings).load_path(in_path)
    arr = img.asarray()

    check(arr.shape == (512, 512, 4), "loaded image is 512x512 RGBA")
    n_bad = int(np.count_nonzero(arr[..., 3][src_undefined] != 0))
    check(
        n_bad == 0,
        f"--black-to-transparent: input pixels with alpha=0 stay undefined "
        f"({n_bad} of {int(src_undefined.sum())} became defined)",
    )
    check(
        np.array_equal(arr[..., 3], expect_alpha),
        "--black-to-transparent: alpha is 0 exactly on (undefined | black) pixels",
    )

    # 2. The tile-study workflow, into a directory with stale files at the
    #    positions of the all-undefined tiles.

    out = os.path.join(work, "out")
    pio = PyramidIO(out, default_format="png")
    stale = np.full((256, 256, 4), 255, dtype=np.uint8)
    undefined_positions = [Pos(1, 1, 0), Pos(1, 1, 1)]

    for pos in undefined_positions:
        PILImage.fromarray(stale, mode="RGBA").save(pio.tile_path(pos))
        assert os.path.exists(pio.tile_path(pos, makedirs=False))

    cli.entrypoint(
        [
            "tile-study",
            "--black-to-transparent",
            "--placeholder-thumbnail",
            "--outdir",
            out,
            in_path,
        ]
    )

    for pos in undefined_positions:
        p = pio.tile_path(pos, makedirs=False)
        check(
            not os.path.exists(p),
            f"all-undefined tile {pos} is not stored / stale file removed ({p})",
        )
        check(
            pio.read_image(pos, default="none") is None,
            f"all-undefined tile {pos} reads back as absent",
        )

    for pos, ys in ((Pos(1, 0, 0), slice(0, 256)), (Pos(1, 0, 1), slice(256, 512))):
        tile = pio.read_image(pos, default="none")
        check(tile is not None, f"tile {pos} exists")
        if tile is not None:
            t = tile.asarray()
            check(
                t.shape == (256, 256, 4)
                and np.array_equal(t[..., 3], expect_alpha[ys, :256]),
                f"tile {pos} alpha matches the expected mask",
            )
            defined = t[..., 3] != 0
            check(
                np.array_equal(t[..., :3][defined], src[ys, :256, :3][defined]),
                f"tile {pos} defined pixels equal the source",
            )

    # 3. Cascade: the parent tile must be undefined on its right half

    cli.entrypoint(["cascade", "--start", "1", "-j", "1", out])
    top = pio.read_image(Pos(0, 0, 0), default="none")
    check(top is not None, "level-0 tile exists after cascade")
    if top is not None:
        t = top.asarray()
        n_def = int(np.count_nonzero(t[:, 128:, 3]))
        check(
            n_def == 0,
            f"level-0 tile: right half (undefined in the input) is undefined "
            f"({n_def} defined pixels)",
        )
finally:
    shutil.rmtree(work, ignore_errors=True)

if failures:
    print()
    print(f"{len(failures)} check(s) FAILED: undefined input pixels did not stay undefined")
    sys.exit(1)

print()
print("all checks passed")
sys.exit(0)
