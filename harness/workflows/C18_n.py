import os, sys; sys.path.insert(0, os.getcwd())

# C18 demonstration: publish an approved image through the command line with a
# failure injected before / during / after individual transfers and under
# several directory-listing orders; after every failure, and after the re-run
# that has to complete the job, compare what the destination store holds with
# the files of the image.
#
# Exit status 0: the property held everywhere.  Non-zero: it did not (the
# first violation is printed).

import contextlib
import io
import re
import shutil
import tempfile

from toasty import cli, pipeline
from toasty.pipeline import local_io
from toasty.tests import mk_test_path
from toasty.tests.test_pipeline import LocalTestAstroPixImageSource

IMAGE_ID = "fake_test1"


class Crash(Exception):
    """The injected failure."""


def fail(msg):
    print("C18 VIOLATED:", msg)
    sys.exit(1)


def run(*args):
    """Run `toasty ARGS` in-process; return what it printed."""
    out = io.StringIO()
    with contextlib.redirect_stdout(out), contextlib.redirect_stderr(out):
        cli.entrypoint(list(args))
    return out.getvalue()


# ---------------------------------------------------------------------------
# failure injection around the store's put_item, and control of listing order


class HalfReader(object):
    """Hands over the first half of a stream, then the transfer dies."""

    def __init__(self, inner):
        self._data = inner.read()
        self._calls = 0

    def read(self, *args):
        self._calls += 1
        if self._calls == 1:
            return self._data[: max(1, len(self._data) // 2)]
        raise Crash("transfer interrupted half-way")


class Injection(object):
    k = None  # index of the transfer to hit (None: no failure)
    mode = None  # 'before' | 'during' | 'after'
    n = 0  # transfers seen so far in this run
    log = []


orig_put_item = local_io.LocalPipelineIo.put_item


def put_item(self, *path, source=None):
    i = Injection.n
    Injection.n += 1
    Injection.log.append(path)

    if Injection.k == i:
        if Injection.mode == "before":
            raise Crash("failure before transfer %d" % i)
        if Injection.mode == "during":
            return orig_put_item(self, *path, source=HalfReader(source))
        if Injection.mode == "after":
            orig_put_item(self, *path, source=source)
            raise Crash("failure after transfer %d" % i)

    return orig_put_item(self, *path, source=source)


local_io.LocalPipelineIo.put_item = put_item


class Listing(object):
    target = None  # directory whose listing order is controlled
    order = None  # function: list of names -> list of names


orig_listdir = os.listdir


def listdir(path="."):
    names = orig_listdir(path)
    if Listing.target is not None and Listing.order is not None:
        try:
            same = os.path.abspath(path) == Listing.target
        except TypeError:
            same = False
        if same:
            names = Listing.order(list(names))
    return names


os.listdir = listdir


def index_at(pos):
    def order(names):
        names = sorted(names)
        if "index.wtml" in names:
            names.remove("index.wtml")
            p = pos if pos >= 0 else len(names) + 1 + pos
            names.insert(min(p, len(names)), "index.wtml")
        return names

    return order


ORDERS = [
    ("as the OS lists it", lambda names: names),
    ("sorted", lambda names: sorted(names)),
    ("reverse sorted", lambda names: sorted(names, reverse=True)),
    ("index.wtml first", index_at(0)),
    ("index.wtml second", index_at(1)),
    ("index.wtml in the middle", lambda names: index_at(len(names) // 2)(names)),
]


# ---------------------------------------------------------------------------
# helpers to look at the work area and at the store


def read_dir(path):
    """{name: bytes} of the regular files directly inside `path`."""
    result = {}
    for name in orig_listdir(path):
        p = os.path.join(path, name)
        if os.path.isfile(p):
            with open(p, "rb") as f:
                result[name] = f.read()
    return result


def store_items(store_dir):
    """The finished items the store holds for the image (temporaries that an
    interrupted transfer leaves behind are not items)."""
    if not os.path.isdir(store_dir):
        return {}
    return {k: v for k, v in read_dir(store_dir).items() if not k.endswith(".tmp")}


def refresh_says_done(work):
    out = run("pipeline", "refresh", "--workdir", work)
    m = re.search(r"- (\d+) were already done", out)
    if m is None:
        fail("could not understand the output of `pipeline refresh`:\n" + out)
    return int(m.group(1)) > 0


def check_store(when, fileset, store_dir, work):
    """The heart of C18: an index.wtml in the store (which is what makes
    refresh skip the image) implies that every other file is there, whole."""
    items = store_items(store_dir)

    for name, data in items.items():
        if name in fileset and data != fileset[name]:
            fail(
                "%s: the store holds %s/%s, but it is incomplete or altered "
                "(%d bytes, the image's file has %d)"
                % (when, IMAGE_ID, name, len(data), len(fileset[name]))
            )

    has_index = "index.wtml" in items
    done = refresh_says_done(work)

    if done != has_index:
        fail(
            "%s: refresh says done=%r but index.wtml in store=%r"
            % (when, done, has_index)
        )

    if has_index:
        missing = sorted(n for n in fileset if n not in items)
        if missing:
            fail(
                "%s: the store holds %s/index.wtml and `pipeline refresh` counts "
                "the image as already done, yet %d of its %d files are missing "
                "from the store, e.g. %s (the store has: %s ...)"
                % (
                    when,
                    IMAGE_ID,
                    len(missing),
                    len(fileset),
                    ", ".join(missing[:4]),
                    ", ".join(sorted(items)[:4]),
                )
            )

    return has_index


# ---------------------------------------------------------------------------


def main():
    pipeline.IMAGE_SOURCE_CLASS_LOADERS[
        "_local_test_astropix"
    ] = lambda: LocalTestAstroPixImageSource

    top = tempfile.mkdtemp(prefix="c18demo")

    try:
        repo = os.path.join(top, "repo")
        work = os.path.join(top, "work")
        os.makedirs(repo)
        shutil.copy(mk_test_path("toasty-pipeline-config.yaml"), repo)

        run("pipeline", "init", "--local", repo, work)
        run("pipeline", "refresh", "--workdir", work)
        run("pipeline", "fetch", "--workdir", work, IMAGE_ID)
        run("pipeline", "process-todos", "--workdir", work)
        run("pipeline", "approve", "--workdir", work, IMAGE_ID)

        approved = os.path.join(work, "approved", IMAGE_ID)
        published = os.path.join(work, "published", IMAGE_ID)
        store_dir = os.path.join(repo, IMAGE_ID)

        fileset = read_dir(approved)
        n = len(fileset)
        if "index.wtml" not in fileset or n < 20:
            fail("setup: unexpected approved image: %r" % sorted(fileset)[:10])
        print("approved image has %d files" % n)

        Listing.target = os.path.abspath(approved)
        n_scenarios = 0

        for order_name, order in ORDERS:
            Listing.order = order
            idx = order(sorted(fileset)).index("index.wtml")
            ks = sorted(set([0, 1, 2, idx, idx + 1, n // 2, n - 2, n - 1]) & set(range(n)))

            for k in ks:
                for mode in ("before", "during", "after"):
                    when = "listing %s, failure %s transfer %d of %d" % (
                        order_name,
                        mode,
                        k + 1,
                        n,
                    )
                    n_scenarios += 1

                    # The publish run that fails.
                    Injection.k, Injection.mode = k, mode
                    Injection.n, Injection.log = 0, []
                    try:
                        run("pipeline", "publish", "--workdir", work)
                    except Crash:
                        pass
                    else:
                        fail(when + ": the injected failure did not surface")

                    sent = [p[-1] for p in Injection.log]
                    if "index.wtml" in sent[:-1] or (
                        "index.wtml" in sent and len(sent) != n
                    ):
                        fail(
                            when + ": index.wtml was handed to the store as "
                            "transfer %d of %d" % (sent.index("index.wtml") + 1, n)
                        )

                    if os.path.exists(published):
                        fail(when + ": image moved to published/ despite the failure")
                    if read_dir(approved) != fileset:
                        fail(when + ": approved/%s was damaged" % IMAGE_ID)

                    check_store("after " + when, fileset, store_dir, work)

                    # The re-run has to complete the job.
                    Injection.k, Injection.mode = None, None
                    Injection.n, Injection.log = 0, []
                    run("pipeline", "publish", "--workdir", work)

                    if os.path.exists(approved) or not os.path.isdir(published):
                        fail(when + ": re-run did not move the image to published/")
                    if read_dir(published) != fileset:
                        fail(when + ": published/%s differs from what was approved" % IMAGE_ID)

                    has_index = check_store(
                        "after the re-run following " + when, fileset, store_dir, work
                    )
                    if not has_index:
                        fail(when + ": re-run finished but the store has no index.wtml")

                    items = store_items(store_dir)
                    if set(items) != set(fileset):
                        fail(
                            when + ": after the re-run the store holds other names "
                            "than the image: extra %s"
                            % sorted(set(items) - set(fileset))[:4]
                        )

                    # Back to the starting point for the next scenario.
                    os.rename(published, approved)
                    shutil.rmtree(store_dir)

        print("C18 held in %d failure scenarios (each followed by a re-run)" % n_scenarios)
    finally:
        shutil.rmtree(top, ignore_errors=True)


if __name__ == "__main__":
    main()
