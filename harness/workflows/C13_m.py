import os, sys; sys.path.insert(0, os.getcwd())

"""
Demo for change 2 (property C13).

Restricting a pyramid to a sub-pyramid must give exactly the part of the full
result that lies below the apex -- for every apex, including an apex whose
depth equals the depth of the pyramid (a single leaf tile: 1 leaf, 1 live
tile, 0 operations, one leaf visit, no walk visits).

Exhaustive over depths 0..3 and all apex positions, for generic, TOAST and
filtered TOAST pyramids; serial visits only, so it is deterministic.
"""

import contextlib
import io

from toasty.pyramid import Pos, Pyramid, generate_pos, is_subtile
from toasty.samplers import _latlon_tile_filter

MAX_DEPTH = 3

BBOX_FILTER = _latlon_tile_filter(0.106, 4.878, -1.285, -0.120)


def odd_filter(tile):
    # An arbitrary, non-geometric user filter.
    p = tile.pos
    return (p.x + 2 * p.y + p.n) % 5 != 0


KINDS = [
    ("generic", lambda d: Pyramid.new_generic(d)),
    ("toast", lambda d: Pyramid.new_toast(d)),
    ("toast+bbox", lambda d: Pyramid.new_toast_filtered(d, BBOX_FILTER)),
    ("toast+odd", lambda d: Pyramid.new_toast_filtered(d, odd_filter)),
]


def observe(pyr):
    """Return (counts, leaves visited, walk visits) for a pyramid."""
    leaves = []
    ops = []

    with contextlib.redirect_stdout(io.StringIO()):
        counts = (
            pyr.count_leaf_tiles(),
            pyr.count_live_tiles(),
            pyr.count_operations(),
        )
        pyr.visit_leaves(lambda pos, tile: leaves.append(pos), parallel=1)
        pyr.walk(lambda pos: ops.append(pos), parallel=1)

    return counts, leaves, ops


def main():
    problems = []
    n_checked = 0

    for kind, make in KINDS:
        for depth in range(MAX_DEPTH + 1):
            full_counts, full_leaves, full_ops = observe(make(depth))

            if (len(full_leaves), len(full_leaves) + len(full_ops), len(full_ops)) != full_counts:
                problems.append(f"{kind} depth={depth}: full counts {full_counts} != visits")

            for apex in generate_pos(depth):
                n_checked += 1
                where = f"{kind} depth={depth} apex={tuple(apex)}"

                try:
                    sub = make(depth).subpyramid(apex)
                except Exception as e:
                    problems.append(f"{where}: subpyramid() raised {e!r}")
                    continue

                try:
                    counts, leaves, ops = observe(sub)
                except Exception as e:
                    problems.append(f"{where}: {e!r}")
                    continue

                exp_leaves = [p for p in full_leaves if is_subtile(p, apex)]
                exp_ops = [p for p in full_ops if p.n >= apex.n and is_subtile(p, apex)]
                exp_counts = (
                    len(exp_leaves),
                    len(exp_leaves) + len(exp_ops),
                    len(exp_ops),
                )

                if counts != exp_counts:
                    problems.append(
                        f"{where}: counts (leaves, live, ops) = {counts}, expected {exp_counts}"
                    )
                if leaves != exp_leaves:
                    problems.append(f"{where}: leaf visits {leaves} != {exp_leaves}")
                if ops != exp_ops:
                    problems.append(f"{where}: walk visits {ops} != {exp_ops}")

    print(f"checked {n_checked} (kind, depth, apex) combinations")

    if problems:
        print(f"{len(problems)} problems; first few:")
        for p in problems[:12]:
            print("FAIL:", p)
        return 1

    print("OK")
    return 0


if __name__ == "__main__":
    sys.exit(main())
