import os, sys; sys.path.insert(0, os.getcwd())

# Demonstration for C01 (cascade walk: each live parent exactly once, only
# after all its live children; never for filtered-out tiles), observed through
# the public "Builder" work-flow (base layer, then Builder.cascade) rather
# than through Pyramid.walk directly.
#
# Run as:  cd /tmp/seed_C01 && /venv/bin/python /tmp/seed8_C01_out/demo1.py
#
# Exit status 0: the property holds in every scenario tried.
# Exit status 1: a violation was seen (details are printed).
# Exit status 3: a cascade did not return within the watchdog time.
#
# How the callback invocations are observed: TileMerger.walk_callback (the
# callback that every cascade hands to Pyramid.walk) is wrapped so that it
# appends an "S n x y" line to a log file before doing its work and an
# "E n x y" line after it. The log file descriptor is opened with O_APPEND
# before any worker process is forked, so serial walks and walks with worker
# processes are recorded in the same way and the order of the lines is the
# real-time order of the events. Nothing here depends on timing.

import re
import shutil
import signal
import tempfile
import warnings

import numpy as np

import toasty
from toasty import merge, pyramid, toast, samplers
from toasty.builder import Builder
from toasty.pyramid import Pos, PyramidIO

assert os.path.realpath(toasty.__file__).startswith(
    os.path.realpath(os.getcwd())
), "demo is not testing the worktree it was started from: %s" % toasty.__file__

WATCHDOG_SECONDS = 300


def _watchdog(signum, frame):
    print("FAIL: a cascade did not return within %d s" % WATCHDOG_SECONDS)
    os._exit(3)


signal.signal(signal.SIGALRM, _watchdog)
signal.alarm(WATCHDOG_SECONDS)

# --- recording of the callback invocations ---------------------------------

_log_fd = None
_orig_walk_callback = merge.TileMerger.walk_callback


def _recording_walk_callback(self, pos):
    os.write(_log_fd, ("S %d %d %d\n" % (pos.n, pos.x, pos.y)).encode())
    _orig_walk_callback(self, pos)
    os.write(_log_fd, ("E %d %d %d\n" % (pos.n, pos.x, pos.y)).encode())


merge.TileMerger.walk_callback = _recording_walk_callback


def start_recording(path):
    global _log_fd
    _log_fd = os.open(path, os.O_WRONLY | os.O_CREAT | os.O_TRUNC | os.O_APPEND)


def stop_recording(path):
    global _log_fd
    os.close(_log_fd)
    _log_fd = None
    events = []
    with open(path) as f:
        for line in f:
            kind, n, x, y = line.split()
            events.append((kind, Pos(int(n), int(x), int(y))))
    return events


# --- what the property demands ----------------------------------------------


def ancestors_of(leaves):
    live = set()
    for leaf in leaves:
        p = leaf
        while p.n > 0:
            p = pyramid.pos_parent(p)[0]
            live.add(p)
    return live


def leaf_files(pio, depth, ext):
    """The leaf tiles present on disk (default layout: L/Y/Y_X.ext)."""
    found = set()
    level_dir = os.path.join(pio._base_dir, str(depth))
    if not os.path.isdir(level_dir):
        return found
    for ydir in os.listdir(level_dir):
        for name in os.listdir(os.path.join(level_dir, ydir)):
            m = re.match(r"^(\d+)_(\d+)\.%s$" % re.escape(ext), name)
            if m and m.group(1) == ydir:
                pos = Pos(depth, int(m.group(2)), int(m.group(1)))
                assert os.path.exists(pio.tile_path(pos, format=ext, makedirs=False))
                found.add(pos)
    return found


def check(label, events, expected_parents, depth):
    """Return a list of complaints (empty if the property holds)."""
    problems = []
    starts = [p for k, p in events if k == "S"]
    ends = [p for k, p in events if k == "E"]

    counts = {}
    for p in starts:
        counts[p] = counts.get(p, 0) + 1

    unexpected = sorted(p for p in counts if p not in expected_parents)
    missing = sorted(p for p in expected_parents if p not in counts)
    repeated = sorted(p for p, c in counts.items() if c > 1)

    if unexpected:
        leaves = [p for p in unexpected if p.n >= depth]
        problems.append(
            "%d callback invocation(s) for tiles that have no reachable leaf "
            "beneath them (filtered-out / dead tiles), e.g. %s%s"
            % (
                len(unexpected),
                ", ".join(str(tuple(p)) for p in unexpected[:5]),
                "; %d of them are leaves" % len(leaves) if leaves else "",
            )
        )
    if missing:
        problems.append(
            "%d live parent(s) never got their callback, e.g. %s"
            % (len(missing), ", ".join(str(tuple(p)) for p in missing[:5]))
        )
    if repeated:
        problems.append(
            "%d tile(s) got more than one callback, e.g. %s"
            % (len(repeated), ", ".join(str(tuple(p)) for p in repeated[:5]))
        )
    if len(starts) != len(ends):
        problems.append(
            "%d callbacks started but %d completed" % (len(starts), len(ends))
        )

    # Ordering: when the callback of a tile starts, the callbacks of all of
    # its live non-leaf children must have completed.
    completed = set()
    for kind, p in events:
        if kind == "E":
            completed.add(p)
        elif p.n + 1 < depth:
            for child in pyramid.pos_children(p):
                if child in expected_parents and child not in completed:
                    problems.append(
                        "callback of %s started before that of its live child %s had completed"
                        % (tuple(p), tuple(child))
                    )

    print(
        "  %-34s callbacks: %4d   live parents expected: %4d   %s"
        % (label, len(starts), len(expected_parents), "ok" if not problems else "VIOLATION")
    )
    return ["%s: %s" % (label, msg) for msg in problems]


# --- scenario A: incremental TOAST compositing through the Builder API --------
#
# This is what FitsTiler does for a collection of images, except that the
# user cascades after each image (e.g. to look at the intermediate result in
# WWT, or because the second image arrives later):
#
#     builder.toast_base(sampler1, depth, tile_filter=f1); builder.cascade(tile_filter=f1)
#     builder.toast_base(sampler2, depth, tile_filter=f2); builder.cascade(tile_filter=f1-or-f2)

DEPTH_A = 4


def _is_ancestor_or_self(a, b):
    """True if tile *a* is *b* or an ancestor of *b*."""
    if a.n > b.n:
        return False
    shift = b.n - a.n
    return (b.x >> shift) == a.x and (b.y >> shift) == a.y


def make_filter(targets, accepted_but_childless):
    def tile_filter(tile):
        pos = tile.pos
        for t in targets:
            if _is_ancestor_or_self(pos, t) or _is_ancestor_or_self(t, pos):
                return True
        for t in accepted_but_childless:
            if _is_ancestor_or_self(pos, t):
                return True
        return False

    return tile_filter


# First image: everything beneath the level-2 tile (2, 1, 2). The filter also
# accepts the level-1 tile (1, 0, 0) but none of its children: that tile has
# no reachable leaf, so it must not get a callback.
FILTER_1 = make_filter([Pos(2, 1, 2)], [Pos(1, 0, 0)])

# Second image: beneath the level-3 tile (3, 6, 1) (another level-1 quadrant)
# and beneath the level-3 tile (3, 3, 5) (inside the region of the first one).
# Accepts (2, 3, 3) but none of its children.
FILTER_2 = make_filter([Pos(3, 6, 1), Pos(3, 3, 5)], [Pos(2, 3, 3)])


def FILTER_BOTH(tile):
    return FILTER_1(tile) or FILTER_2(tile)


def reachable_leaves(tile_filter, depth):
    return set(
        t.pos for t in toast.generate_tiles_filtered(depth, tile_filter, bottom_only=True)
    )


def scenario_a(workdir, parallel):
    problems = []
    outdir = os.path.join(workdir, "A_par%d" % parallel)
    pio = PyramidIO(outdir, default_format="png")
    builder = Builder(pio)

    yy, xx = np.mgrid[0:64, 0:128]
    data1 = np.stack([xx * 2, yy * 4, xx + yy], axis=2).astype(np.uint8)
    data2 = np.stack([255 - xx, yy * 2, 200 + 0 * xx], axis=2).astype(np.uint8)

    # -- first image

    builder.toast_base(
        samplers.plate_carree_sampler(data1),
        DEPTH_A,
        tile_filter=FILTER_1,
        parallel=1,
        cli_progress=False,
    )
    leaves = reachable_leaves(FILTER_1, DEPTH_A)
    assert len(leaves) == 16, len(leaves)
    if leaf_files(pio, DEPTH_A, "png") != leaves:
        problems.append("A parallel=%d: unexpected base layer after image 1" % parallel)
    expected = ancestors_of(leaves)

    log = os.path.join(workdir, "A1_par%d.log" % parallel)
    start_recording(log)
    builder.cascade(tile_filter=FILTER_1, parallel=parallel, cli_progress=False)
    events = stop_recording(log)
    problems += check(
        "A image 1, cascade parallel=%d" % parallel, events, expected, DEPTH_A
    )

    # -- second image, composited into the same pyramid

    builder.toast_base(
        samplers.plate_carree_sampler(data2),
        DEPTH_A,
        tile_filter=FILTER_2,
        parallel=1,
        cli_progress=False,
    )
    leaves = reachable_leaves(FILTER_BOTH, DEPTH_A)
    assert len(leaves) == 16 + 4, len(leaves)  # (3,3,5) lies beneath (2,1,2)
    if leaf_files(pio, DEPTH_A, "png") != leaves:
        problems.append("A parallel=%d: unexpected base layer after image 2" % parallel)
    expected = ancestors_of(leaves)

    log = os.path.join(workdir, "A2_par%d.log" % parallel)
    start_recording(log)
    builder.cascade(tile_filter=FILTER_BOTH, parallel=parallel, cli_progress=False)
    events = stop_recording(log)
    problems += check(
        "A image 2, cascade parallel=%d" % parallel, events, expected, DEPTH_A
    )

    # What the user finally looks at: the parent tiles on disk.
    for p in sorted(expected):
        if not os.path.exists(pio.tile_path(p, format="png", makedirs=False)):
            problems.append(
                "A parallel=%d: after image 2, parent tile %s does not exist"
                % (parallel, tuple(p))
            )
    return problems


# --- scenario B: a study image is tiled again into the same directory ---------
#
# Builder.tile_base_as_study + Builder.cascade is what the `toasty pipeline`
# image sources do. Here the same output directory is processed twice (an
# updated version of the image has arrived); the second cascade has to visit
# every parent again, or the upper levels keep showing the old image.

from toasty.image import Image  # noqa: E402


def flat_image(rgb, width=600, height=400):
    arr = np.empty((height, width, 3), dtype=np.uint8)
    arr[...] = rgb
    return Image.from_array(arr)


def scenario_b(workdir, parallel):
    problems = []
    outdir = os.path.join(workdir, "B_par%d" % parallel)
    generic_parents = None

    for round_no, rgb in ((1, (250, 10, 10)), (2, (10, 10, 250))):
        pio = PyramidIO(outdir, default_format="png")
        builder = Builder(pio)
        builder.tile_base_as_study(flat_image(rgb), cli_progress=False)
        depth = builder.imgset.tile_levels
        assert depth == 2, depth

        # A study pyramid is walked without a filter: every non-leaf tile of
        # the depth-2 pyramid is a live parent.
        generic_parents = set(p for p in pyramid.generate_pos(depth) if p.n < depth)
        assert len(generic_parents) == 5

        log = os.path.join(workdir, "B%d_par%d.log" % (round_no, parallel))
        start_recording(log)
        builder.cascade(parallel=parallel, cli_progress=False)
        events = stop_recording(log)
        problems += check(
            "B round %d, cascade parallel=%d" % (round_no, parallel),
            events,
            generic_parents,
            depth,
        )

        top = pio.read_image(Pos(0, 0, 0), format="png")
        if top is None:
            problems.append(
                "B round %d parallel=%d: no level-0 tile" % (round_no, parallel)
            )
            continue
        arr = top.asarray()
        opaque = arr[..., 3] > 0
        mean_rgb = tuple(int(round(v)) for v in arr[opaque][:, :3].mean(axis=0))
        if max(abs(a - b) for a, b in zip(mean_rgb, rgb)) > 3:
            problems.append(
                "B round %d parallel=%d: the level-0 tile shows colour %s but the image "
                "that was just tiled and cascaded has colour %s"
                % (round_no, parallel, mean_rgb, rgb)
            )
    return problems


def main():
    from toasty import par_util

    par_util.SHOW_INFORMATIONAL_MESSAGES = False

    workdir = tempfile.mkdtemp(prefix="seed8_C01_demo_")
    problems = []
    try:
        print("Scenario A: two images composited into one TOAST pyramid, cascade after each")
        for parallel in (1, 2, 3):
            problems += scenario_a(workdir, parallel)

        print("Scenario B: a study image tiled and cascaded twice into the same directory")
        for parallel in (1, 2):
            problems += scenario_b(workdir, parallel)
    finally:
        shutil.rmtree(workdir, ignore_errors=True)

    signal.alarm(0)

    if problems:
        print()
        print("C01 VIOLATED: %d problem(s)" % len(problems))
        for msg in problems:
            print(" -", msg)
        sys.exit(1)

    print()
    print("C01 holds in all scenarios: every live parent got exactly one callback,")
    print("after its live children, and no filtered-out tile got one.")
    sys.exit(0)


if __name__ == "__main__":
    main()
