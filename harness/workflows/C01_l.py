import os, sys; sys.path.insert(0, os.getcwd())

# Demo 1 -- C01 as a user of `toasty.tile_fits(..., tiling_method=TOAST)` sees it.
#
# Two small FITS images on opposite sides of the sky are tiled into one TOAST
# pyramid (base level 3) through the public `tile_fits` entry point, once with
# parallel=1 (serial cascade) and once with parallel=2 (parallel cascade).  The
# cascade callback (TileMerger.walk_callback) is wrapped so that it records,
# in a file opened with O_APPEND (so it works across forked workers), when it
# starts and when it ends for each tile.  We then check:
#
#   * every non-leaf tile that has a leaf tile on disk beneath it got exactly
#     one callback, and nobody got more than one; no leaf got a callback;
#   * when the callback of a tile started, the callbacks of all its children
#     that got one had already ended;
#   * the parent tile files on disk are exactly the ancestors of the leaf files.
#
# Exit status 0 if all of that holds, 1 otherwise.

import collections
import shutil
import tempfile
import warnings

import numpy as np

warnings.simplefilter("ignore")

BASE_LEVEL = 5


def make_fits(path, ra, dec, seed):
    from astropy.io import fits

    rng = np.random.default_rng(seed)
    data = (1.0 + rng.random((64, 64))).astype(np.float32)
    hdu = fits.PrimaryHDU(data)
    h = hdu.header
    h["CTYPE1"] = "RA---TAN"
    h["CTYPE2"] = "DEC--TAN"
    h["CRVAL1"] = float(ra)
    h["CRVAL2"] = float(dec)
    h["CRPIX1"] = 32.5
    h["CRPIX2"] = 32.5
    h["CDELT1"] = -0.1
    h["CDELT2"] = 0.1
    h["CUNIT1"] = "deg"
    h["CUNIT2"] = "deg"
    hdu.writeto(path, overwrite=True)


def tiles_on_disk(out_dir):
    found = set()
    for level in os.listdir(out_dir):
        if not level.isdigit():
            continue
        for ydir in os.listdir(os.path.join(out_dir, level)):
            for fn in os.listdir(os.path.join(out_dir, level, ydir)):
                if fn.endswith(".fits"):
                    y, x = fn[:-5].split("_")
                    found.add((int(level), int(x), int(y)))
    return found


def ancestors(t):
    n, x, y = t
    while n > 0:
        n, x, y = n - 1, x // 2, y // 2
        yield (n, x, y)


def children(t):
    n, x, y = t
    return [(n + 1, 2 * x + i, 2 * y + j) for j in (0, 1) for i in (0, 1)]


def run(parallel):
    from toasty import TilingMethod, merge, tile_fits

    problems = []
    tmp = tempfile.mkdtemp(prefix="seed_C01_demo1_")
    log_path = os.path.join(tmp, "calls.log")
    orig = merge.TileMerger.walk_callback

    def log(line):
        fd = os.open(log_path, os.O_WRONLY | os.O_APPEND | os.O_CREAT, 0o644)
        try:
            os.write(fd, line.encode())
        finally:
            os.close(fd)

    def recording_callback(self, pos):
        log(f"S {pos.n} {pos.x} {pos.y}\n")
        orig(self, pos)
        log(f"E {pos.n} {pos.x} {pos.y}\n")

    merge.TileMerger.walk_callback = recording_callback

    try:
        path_a = os.path.join(tmp, "a.fits")
        path_b = os.path.join(tmp, "b.fits")
        make_fits(path_a, 40.0, 30.0, 1)
        make_fits(path_b, 220.0, -35.0, 2)
        out_dir = os.path.join(tmp, "tiled")

        tile_fits(
            [path_a, path_b],
            out_dir=out_dir,
            tiling_method=TilingMethod.TOAST,
            parallel=parallel,
            override=True,
            start=BASE_LEVEL,
        )

        on_disk = tiles_on_disk(out_dir)
        leaves = {t for t in on_disk if t[0] == BASE_LEVEL}
        parents_on_disk = {t for t in on_disk if t[0] < BASE_LEVEL}
        expected_parents = set()
        for leaf in leaves:
            expected_parents.update(ancestors(leaf))

        if len(leaves) < 2:
            problems.append(f"test setup: only {len(leaves)} leaf tiles were made")

        events = []
        if os.path.exists(log_path):
            with open(log_path) as f:
                for line in f:
                    kind, n, x, y = line.split()
                    events.append((kind, (int(n), int(x), int(y))))

        starts = collections.Counter(t for k, t in events if k == "S")
        ends = collections.Counter(t for k, t in events if k == "E")

        for t in sorted(expected_parents):
            if starts[t] != 1 or ends[t] != 1:
                problems.append(
                    f"tile {t} has a leaf tile beneath it but its callback ran {starts[t]} time(s)"
                )
        for t, c in sorted(starts.items()):
            if c > 1 and t not in expected_parents:
                problems.append(f"callback ran {c} times for tile {t}")
            if t[0] >= BASE_LEVEL:
                problems.append(f"callback ran for leaf tile {t}")

        ended = set()
        for kind, t in events:
            if kind == "E":
                ended.add(t)
            else:
                for c in children(t):
                    if starts[c] and c not in ended:
                        problems.append(
                            f"callback for {t} started before the callback of its child {c} had ended"
                        )

        for t in sorted(expected_parents - parents_on_disk):
            problems.append(f"parent tile {t} is missing on disk although leaf tiles exist beneath it")
        for t in sorted(parents_on_disk - expected_parents):
            problems.append(f"parent tile {t} exists on disk without any leaf beneath it")

        print(
            f"parallel={parallel}: {len(leaves)} leaf tiles, {len(expected_parents)} expected parents, "
            f"{len(starts)} tiles got a callback, {len(parents_on_disk)} parent tiles on disk"
        )
    finally:
        merge.TileMerger.walk_callback = orig
        shutil.rmtree(tmp, ignore_errors=True)

    return problems


def main():
    failed = False
    for parallel in (1, 2):
        problems = run(parallel)
        for p in problems:
            print(f"  PROBLEM (parallel={parallel}): {p}")
        failed = failed or bool(problems)

    if failed:
        print("FAIL: the cascade did not visit every live parent exactly once after its children")
        sys.exit(1)

    print("OK")


if __name__ == "__main__":
    main()
