import os, sys; sys.path.insert(0, os.getcwd())

"""
C05 demo 1: Builder.toast_base(..., is_planet=True, tile_filter=...) must hand
the sampler, for every tile (n, x, y) that passes the filter, a 256x256 grid
whose pixel (i, j) is the centre of the PLANETARY TOAST tile
(n+8, 256x+j, 256y+i).

Exit 0 if so, 1 otherwise.
"""

import shutil
import tempfile

import numpy as np

import toasty
from toasty._libtoasty import mid
from toasty.builder import Builder
from toasty.pyramid import Pos, PyramidIO
from toasty.toast import ToastCoordinateSystem, create_single_tile

TWOPI = 2 * np.pi
DEPTH = 2
CS = ToastCoordinateSystem.PLANETARY


def deep_centre(n, x, y, i, j):
    """Centre of the tile eight levels below (n, x, y) at pixel row i, col j."""
    t = create_single_tile(Pos(n + 8, 256 * x + j, 256 * y + i), coordsys=CS)
    ul, ur, lr, ll = t.corners
    c = mid(ll, ur) if t.increasing else mid(ul, lr)
    return c[0], c[1]


def lon_close(a, b, tol=1e-9):
    d = (a - b + np.pi) % TWOPI - np.pi
    return abs(d) < tol


def main():
    print("testing toasty from", os.path.dirname(toasty.__file__))

    recorded = []

    def sampler(lon, lat):
        recorded.append((np.array(lon), np.array(lat)))
        return np.zeros(lon.shape + (3,), dtype=np.uint8)

    # Position-based filter (so that it means the same thing in either
    # coordinate system): the left half of the TOAST square.
    def left_half(tile):
        return (tile.pos.x >> (tile.pos.n - 1)) == 0

    expected_pos = [
        (DEPTH, x, y) for x in range(2 ** (DEPTH - 1)) for y in range(2**DEPTH)
    ]

    work = tempfile.mkdtemp()
    try:
        b = Builder(PyramidIO(work, default_format="png"))
        b.toast_base(
            sampler,
            DEPTH,
            is_planet=True,
            tile_filter=left_half,
            parallel=1,
            cli_progress=False,
        )
    finally:
        shutil.rmtree(work, ignore_errors=True)

    problems = []

    if len(recorded) != len(expected_pos):
        problems.append(
            f"sampler was called {len(recorded)} times, expected {len(expected_pos)}"
        )

    rng = np.random.default_rng(20250105)

    for n, x, y in expected_pos:
        pix = [(0, 0), (0, 255), (255, 0), (255, 255), (128, 127)]
        pix += [tuple(int(v) for v in rng.integers(0, 256, 2)) for _ in range(8)]
        want = [deep_centre(n, x, y, i, j) for (i, j) in pix]

        def matches(grid, lon_shift=0.0):
            lon, lat = grid
            return all(
                lon_close(lon[i, j], wlon + lon_shift) and abs(lat[i, j] - wlat) < 1e-9
                for (i, j), (wlon, wlat) in zip(pix, want)
            )

        hits = [k for k, g in enumerate(recorded) if matches(g)]

        if len(hits) == 1:
            # second clause: pixel centres within the corner latitude range
            tile = create_single_tile(Pos(n, x, y), coordsys=CS)
            clats = [c[1] for c in tile.corners]
            lat = recorded[hits[0]][1]
            if lat.min() < min(clats) - 1e-12 or lat.max() > max(clats) + 1e-12:
                problems.append(
                    f"tile ({n},{x},{y}): pixel latitudes leave the corner range"
                )
            continue

        shifted = [k for k, g in enumerate(recorded) if matches(g, lon_shift=-np.pi)]
        msg = (
            f"planetary tile ({n},{x},{y}): no grid handed to the sampler has its "
            f"pixels at the centres of the planetary tiles at level {n + 8} "
            f"({len(hits)} matches)"
        )
        if shifted:
            msg += (
                "; a grid matching them rotated by 180 deg in longitude was delivered "
                "instead (that is the ASTRONOMICAL pixelisation)"
            )
        problems.append(msg)

    if problems:
        print("FAIL: C05 broken for Builder.toast_base(is_planet=True, tile_filter=...):")
        for p in problems:
            print("  -", p)
        return 1

    print(
        f"OK: all {len(expected_pos)} filtered planetary tiles were sampled on the "
        "grid of the tile centres eight levels deeper"
    )
    return 0


if __name__ == "__main__":
    sys.exit(main())
