import os, sys; sys.path.insert(0, os.getcwd())

# Demo 2 -- C01 as a user of `toasty view --tile-only --tiling-method toast A B`
# sees it (the command line is driven in-process via toasty.cli.entrypoint).
#
# Two small FITS images in different parts of the sky are tiled into one TOAST
# pyramid by the `view` command (which picks the base level itself, level 5
# here), once with `-j 1` (serial cascade) and once with `-j 3` (parallel
# cascade).  The cascade callback (TileMerger.walk_callback) is wrapped so that
# it appends a line to a log file (O_APPEND, so forked workers can share it)
# when it starts and when it ends.  We then check:
#
#   * every non-leaf tile that has a leaf tile on disk beneath it got exactly
#     one callback, nobody got more than one, and no leaf got one;
#   * when the callback of a tile started, the callbacks of all its children
#     that got one had already ended;
#   * the parent tile files on disk are exactly the ancestors of the leaf files;
#   * the command returned.
#
# Exit status 0 if all of that holds, 1 otherwise.

import collections
import contextlib
import io
import shutil
import tempfile
import warnings

import numpy as np

warnings.simplefilter("ignore")

# (RA, Dec) of the image centres; the order on the command line is this order.
CENTRES = [(130.0, 42.0), (310.0, -28.0)]
NPIX = 200
PIXSCALE_DEG = 0.03


def make_fits(path, ra, dec, seed):
    from astropy.io import fits

    rng = np.random.default_rng(seed)
    data = (1.0 + rng.random((NPIX, NPIX))).astype(np.float32)
    hdu = fits.PrimaryHDU(data)
    h = hdu.header
    h["CTYPE1"] = "RA---TAN"
    h["CTYPE2"] = "DEC--TAN"
    h["CRVAL1"] = float(ra)
    h["CRVAL2"] = float(dec)
    h["CRPIX1"] = (NPIX + 1) / 2
    h["CRPIX2"] = (NPIX + 1) / 2
    h["CDELT1"] = -PIXSCALE_DEG
    h["CDELT2"] = PIXSCALE_DEG
    h["CUNIT1"] = "deg"
    h["CUNIT2"] = "deg"
    hdu.writeto(path, overwrite=True)


def tiles_on_disk(out_dir):
    found = set()
    for level in os.listdir(out_dir):
        if not level.isdigit():
            continue
        for ydir in os.listdir(os.path.join(out_dir, level)):
            for fn in os.listdir(os.path.join(out_dir, level, ydir)):
                if fn.endswith(".fits"):
                    y, x = fn[:-5].split("_")
                    found.add((int(level), int(x), int(y)))
    return found


def ancestors(t):
    n, x, y = t
    while n > 0:
        n, x, y = n - 1, x // 2, y // 2
        yield (n, x, y)


def children(t):
    n, x, y = t
    return [(n + 1, 2 * x + i, 2 * y + j) for j in (0, 1) for i in (0, 1)]


def run(jobs):
    from toasty import cli, merge

    problems = []
    tmp = tempfile.mkdtemp(prefix="seed_C01_demo2_")
    log_path = os.path.join(tmp, "calls.log")
    orig = merge.TileMerger.walk_callback

    def log(line):
        fd = os.open(log_path, os.O_WRONLY | os.O_APPEND | os.O_CREAT, 0o644)
        try:
            os.write(fd, line.encode())
        finally:
            os.close(fd)

    def recording_callback(self, pos):
        log(f"S {pos.n} {pos.x} {pos.y}\n")
        orig(self, pos)
        log(f"E {pos.n} {pos.x} {pos.y}\n")

    merge.TileMerger.walk_callback = recording_callback

    try:
        paths = []
        for i, (ra, dec) in enumerate(CENTRES):
            p = os.path.join(tmp, f"img{i}.fits")
            make_fits(p, ra, dec, i + 1)
            paths.append(p)

        captured = io.StringIO()
        with contextlib.redirect_stdout(captured):
            cli.entrypoint(
                ["view", "--tile-only", "--tiling-method", "toast", "-j", str(jobs)]
                + paths
            )

        out_dir = os.path.join(tmp, "img0_tiled_TOAST")
        if not os.path.isdir(out_dir):
            problems.append(f"expected output directory {out_dir} was not made")
            print(captured.getvalue())
            return problems

        on_disk = tiles_on_disk(out_dir)
        base_level = max(t[0] for t in on_disk)
        leaves = {t for t in on_disk if t[0] == base_level}
        parents_on_disk = {t for t in on_disk if t[0] < base_level}
        expected_parents = set()
        for leaf in leaves:
            expected_parents.update(ancestors(leaf))

        if base_level < 3 or len(leaves) < 2:
            problems.append(
                f"test setup: base level {base_level} with {len(leaves)} leaf tiles is not what was intended"
            )

        events = []
        if os.path.exists(log_path):
            with open(log_path) as f:
                for line in f:
                    kind, n, x, y = line.split()
                    events.append((kind, (int(n), int(x), int(y))))

        starts = collections.Counter(t for k, t in events if k == "S")
        ends = collections.Counter(t for k, t in events if k == "E")

        for t in sorted(expected_parents):
            if starts[t] != 1 or ends[t] != 1:
                problems.append(
                    f"tile {t} has a leaf tile beneath it but its callback ran {starts[t]} time(s)"
                )
        for t, c in sorted(starts.items()):
            if c > 1 and t not in expected_parents:
                problems.append(f"callback ran {c} times for tile {t}")
            if t[0] >= base_level:
                problems.append(f"callback ran for leaf tile {t}")

        ended = set()
        for kind, t in events:
            if kind == "E":
                ended.add(t)
            else:
                for c in children(t):
                    if starts[c] and c not in ended:
                        problems.append(
                            f"callback for {t} started before the callback of its child {c} had ended"
                        )

        for t in sorted(expected_parents - parents_on_disk):
            problems.append(
                f"parent tile {t} is missing on disk although leaf tiles exist beneath it"
            )
        for t in sorted(parents_on_disk - expected_parents):
            problems.append(f"parent tile {t} exists on disk without any leaf beneath it")

        print(
            f"-j {jobs}: base level {base_level}, {len(leaves)} leaf tiles, "
            f"{len(expected_parents)} expected parents, {len(starts)} tiles got a callback, "
            f"{len(parents_on_disk)} parent tiles on disk"
        )
    finally:
        merge.TileMerger.walk_callback = orig
        shutil.rmtree(tmp, ignore_errors=True)

    return problems


def main():
    failed = False
    for jobs in (1, 3):
        problems = run(jobs)
        for p in problems:
            print(f"  PROBLEM (-j {jobs}): {p}")
        failed = failed or bool(problems)

    if failed:
        print("FAIL: the cascade did not visit every live parent exactly once after its children")
        sys.exit(1)

    print("OK")


if __name__ == "__main__":
    main()
