import os, sys; sys.path.insert(0, os.getcwd())

"""
demo2 -- tiling a collection of FITS images that are NOT on a common TAN grid
(the "multi-WCS" study tiler) must hand every image to a worker, finish, and
give the same pyramid as a serial run -- for the library's default call
``toasty.tile_fits([...], parallel=N)`` just as for any other.

Two 300x300 FITS images with different orientations and sky positions are
written to a scratch directory. They land in one mosaic (4x4 tiles at level 2,
some of them shared), but their pixels do not overlap, so the result does not
depend on the order in which the images are processed. We then call

    toasty.tile_fits([a, b], out_dir=..., tiling_method=TilingMethod.TAN, parallel=P)

for P = 1 (serial) and P = 3, each in a forked child process that is its own
session, under a watchdog: if the call has not returned after WATCHDOG seconds
(a healthy run takes 15-30 s, most of it the workers' 10 s idle time-out), the
whole process group is killed and the run is reported as a hang. Afterwards the
pyramids of the two runs are compared tile by tile.

Deterministic: no reliance on a lucky interleaving, only on "returns at all"
and on the final files.

Exit status 0 = property holds; 1 = violated (details printed).
"""

import glob
import multiprocessing as mp
import shutil
import signal
import tempfile
import time
import warnings

import numpy as np

WATCHDOG = int(os.environ.get("C03_DEMO2_WATCHDOG", "240"))  # seconds


def make_inputs(work):
    from astropy.io import fits

    paths = []
    yy, xx = np.mgrid[0:300, 0:300]

    for idx, (ra, dec, rot_deg) in enumerate([(10.0, 20.0, 0.0), (10.16, 20.0, 25.0)]):
        data = (100.0 * (idx + 1) + 0.25 * xx + 0.125 * yy).astype(np.float32)
        c, s = np.cos(np.deg2rad(rot_deg)), np.sin(np.deg2rad(rot_deg))
        h = fits.Header()
        h["CTYPE1"] = "RA---TAN"
        h["CTYPE2"] = "DEC--TAN"
        h["CRVAL1"] = ra
        h["CRVAL2"] = dec
        h["CRPIX1"] = 150.5
        h["CRPIX2"] = 150.5
        h["CDELT1"] = -1.0 / 3600
        h["CDELT2"] = 1.0 / 3600
        h["PC1_1"] = c
        h["PC1_2"] = -s
        h["PC2_1"] = s
        h["PC2_2"] = c
        p = os.path.join(work, "img{}.fits".format(idx))
        fits.PrimaryHDU(data=data, header=h).writeto(p)
        paths.append(p)

    return paths


def child_main(paths, outdir, parallel):
    os.setsid()  # so that the watchdog can kill us *and* any workers we started
    warnings.simplefilter("ignore")

    import toasty
    from toasty import TilingMethod, par_util

    par_util.SHOW_INFORMATIONAL_MESSAGES = False
    toasty.tile_fits(
        paths,
        out_dir=outdir,
        tiling_method=TilingMethod.TAN,
        parallel=parallel,
    )
    with open(outdir + ".done", "wt") as f:
        f.write("ok\n")


def count_children(pid):
    try:
        with open("/proc/{0}/task/{0}/children".format(pid)) as f:
            return len(f.read().split())
    except OSError:
        return None


def run_guarded(paths, outdir, parallel):
    """Returns (returned_normally, seconds, diagnostic)"""
    proc = mp.get_context("fork").Process(
        target=child_main, args=(paths, outdir, parallel)
    )
    t0 = time.time()
    proc.start()
    proc.join(WATCHDOG)
    dt = time.time() - t0

    if proc.is_alive():
        nkids = count_children(proc.pid)
        try:
            os.killpg(proc.pid, signal.SIGKILL)
        except OSError:
            proc.kill()
        proc.join()
        return (
            False,
            dt,
            "still running after {} s; it had {} live worker process(es)".format(
                WATCHDOG, nkids
            ),
        )

    if proc.exitcode != 0 or not os.path.exists(outdir + ".done"):
        return False, dt, "child exited with status {}".format(proc.exitcode)

    return True, dt, ""


def load_pyramid(outdir):
    from astropy.io import fits

    out = {}
    for p in glob.glob(os.path.join(outdir, "*", "*", "*_*.fits")):
        with fits.open(p) as hdul:
            out[os.path.relpath(p, outdir)] = np.array(hdul[0].data)
    return out


def main():
    import toasty

    print("toasty imported from:", os.path.dirname(toasty.__file__))
    work = tempfile.mkdtemp(prefix="c03_demo2_")
    problems = []

    try:
        with warnings.catch_warnings():
            warnings.simplefilter("ignore")
            paths = make_inputs(work)

        results = {}

        for label, par in (("serial", 1), ("parallel", 3)):
            outdir = os.path.join(work, "out_" + label)
            ok, dt, diag = run_guarded(paths, outdir, par)
            print(
                "{:8s} tile_fits(parallel={}): {} after {:.1f} s {}".format(
                    label, par, "returned" if ok else "DID NOT RETURN", dt, diag
                )
            )
            if not ok:
                problems.append(
                    "tile_fits(parallel={}) did not terminate normally: {}".format(
                        par, diag
                    )
                )
            results[label] = load_pyramid(outdir)
            deepest = [k for k in results[label] if k.startswith("2" + os.sep)]
            print(
                "         {} tiles on disk, {} at the deepest level".format(
                    len(results[label]), len(deepest)
                )
            )

        ser, par = results["serial"], results["parallel"]

        if not ser:
            problems.append("serial run produced no tiles at all (demo broken?)")

        if sorted(ser) != sorted(par):
            missing = sorted(set(ser) - set(par))
            extra = sorted(set(par) - set(ser))
            problems.append(
                "parallel run is missing {} tile(s) that the serial run produced (e.g. {}) "
                "and has {} extra".format(len(missing), missing[:5], len(extra))
            )

        differ = [
            k
            for k in sorted(set(ser) & set(par))
            if not np.array_equal(ser[k], par[k], equal_nan=True)
        ]
        if differ:
            problems.append(
                "{} tile(s) have different contents in the parallel run, e.g. {}".format(
                    len(differ), differ[:5]
                )
            )
    finally:
        shutil.rmtree(work, ignore_errors=True)

    if problems:
        print("FAIL: parallel multi-image tiling broke the hand-off/termination property:")
        for p in problems:
            print("  -", p)
        return 1

    print("OK: both runs terminated and produced identical pyramids")
    return 0


if __name__ == "__main__":
    sys.exit(main())
