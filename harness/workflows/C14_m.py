import os, sys; sys.path.insert(0, os.getcwd())

"""
C14 demo 2: a two-panel mosaic.  Two FITS images on one common TAN grid sit
side by side; the seam between them does not fall on a tile boundary, so the
leaf tiles along the seam receive data from BOTH panels.  The left panel holds
the mosaic's maximum, the right panel (in its columns next to the seam) holds
the mosaic's minimum.

Checked through the Python API (`toasty.tile_fits`, serial and parallel) and
through the command line (`toasty tile-multi-tan` + `toasty cascade`): the
DATAMIN/DATAMAX of every tile, and the DataMin/DataMax of the image set / WTML,
must equal the range of the leaf data beneath.

Exit status 0: property holds.  Non-zero: it does not (details printed).
"""

import shutil
import tempfile
import warnings

import numpy as np
from astropy.io import fits
from astropy.wcs import WCS

warnings.simplefilter("ignore")

import toasty
from toasty import TilingMethod, tile_fits

HEIGHT = 200
W_LEFT = 180
W_RIGHT = 220


def make_panel(path, width, crpix1, seed, specials):
    rng = np.random.RandomState(seed)
    data = rng.uniform(1.0, 2.0, size=(HEIGHT, width)).astype(np.float32)
    data[90:95, 60:70] = np.nan  # a few undefined pixels
    for (row, col), value in specials.items():
        data[row, col] = value

    w = WCS(naxis=2)
    w.wcs.ctype = ["RA---TAN", "DEC--TAN"]
    w.wcs.crval = [150.0, 2.0]
    w.wcs.crpix = [crpix1, 100.5]
    w.wcs.cdelt = [-0.001, 0.001]
    fits.PrimaryHDU(data, header=w.to_header()).writeto(path, overwrite=True)


def make_inputs(work):
    left = os.path.join(work, "panel_left.fits")
    right = os.path.join(work, "panel_right.fits")
    # Left panel: pixel columns 0..179 of the mosaic. Holds the maxima.
    make_panel(left, W_LEFT, 200.5, 1, {(30, 50): 1000.0, (170, 50): 900.0})
    # Right panel: pixel columns 180..399 of the mosaic. Holds the minima, in
    # its first few columns, i.e. right next to the seam.
    make_panel(right, W_RIGHT, 200.5 - W_LEFT, 2, {(30, 5): -500.0, (170, 5): -400.0})
    return left, right


def leaf_ranges(out_dir, depth):
    """Map Pos-tuple -> (min, max) of finite data for each leaf tile on disk."""
    res = {}
    d = os.path.join(out_dir, str(depth))
    for ydir in sorted(os.listdir(d)):
        if not os.path.isdir(os.path.join(d, ydir)):
            continue
        for fn in sorted(os.listdir(os.path.join(d, ydir))):
            if not fn.endswith(".fits"):
                continue
            y, x = fn[:-5].split("_")
            with fits.open(os.path.join(d, ydir, fn)) as hdul:
                arr = hdul[0].data
                fin = arr[np.isfinite(arr)]
                if fin.size:
                    res[(depth, int(x), int(y))] = (float(fin.min()), float(fin.max()))
    return res


def close(a, b):
    return abs(float(a) - float(b)) <= 1e-6 * max(1.0, abs(float(a)), abs(float(b)))


def check_pyramid(out_dir, depth, imgset=None, check_wtml=False):
    problems = []
    leaves = leaf_ranges(out_dir, depth)
    if not leaves:
        return ["no leaf tiles were written at all"]

    for n in range(depth, -1, -1):
        shift = depth - n
        expected = {}
        for (_d, x, y), (lo, hi) in leaves.items():
            key = (x >> shift, y >> shift)
            if key in expected:
                e = expected[key]
                expected[key] = (min(e[0], lo), max(e[1], hi))
            else:
                expected[key] = (lo, hi)

        for (x, y), (lo, hi) in sorted(expected.items()):
            rel = "%d/%d/%d_%d.fits" % (n, y, y, x)
            p = os.path.join(out_dir, rel)
            if not os.path.exists(p):
                problems.append(
                    "tile %s is missing although leaf tiles exist beneath it" % rel
                )
                continue
            with fits.open(p) as hdul:
                h = hdul[0].header
                dmin, dmax = h.get("DATAMIN"), h.get("DATAMAX")
            if dmin is None or dmax is None:
                problems.append("tile %s lacks DATAMIN/DATAMAX" % rel)
            elif not (close(dmin, lo) and close(dmax, hi)):
                what = "its own data span" if n == depth else "the leaves beneath it span"
                problems.append(
                    "tile %s: header range [%r, %r] but %s [%r, %r]"
                    % (rel, dmin, dmax, what, lo, hi)
                )

    all_lo = min(v[0] for v in leaves.values())
    all_hi = max(v[1] for v in leaves.values())

    if not (close(all_lo, -500.0) and close(all_hi, 1000.0)):
        problems.append(
            "demo sanity: the leaf layer does not hold the expected extremes (range [%r, %r])"
            % (all_lo, all_hi)
        )

    if imgset is not None:
        if not (close(imgset.data_min, all_lo) and close(imgset.data_max, all_hi)):
            problems.append(
                "builder.imgset data range [%r, %r] != full-resolution range [%r, %r]"
                % (imgset.data_min, imgset.data_max, all_lo, all_hi)
            )

    if check_wtml:
        from wwt_data_formats.folder import Folder
        from wwt_data_formats.place import Place

        item = Folder.from_file(os.path.join(out_dir, "index_rel.wtml")).children[0]
        ims = item.foreground_image_set if isinstance(item, Place) else item
        if not (close(ims.data_min, all_lo) and close(ims.data_max, all_hi)):
            problems.append(
                "index_rel.wtml DataMin/DataMax [%r, %r] != full-resolution range [%r, %r]"
                % (ims.data_min, ims.data_max, all_lo, all_hi)
            )

    return problems


def run_api(work, inputs, parallel):
    out_dir = os.path.join(work, "api_p%d" % parallel)
    out, bld = tile_fits(
        list(inputs),
        out_dir=out_dir,
        tiling_method=TilingMethod.TAN,
        parallel=parallel,
        override=True,
    )
    return check_pyramid(out, bld.imgset.tile_levels, imgset=bld.imgset, check_wtml=True)


def run_cli(work, inputs, parallel):
    from toasty.cli import entrypoint

    out_dir = os.path.join(work, "cli_p%d" % parallel)
    entrypoint(
        ["tile-multi-tan", "-j", str(parallel), "--outdir", out_dir] + list(inputs)
    )
    # a 400x200 mosaic is two tiles across => the leaves are at level 1
    entrypoint(["cascade", "-j", str(parallel), "--start", "1", out_dir])
    return check_pyramid(out_dir, 1)


def main():
    print("toasty imported from", os.path.dirname(toasty.__file__))
    work = tempfile.mkdtemp(prefix="c14demo2_")
    rc = 0
    try:
        inputs = make_inputs(work)
        scenarios = [
            ("tile_fits(parallel=1)", lambda: run_api(work, inputs, 1)),
            ("tile_fits(parallel=2)", lambda: run_api(work, inputs, 2)),
            ("tile_fits(parallel=1), panels listed right-to-left",
             lambda: run_api(work, inputs[::-1], 1)),
            ("toasty tile-multi-tan -j1 + toasty cascade -j1", lambda: run_cli(work, inputs, 1)),
        ]
        for label, fn in scenarios:
            problems = fn()
            if problems:
                rc = 1
                print("%s: C14 VIOLATED:" % label)
                for p in problems[:12]:
                    print("   -", p)
                if len(problems) > 12:
                    print("   ... and %d more" % (len(problems) - 12))
            else:
                print("%s: ok, every tile (and the WTML) carries the leaves' range" % label)
    finally:
        shutil.rmtree(work, ignore_errors=True)
    return rc


if __name__ == "__main__":
    sys.exit(main())
