import os, sys; sys.path.insert(0, os.getcwd())

# Demo for change 2 (property C18).
#
# A small approved image (a handful of tiles, a thumbnail, index_rel.wtml and
# index.wtml) is published to a local store.  For several orders in which the
# operating system may list the image's directory, and for a transfer failure
# injected at each individual transfer (the k-th put_item raises before
# anything is written), the demo checks after the failed run that
#
#   * index.wtml is in the store only if every other file is, complete;
#   * the image is still in approved/ and not in published/;
#   * `toasty pipeline refresh` does not count the image as "already done"
#     unless index.wtml really is in the store, i.e. a partially published
#     image is offered as a candidate again;
#   * re-running `toasty pipeline publish` completes the job and only then
#     does refresh report the image as done.
#
# Deterministic: the listing order is forced by wrapping os.listdir for the
# image's directory, the failure by wrapping LocalPipelineIo.put_item with a
# call counter.

import contextlib
import io
import shutil
import tempfile

from toasty import cli, pipeline
from toasty.pipeline import local_io
from toasty.tests import mk_test_path
from toasty.tests.test_pipeline import LocalTestAstroPixImageSource

CID = "fake_test1"  # the ID that the test image source announces

pipeline.IMAGE_SOURCE_CLASS_LOADERS["_local_test_astropix"] = (
    lambda: LocalTestAstroPixImageSource
)

FILES = {
    "L0X0Y0.png": b"tile-0-0-0" * 50,
    "L1X0Y0.png": b"tile-1-0-0" * 50,
    "L1X1Y0.png": b"tile-1-1-0" * 50,
    "thumb.jpg": b"thumbnail" * 30,
    "index_rel.wtml": b"<Folder rel/>",
    "index.wtml": b"<Folder abs/>",
}
OTHERS = sorted(n for n in FILES if n != "index.wtml")

ORDERS = {
    "index first": ["index.wtml"] + OTHERS,
    "index in the middle": OTHERS[:2] + ["index.wtml"] + OTHERS[2:],
    "index last": OTHERS + ["index.wtml"],
    "index second to last": OTHERS[:-1] + ["index.wtml"] + OTHERS[-1:],
}


def run(*args):
    buf = io.StringIO()
    exc = None
    with contextlib.redirect_stdout(buf):
        try:
            cli.entrypoint(list(args))
        except BaseException as e:  # noqa
            exc = e
    return exc, buf.getvalue()


def refresh_counts(work):
    exc, out = run("pipeline", "refresh", "--workdir", work)
    if exc is not None:
        raise exc
    saved = done = None
    for line in out.splitlines():
        line = line.strip()
        if line.endswith("processing candidates saved"):
            saved = int(line.split()[1])
        elif line.endswith("were already done"):
            done = int(line.split()[1])
    return saved, done


@contextlib.contextmanager
def forced_listing(dirpath, names):
    real = os.listdir

    def fake(path="."):
        if os.path.abspath(path) == os.path.abspath(dirpath):
            assert sorted(real(path)) == sorted(names)
            return list(names)
        return real(path)

    os.listdir = fake
    try:
        yield
    finally:
        os.listdir = real


@contextlib.contextmanager
def failing_put(k, log):
    """Make the k-th put_item (0-based) fail before writing anything."""
    real = local_io.LocalPipelineIo.put_item
    state = {"n": 0}

    def put_item(self, *path, source=None):
        i = state["n"]
        state["n"] += 1
        if i == k:
            raise IOError(f"injected failure at transfer #{k} ({'/'.join(path)})")
        real(self, *path, source=source)
        log.append(path[-1])

    local_io.LocalPipelineIo.put_item = put_item
    try:
        yield
    finally:
        local_io.LocalPipelineIo.put_item = real


def store_state(repo):
    d = os.path.join(repo, CID)
    if not os.path.isdir(d):
        return {}
    return {
        n: open(os.path.join(d, n), "rb").read()
        for n in os.listdir(d)
        if not n.endswith(".tmp")
    }


def one_trial(order_name, names, k):
    problems = []
    where = f"[order: {order_name}; failure at transfer #{k}]"
    top = tempfile.mkdtemp()

    try:
        repo = os.path.join(top, "repo")
        work = os.path.join(top, "work")
        os.makedirs(repo)
        shutil.copy(mk_test_path("toasty-pipeline-config.yaml"), repo)

        exc, _ = run("pipeline", "init", "--local", repo, work)
        if exc is not None:
            raise exc

        approved = os.path.join(work, "approved", CID)
        published = os.path.join(work, "published", CID)
        os.makedirs(approved)
        for n, data in FILES.items():
            with open(os.path.join(approved, n), "wb") as f:
                f.write(data)

        # ---- the failing run ----
        log = []
        with forced_listing(approved, names), failing_put(k, log):
            exc, _ = run("pipeline", "publish", "--workdir", work)

        if exc is None:
            problems.append(f"{where} the injected failure did not stop publish")

        st = store_state(repo)
        complete = all(st.get(n) == FILES[n] for n in OTHERS)

        if "index.wtml" in log and log[-1] != "index.wtml":
            problems.append(f"{where} index.wtml was not the last transfer: {log}")
        if "index.wtml" in st and not complete:
            problems.append(
                f"{where} store has index.wtml but other files are missing/incomplete: "
                f"{sorted(st)}"
            )
        if not os.path.isdir(approved) or os.path.exists(published):
            problems.append(f"{where} image left approved/ although publish failed")

        saved, done = refresh_counts(work)
        really_done = "index.wtml" in st and complete
        if (done == 1) != really_done:
            problems.append(
                f"{where} after the failed publish the store holds {sorted(st)} "
                f"(no index.wtml), yet refresh says: saved={saved}, already done={done} "
                "-- the partially published image is skipped"
            )
        if not really_done and not os.path.exists(os.path.join(work, "candidates", CID)):
            problems.append(
                f"{where} refresh did not save the partially published image as a candidate"
            )

        # ---- the re-run ----
        with forced_listing(approved, names):
            exc, _ = run("pipeline", "publish", "--workdir", work)

        if exc is not None:
            problems.append(f"{where} re-running publish failed: {exc!r}")
        else:
            st = store_state(repo)
            if st != FILES:
                problems.append(f"{where} re-run left the store incomplete: {sorted(st)}")
            if os.path.exists(approved) or not os.path.isdir(published):
                problems.append(f"{where} re-run did not move the image to published/")
            saved, done = refresh_counts(work)
            if done != 1:
                problems.append(f"{where} refresh does not see the finished image as done")
    finally:
        shutil.rmtree(top, ignore_errors=True)

    return problems


all_problems = []
n_trials = 0

for order_name, names in ORDERS.items():
    for k in range(len(FILES)):
        all_problems += one_trial(order_name, names, k)
        n_trials += 1

if all_problems:
    print(f"C18 VIOLATED in {len(all_problems)} checks over {n_trials} trials; first few:")
    for p in all_problems[:8]:
        print("  -", p)
    sys.exit(1)

print(f"OK: {n_trials} (listing order x failure point) trials, no partially published image skipped")
