"""Fail-closed transpiler for /repo/toasty/_libtoasty.pyx.

Cython is not installed in this sandbox, so the compiled extension
(_libtoasty*.so, built elsewhere) cannot be rebuilt from the .pyx that is in the
working tree: an edit to the .pyx would change nothing at run time.  To keep the
checks tied to the CURRENT source, this module

  * transpiles the .pyx into pure Python with a small set of line rules that
    cover exactly the constructs the file uses (any line that still contains a
    Cython-only construct afterwards is an error: the tie is then reported as
    broken, never guessed);
  * calls libm's sin/cos/atan2/hypot through ctypes so that results are
    bit-identical with the C code;
  * compares transpiled and compiled functions bit-for-bit on generated inputs
    (on the unchanged tree this validates the transpiler; after an edit of the
    .pyx it shows that the stale .so no longer speaks for the source);
  * when they differ, installs the transpiled functions into toasty so that every
    property predicate is evaluated on what the source says now.
"""
import ctypes
import ctypes.util
import math
import os
import re
import struct
import types

import numpy as np

CY_TOKENS = re.compile(r"\b(cdef|cpdef|cimport|ctypedef|DEF|bint|DTYPE_t)\b|&\w|\w\s*\*\s*\w+\s*[,)]")


class TranspileError(Exception):
    pass


def _split_top(text):
    parts, cur, depth = [], "", 0
    for ch in text:
        if ch in "([":
            depth += 1
        if ch in ")]":
            depth -= 1
        if ch == "," and depth == 0:
            parts.append(cur)
            cur = ""
        else:
            cur += ch
    parts.append(cur)
    return parts


def _strip_types(params):
    out = []
    for p in _split_top(params):
        p = p.strip()
        if not p:
            continue
        p = re.sub(r"^np\.ndarray\[[^\]]*\]\s*", "", p)
        p = re.sub(r"^DTYPE_t\s*\[[^\]]*\]\s*", "", p)
        p = re.sub(r"^(Point|DTYPE_t|int|bint|double)\s*\*?\s*", "", p)
        out.append(p)
    return ", ".join(out)


def transpile(src):
    lines = src.split("\n")
    out = [
        "import ctypes as _ct, ctypes.util as _ctu",
        "import numpy as np",
        "_libm = _ct.CDLL(_ctu.find_library('m') or 'libm.so.6')",
        "def _f1(name):\n    f = getattr(_libm, name); f.restype = _ct.c_double; f.argtypes = [_ct.c_double]; return f",
        "def _f2(name):\n    f = getattr(_libm, name); f.restype = _ct.c_double; f.argtypes = [_ct.c_double, _ct.c_double]; return f",
        "sin = _f1('sin'); cos = _f1('cos'); atan2 = _f2('atan2'); hypot = _f2('hypot')",
        "class Point(object):\n    __slots__ = ('x', 'y')\n    def __init__(self, x=0.0, y=0.0):\n        self.x = float(x); self.y = float(y)",
    ]
    i = 0
    n = len(lines)
    in_struct = False
    while i < n:
        ln = lines[i]
        s = ln.strip()
        indent = ln[: len(ln) - len(ln.lstrip())]
        i += 1
        if in_struct:
            if s.startswith("DTYPE_t ") or s == "":
                if s == "":
                    in_struct = False
                continue
            in_struct = False
        if s.startswith("from libc.math cimport"):
            names = {x.strip() for x in s.split("cimport")[1].split(",")}
            if not names <= {"sin", "cos", "atan2", "hypot"}:
                raise TranspileError(f"unknown libm import: {s}")
            continue
        if s in ("cimport cython", "cimport numpy as np", "import numpy as np", "np.import_array()"):
            continue
        if s.startswith("ctypedef np.float64_t DTYPE_t"):
            continue
        if s.startswith("@cython."):
            if not re.fullmatch(r"@cython\.(boundscheck|wraparound)\(False\)", s):
                raise TranspileError(f"unknown decorator: {s}")
            continue
        if s == "cdef struct Point:":
            in_struct = True
            continue
        m = re.fullmatch(r"DEF\s+(\w+)\s*=\s*(.+)", s)
        if m:
            out.append(f"{indent}{m.group(1)} = {m.group(2)}")
            continue
        # function headers (possibly spanning several lines)
        if re.match(r"cdef\s+(void|bint|int|DTYPE_t)\s+\w+\s*\(", s):
            hdr = s
            while not hdr.rstrip().endswith(":"):
                hdr += " " + lines[i].strip()
                i += 1
            m = re.fullmatch(r"cdef\s+(?:void|bint|int|DTYPE_t)\s+(\w+)\s*\((.*)\)\s*:", hdr)
            if not m:
                raise TranspileError(f"cannot parse function header: {hdr}")
            out.append(f"{indent}def {m.group(1)}({_strip_types(m.group(2))}):")
            continue
        # local declarations
        m = re.fullmatch(r"cdef\s+Point\s+(.+)", s)
        if m:
            decls = []
            depth = 0
            cur = ""
            for ch in m.group(1):
                if ch == "(":
                    depth += 1
                if ch == ")":
                    depth -= 1
                if ch == "," and depth == 0:
                    decls.append(cur.strip())
                    cur = ""
                else:
                    cur += ch
            decls.append(cur.strip())
            for d in decls:
                if "=" in d:
                    out.append(f"{indent}{d}")
                else:
                    if not re.fullmatch(r"\w+", d):
                        raise TranspileError(f"cannot parse Point declaration: {s}")
                    out.append(f"{indent}{d} = Point()")
            continue
        m = re.fullmatch(r"cdef\s+(?:DTYPE_t|int|bint|double)\s+(.+)", s)
        if m:
            body = m.group(1)
            if "=" in body:
                if "," in body.split("=")[0]:
                    raise TranspileError(f"cannot parse declaration: {s}")
                out.append(f"{indent}{body}")
            else:
                if not re.fullmatch(r"[\w\s,]+", body):
                    raise TranspileError(f"cannot parse declaration: {s}")
            continue
        m = re.fullmatch(r"cdef\s+np\.ndarray\[[^\]]*\]\s+(\w+\s*=.+)", s)
        if m:
            out.append(f"{indent}{m.group(1)}")
            continue
        # address-of arguments:  _mid(a, b, &c)
        ln2 = re.sub(r"&(\w+)", r"\1", ln)
        if CY_TOKENS.search(re.sub(r'"[^"]*"|\'[^\']*\'|#.*', "", ln2)) and not s.startswith(('"', "'")):
            code = re.sub(r'"[^"]*"|\'[^\']*\'|#.*', "", ln2)
            if re.search(r"\b(cdef|cpdef|cimport|ctypedef|DEF|bint|DTYPE_t)\b", code):
                raise TranspileError(f"untranslated Cython construct: {s}")
        out.append(ln2)
    py = "\n".join(out)
    try:
        compile(py, "_libtoasty_transpiled", "exec")
    except SyntaxError as e:
        raise TranspileError(f"transpiled source does not parse: {e}")
    return py


def load(repo):
    src = open(os.path.join(repo, "toasty", "_libtoasty.pyx")).read()
    py = transpile(src)
    mod = types.ModuleType("_libtoasty_transpiled")
    mod.DTYPE = np.float64
    exec(compile(py, "_libtoasty_transpiled", "exec"), mod.__dict__)
    for name in ("mid", "subsample", "tile_intersects_latlon_bbox"):
        if not callable(getattr(mod, name, None)):
            raise TranspileError(f"transpiled module lacks {name}()")
    return mod


def _bits(x):
    return struct.pack("<d", float(x))


def compare_with_compiled(mod, rng, n_mid=3000, n_sub=6, n_bbox=3000):
    """Bit-for-bit comparison of transpiled and compiled functions.
    Returns a list of differences (empty = identical on everything tried)."""
    from toasty import _libtoasty as C
    diffs = []
    pts = []
    for _ in range(n_mid):
        a = (rng.uniform(-7, 7), rng.uniform(-math.pi / 2, math.pi / 2))
        b = (rng.uniform(-7, 7), rng.uniform(-math.pi / 2, math.pi / 2))
        if rng.random() < 0.2:
            a = (rng.choice((0.0, math.pi / 2, math.pi, 1.5 * math.pi)), rng.choice((0.0, math.pi / 2, -math.pi / 2)))
        pts.append((a, b))
    for a, b in pts:
        r1, r2 = C.mid(a, b), mod.mid(a, b)
        if _bits(r1[0]) != _bits(r2[0]) or _bits(r1[1]) != _bits(r2[1]):
            diffs.append(("mid", a, b, r1, r2))
            if len(diffs) > 5:
                return diffs
    from toasty import toast
    tiles = list(toast.generate_tiles(2, bottom_only=False))
    for t in [tiles[i] for i in sorted(rng.sample(range(len(tiles)), min(n_sub, len(tiles))))]:
        for npix in (1, 2, 8):
            x1, y1 = C.subsample(t.corners[0], t.corners[1], t.corners[2], t.corners[3], npix, t.increasing)
            x2, y2 = mod.subsample(t.corners[0], t.corners[1], t.corners[2], t.corners[3], npix, t.increasing)
            if x1.tobytes() != x2.tobytes() or y1.tobytes() != y2.tobytes():
                diffs.append(("subsample", tuple(t.pos), npix))
                break
    all_tiles = list(toast.generate_tiles(4, bottom_only=False))
    for _ in range(n_bbox):
        t = rng.choice(all_tiles)
        lon0 = rng.uniform(-7, 7)
        w = rng.choice((0.01, 0.3, 1.0, 3.0, 6.5)) * rng.random()
        la0 = rng.uniform(-1.6, 1.5)
        h = rng.uniform(0.001, 1.5)
        c1 = np.array(t.corners, dtype=np.float64)
        c2 = c1.copy()
        r1 = C.tile_intersects_latlon_bbox(c1, lon0, lon0 + w, la0, la0 + h)
        r2 = mod.tile_intersects_latlon_bbox(c2, lon0, lon0 + w, la0, la0 + h)
        if bool(r1) != bool(r2) or c1.tobytes() != c2.tobytes():
            diffs.append(("tile_intersects_latlon_bbox", tuple(t.pos), (lon0, lon0 + w, la0, la0 + h), bool(r1), bool(r2)))
            if len(diffs) > 5:
                break
    return diffs


def install(mod):
    """Make toasty use the transpiled functions (slow, exact)."""
    import toasty._libtoasty as C
    import toasty.toast as T
    for name in ("mid", "subsample", "tile_intersects_latlon_bbox"):
        setattr(C, name, getattr(mod, name))
    T.mid = mod.mid
    T.subsample = mod.subsample


def tie(V, repo, rng):
    """Called by bin/check before the geometry properties (C04 C05 C06 C07 C12).
    Returns a dict for the evidence."""
    info = dict(transpiled=False, identical_to_compiled=None, installed=False)
    try:
        mod = load(repo)
        info["transpiled"] = True
    except (TranspileError, Exception) as e:  # fail closed
        V.disagreement("pyx2py: _libtoasty.pyx uses a construct the transpiler does not know",
                       dict(error=repr(e)), "the .pyx transpiles", "transpile failed", None)
        return info
    diffs = compare_with_compiled(mod, rng)
    info["identical_to_compiled"] = not diffs
    if diffs:
        V.disagreement("transpiled _libtoasty.pyx ~ compiled _libtoasty.so (bit-for-bit)",
                       dict(differences=[repr(d) for d in diffs[:4]]),
                       "the compiled extension computes what the .pyx in the working tree says",
                       "they differ: the .pyx was edited (the .so cannot be rebuilt here); "
                       "the property predicates below run on the transpiled source", None)
        install(mod)
        info["installed"] = True
    return info
