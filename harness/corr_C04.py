"""C04 correspondence: TOAST tile construction, four routes, lattice, layout.

Implementation side: the real toasty.toast functions (_div4, _postfix_corner,
generate_tiles(_filtered), create_single_tile, toast_tile_for_point, toast_tile_area)
run with `toasty.toast.mid` replaced by a *recording* wrapper around the real
compiled mid (harness/toast_terms.py): every corner comes back with the term
(Base k | Mid a b, argument order as executed) it was built from.
Model side: Model/ToastTerm.v evaluated by vm_compute -- on explicit terms for
depth <= 3 and on the hash image of the terms (Properties.C04.hash_image) beyond.
Numeric validations (areas, _mid vs normalised sum, float lattice) are tests on the
implementation and are labelled as such in the evidence.
"""
import math

import numpy as np

import contextlib
import io
import common
import toast_terms as TT

TRUSTED = [
    "harness/toast_terms.py: recording wrapper around the compiled toasty._libtoasty.mid (terms/hashes attached to the "
    "returned (lon, lat) tuples); hash collisions (arithmetic modulo 2^63) are neglected",
    "the compiled _libtoasty*.so is taken as the semantics of _libtoasty.pyx (no Cython here to rebuild it)",
    "numeric validation only (not proof): toast_tile_area sums, libm-based _mid vs normalised vector sum (50-digit decimal), "
    "float lattice/partition predicates with stated tolerances",
]
ASSUMPTIONS = [
    "mid is a deterministic function of its two arguments (the term layer is generic in it)",
    "tile filters are pure functions of the tile",
    "positions are valid (x, y < 2^n) and n >= 1",
]

IMPORTS = ["Model.Quadtree", "Model.ToastTerm"]

COQ_DEFS = TT.COQ_DIGEST_DEFS + r"""
Inductive c4case :=
| KTile (planet : bool) (obs : htile)
| KCst (planet : bool) (p : pos) (obs : option htile)
| KGen (planet : bool) (depth : nat) (bottom filtered : bool) (table : list pos) (count : N) (digest : int)
| KTerm (planet : bool) (obs : tile).
Definition chk4 (c : c4case) : nat :=
  match c with
  | KTile pl obs => if htile_eqb (tile_at hbase hmid (cs_of pl) (tpos obs)) obs then 0%nat else 1%nat
  | KCst pl p obs =>
      match create_single_tile hbase hmid (cs_of pl) p, obs with
      | Some t, Some o => if htile_eqb t o then 0%nat else 2%nat
      | None, None => 0%nat
      | _, _ => 2%nat
      end
  | KGen pl depth bottom filtered table count digest =>
      let l := if filtered then generate_tiles_filtered hbase hmid depth (tbl table) bottom (cs_of pl)
               else generate_tiles hbase hmid depth bottom (cs_of pl) in
      if negb (N.eqb (N.of_nat (length l)) count) then 3%nat
      else if negb (ieq (tiles_digest l) digest) then 4%nat else 0%nat
  | KTerm pl obs => if tile_eqb (tile_at Base Mid (cs_of pl) (tpos obs)) obs then 0%nat else 5%nat
  end.
"""

REL = {1: "routes_agree: observed corners/increasing != tile_at (hash image)",
       2: "create_single_tile (as coded) != implementation",
       3: "generate_tiles(_filtered): number of tiles",
       4: "generate_tiles(_filtered): sequence of (pos, corners, increasing)",
       5: "routes_agree: observed corner terms != tile_at (explicit terms)"}


def g_bool(b):
    return "true" if b else "false"


def g_pos(p):
    return "(mkPos %d %d %d)" % tuple(p)


def g_tile_terms(row, terms):
    n, x, y, _hs, inc = row
    return "(mkT (mkPos %d %d %d) %s %s %s %s %s)" % (n, x, y, *(TT.g_term(t) for t in terms), g_bool(inc))


# ------------------------------------------------------------------ reference predicates (Python, from the statement)

def children(p):
    n, x, y = p
    return [(n + 1, 2 * x, 2 * y), (n + 1, 2 * x + 1, 2 * y), (n + 1, 2 * x, 2 * y + 1), (n + 1, 2 * x + 1, 2 * y + 1)]


def accepted_set(depth, table, bottom):
    tset = set(table)
    out = set()

    def rec(p):
        if p[0] > depth or p not in tset:
            return
        if p[0] == depth or not bottom:
            out.add(p)
        for c in children(p):
            rec(c)

    for c in children((0, 0, 0)):
        rec(c)
    return out


def gen_table(rng, depth, density):
    table = []

    def rec(p):
        if p[0] > depth or rng.random() >= density:
            return
        table.append(p)
        if p[0] < depth and rng.random() < 0.1:
            return
        for c in children(p):
            rec(c)

    for c in children((0, 0, 0)):
        rec(c)
    for _ in range(2):
        n = rng.randint(1, depth)
        table.append((n, rng.randrange(2 ** n), rng.randrange(2 ** n)))
    return sorted(set(table))


def float_lattice_predicates(tiles_by_pos, depth, planet):
    """Property predicates evaluated on the floats the implementation produced for the full
    depth-`depth` layer (and its ancestors): returns a list of failure strings."""
    why = []
    tol = 1e-12
    M = 2 ** depth
    L = {p: t for p, t in tiles_by_pos.items() if p[0] == depth}
    # neighbours at equal depth share corner points
    for (n, x, y), (c, inc) in L.items():
        if x + 1 < M:
            r = L[(n, x + 1, y)][0]
            if TT.chord(c[1], r[0]) > tol or TT.chord(c[2], r[3]) > tol:
                why.append(f"tile {(n, x, y)} and its right neighbour do not share an edge")
                break
        if y + 1 < M:
            d = L[(n, x, y + 1)][0]
            if TT.chord(c[3], d[0]) > tol or TT.chord(c[2], d[1]) > tol:
                why.append(f"tile {(n, x, y)} and its lower neighbour do not share an edge")
                break
    # boundary gluing
    for i in range(M):
        a, b = L[(depth, i, 0)][0], L[(depth, M - 1 - i, 0)][0]
        if TT.chord(a[0], b[1]) > tol:
            why.append("top rim does not fold onto itself")
            break
        a, b = L[(depth, 0, i)][0], L[(depth, 0, M - 1 - i)][0]
        if TT.chord(a[0], b[3]) > tol:
            why.append("left rim does not fold onto itself")
            break
    # nesting: corners of children are corners / edge midpoints / diagonal midpoint of the parent
    for (n, x, y), (c, inc) in tiles_by_pos.items():
        if n >= depth:
            continue
        ul, ur, lr, ll = [TT.xyz(*q) for q in c]
        ch = [tiles_by_pos[p][0] for p in children((n, x, y))]
        ce = TT.xyz(*ch[0][2])
        da, db = (ll, ur) if inc else (ul, lr)
        s = [u + v for u, v in zip(da, db)]
        nrm = math.sqrt(sum(u * u for u in s))
        if math.sqrt(sum((u / nrm - v) ** 2 for u, v in zip(s, ce))) > 1e-10:
            why.append(f"centre of {(n, x, y)} is not the midpoint of its `increasing` diagonal")
            break
        if TT.chord(ch[0][0], c[0]) > tol or TT.chord(ch[1][1], c[1]) > tol or TT.chord(ch[3][2], c[2]) > tol \
                or TT.chord(ch[2][3], c[3]) > tol:
            why.append(f"children of {(n, x, y)} do not keep its corners")
            break
        to = TT.xyz(*ch[0][1])
        if abs(TT.det3(ul, ur, to)) > 1e-12 or TT.chord(ch[0][1], ch[1][0]) > tol:
            why.append(f"children of {(n, x, y)} do not meet on its upper edge")
            break
    # documented layout at level 1
    sh = math.pi if planet else 0.0
    l1 = {p: t for p, t in tiles_by_pos.items() if p[0] == 1}
    north, south = (0.0, math.pi / 2), (0.0, -math.pi / 2)
    want = {(1, 0, 0): [south, (math.pi / 2 + sh, 0), north, (math.pi + sh, 0)],
            (1, 1, 0): [(math.pi / 2 + sh, 0), south, (0 + sh, 0), north],
            (1, 0, 1): [(math.pi + sh, 0), north, (1.5 * math.pi + sh, 0), south],
            (1, 1, 1): [north, (0 + sh, 0), south, (1.5 * math.pi + sh, 0)]}
    for p, w in want.items():
        if p in l1 and any(TT.chord(a, b) > tol for a, b in zip(l1[p][0], w)):
            why.append(f"level-1 tile {p} is not laid out as documented")
    return why


def partition_predicate(rng, layer, npts):
    """Every random direction lies in >= 1 tile of the layer (within 1e-12) and strictly inside
    (margin > 1e-9) at most one."""
    why = []
    quads = [(p, [TT.xyz(*q) for q in c]) for p, (c, _inc) in layer.items()]
    A = np.array([[np.cross(q[i], q[(i + 1) % 4]) for i in range(4)] for _p, q in quads])  # (T,4,3)
    for _ in range(npts):
        z = rng.uniform(-1, 1)
        lon = rng.uniform(0, 2 * math.pi)
        lat = math.asin(z)
        v = np.array(TT.xyz(lon, lat))
        m = (A @ v).min(axis=1)
        if (m >= -1e-12).sum() < 1:
            why.append(f"point lon={lon} lat={lat} lies in no tile")
            break
        if (m > 1e-9).sum() > 1:
            why.append(f"point lon={lon} lat={lat} lies strictly inside {(m > 1e-9).sum()} tiles")
            break
    return why


def area_tests(T, tiles_by_pos, depth):
    why = []
    area = {p: T.toast_tile_area(T.Tile(T.Pos(*p), np.array(c), inc)) for p, (c, inc) in tiles_by_pos.items()}
    for n in range(1, depth + 1):
        s = sum(a for p, a in area.items() if p[0] == n)
        if abs(s - 4 * math.pi) > 1e-7:
            why.append(f"areas at depth {n} sum to {s}, not 4 pi")
    for p, a in area.items():
        if p[0] < depth:
            s = sum(area[c] for c in children(p))
            if abs(s - a) > 1e-9 * max(1.0, a) + 1e-12:
                why.append(f"area of {p} = {a} but its children sum to {s}")
                break
    return why, len(area)


# ------------------------------------------------------------------ run

def run(ctx, V):
    import toasty.toast as T
    from toasty.pyramid import Pos
    from toasty._libtoasty import mid as real_mid

    rng = common.rng_for(ctx["seed"], "C04")
    tier = ctx["tier"]
    quick = tier == "quick"
    terms = []      # Gallina case terms
    meta = []       # replayable description per case
    floats = {}     # (planet, pos) -> {route: corners floats, increasing}
    hist = {}
    prop_fail = {False: [], True: []}   # per coordinate system: failures of the property's own predicates
    numeric = {}

    def note(route, planet, row, tile, asked=None):
        key = (planet, tuple(asked) if asked is not None else row[:3])
        floats.setdefault(key, {})[route] = (TT.tile_floats(tile), bool(tile.increasing))
        hist[f"{route}/depth{row[0]}"] = hist.get(f"{route}/depth{row[0]}", 0) + 1

    def add_tile(route, planet, tile, extra=None, asked=None):
        row = TT.tile_row(tile)
        if asked is not None and tuple(asked) != row[:3]:
            prop_fail[planet].append(f"{route}({tuple(asked)}) returned the tile of position {row[:3]}")
        terms.append(f"(KTile {g_bool(planet)} {TT.g_htile(row)})")
        meta.append(dict(route=route, planet=planet, pos=list(row[:3]), **(extra or {})))
        tt = TT.tile_terms(tile)
        if row[0] <= 3 and all(t is not None for t in tt):
            terms.append(f"(KTerm {g_bool(planet)} {g_tile_terms(row, tt)})")
            meta.append(dict(route=route + "/terms", planet=planet, pos=list(row[:3]), **(extra or {})))
        note(route, planet, row, tile, asked)
        return row

    D = 4 if quick else 6
    replay = (ctx.get("replay") or {}).get("case") or {}
    mid_samples = []

    with TT.recording() as rec:
        orig = rec.real_mid

        def sampling_mid(a, b):
            r = orig(a, b)
            if len(mid_samples) < 4000 and rng.random() < 0.02:
                mid_samples.append(((float(a[0]), float(a[1])), (float(b[0]), float(b[1])), (float(r[0]), float(r[1]))))
            return r
        rec.real_mid = sampling_mid

        # replayed case first
        if replay.get("route") in ("create_single_tile", "lookup", "create_single_tile/terms", "lookup/terms"):
            cs = TT.coordsystems()[1 if replay["planet"] else 0]
            if replay["route"].startswith("create"):
                add_tile("create_single_tile", replay["planet"], T.create_single_tile(Pos(*replay["pos"]), cs))
            else:
                add_tile("lookup", replay["planet"], T.toast_tile_for_point(replay["depth"], replay["lat"], replay["lon"], cs),
                         dict(depth=replay["depth"], lat=replay["lat"], lon=replay["lon"]))

        for planet, cs in enumerate(TT.coordsystems()):
            planet = bool(planet)
            # 1. full enumeration, both bottom_only values
            by_pos = {}
            for bottom in (False, True):
                tiles = list(T.generate_tiles(D, bottom_only=bottom, coordsys=cs))
                rows = [TT.tile_row(t) for t in tiles]
                terms.append("(KGen %s %d %s false [] %d %s)" % (g_bool(planet), D, g_bool(bottom), len(rows), TT.g_i(TT.tiles_digest(rows))))
                meta.append(dict(route="generate_tiles", planet=planet, depth=D, bottom=bottom))
                want = {(n, x, y) for n in range(1, D + 1) for x in range(2 ** n) for y in range(2 ** n) if (n == D or not bottom)}
                if {r[:3] for r in rows} != want or len(rows) != len(want):
                    prop_fail[planet].append(f"generate_tiles(depth={D}, bottom_only={bottom}) does not yield each position once")
                if not bottom:
                    for t, r in zip(tiles, rows):
                        by_pos[r[:3]] = (TT.tile_floats(t), bool(t.increasing))
                        if r[0] <= (4 if quick else 5) or rng.random() < 0.1:
                            add_tile("generate_tiles", planet, t)
            # property predicates on the floats of this layer
            prop_fail[planet] += float_lattice_predicates(by_pos, D, planet)
            layer = {p: v for p, v in by_pos.items() if p[0] == min(D, 4)}
            prop_fail[planet] += partition_predicate(rng, layer, 300 if quick else 3000)
            aw, na = area_tests(T, {p: v for p, v in by_pos.items() if p[0] <= (4 if quick else 6)}, 4 if quick else 6)
            prop_fail[planet] += aw
            numeric[f"areas_{'planetary' if planet else 'astronomical'}"] = dict(tiles=na, failures=aw)

            # 2. filtered enumeration
            for k in range(6 if quick else 40):
                depth = rng.choice((2, 3, 3, 4, 4, 5))
                dens = rng.choice((0.4, 0.6, 0.8, 0.95, 1.0))
                if depth == 5:
                    dens = min(dens, 0.6)
                table = gen_table(rng, depth, dens)
                if replay.get("route") == "generate_tiles_filtered" and k == 0 and replay["planet"] == planet:
                    depth, table = replay["depth"], [tuple(p) for p in replay["table"]]
                tset = set(table)
                bottom = rng.random() < 0.5
                tiles = list(T.generate_tiles_filtered(depth, lambda t: (t.pos.n, t.pos.x, t.pos.y) in tset, bottom_only=bottom, coordsys=cs))
                rows = [TT.tile_row(t) for t in tiles]
                terms.append("(KGen %s %d %s true %s %d %s)" % (g_bool(planet), depth, g_bool(bottom),
                                                               "[" + "; ".join(g_pos(p) for p in table) + "]", len(rows), TT.g_i(TT.tiles_digest(rows))))
                meta.append(dict(route="generate_tiles_filtered", planet=planet, depth=depth, bottom=bottom, table=[list(p) for p in table]))
                if sorted(r[:3] for r in rows) != sorted(accepted_set(depth, table, bottom)):
                    prop_fail[planet].append(f"generate_tiles_filtered(depth={depth}) does not yield exactly the tiles accepted with all ancestors")
                for t in tiles:
                    if rng.random() < (0.3 if quick else 0.5):
                        add_tile("generate_tiles_filtered", planet, t)

            # 2b. the Pyramid route with pyramids of BOTH systems alive at once (seeded change C04-o kept the
            #     system on the class, so the object made last decided for all): each object hands out the
            #     tiles of the system it was made with
            from toasty.pyramid import Pyramid
            _before = [Pyramid.new_toast(2, coordsys=c2) for c2 in TT.coordsystems()]
            mine = Pyramid.new_toast(2, coordsys=cs)
            _after = [Pyramid.new_toast(1, coordsys=c2) for c2 in reversed(TT.coordsystems())]
            seen = {}
            with contextlib.redirect_stdout(io.StringIO()):
                mine.visit_leaves(lambda pos, tile: seen.__setitem__((pos.n, pos.x, pos.y), tile), parallel=1)
            if sorted(seen) != sorted(p for p in by_pos if p[0] == 2):
                prop_fail[planet].append("Pyramid.new_toast(2).visit_leaves does not visit the level-2 positions once each")
            for pp, tile in seen.items():
                if pp in by_pos and (TT.tile_floats(tile), bool(tile.increasing)) != by_pos[pp]:
                    prop_fail[planet].append(f"a Pyramid made for this system, with pyramids of the other system alive, hands out "
                                             f"another tile at {pp} than generate_tiles in the same system")
                    break
            hist["pyramid_route/depth2"] = hist.get("pyramid_route/depth2", 0) + len(seen)

            # 3. create_single_tile: exhaustive to depth 3, random deep positions
            poss = [(n, x, y) for n in range(1, 4) for x in range(2 ** n) for y in range(2 ** n)]
            for _ in range(120 if quick else 1500):
                n = rng.choice((4, 5, 6, 8, 10, 13, 16, 20, 24))
                poss.append((n, rng.randrange(2 ** n), rng.randrange(2 ** n)))
            for p in poss:
                try:
                    t = T.create_single_tile(Pos(*p), cs)
                except Exception as e:   # a valid position must give a tile
                    prop_fail[planet].append(f"create_single_tile({p}) raised {e!r}")
                    terms.append(f"(KCst {g_bool(planet)} {g_pos(p)} None)")
                    meta.append(dict(route="create_single_tile", planet=planet, pos=list(p)))
                    continue
                row = add_tile("create_single_tile", planet, t, asked=p)
                terms.append(f"(KCst {g_bool(planet)} {g_pos(p)} (Some {TT.g_htile(row)}))")
                meta.append(dict(route="create_single_tile", planet=planet, pos=list(p)))
            try:
                T.create_single_tile(Pos(0, 0, 0), cs)
                terms.append(f"(KCst {g_bool(planet)} (mkPos 0 0 0) (Some {TT.g_htile((0, 0, 0, (0, 0, 0, 0), False))}))")
            except ValueError:
                terms.append(f"(KCst {g_bool(planet)} (mkPos 0 0 0) None)")
            meta.append(dict(route="create_single_tile", planet=planet, pos=[0, 0, 0]))

            # 4. point lookup: whatever tile it arrives at must be the tile of that position
            for _ in range(100 if quick else 1200):
                depth = rng.choice((1, 2, 3, 4, 4, 6, 8, 12))
                lat = math.asin(rng.uniform(-1, 1))
                lon = rng.uniform(0, 2 * math.pi)
                t = T.toast_tile_for_point(depth, lat, lon, cs)
                add_tile("lookup", planet, t, dict(depth=depth, lat=lat, lon=lon))
            # ... and a given position is OBTAINED by looking up a point inside it: the centre of the tile that
            # single-tile construction gives for (n, x, y) must look up to (n, x, y) itself (all of levels 1-2,
            # sampled deeper), with the same corners
            wanted = [(n, x, y) for n in (1, 2) for x in range(2 ** n) for y in range(2 ** n)]
            wanted += [(n, rng.randrange(2 ** n), rng.randrange(2 ** n)) for n in (3, 3, 4, 5, 7, 9, 12) for _ in range(3 if quick else 12)]
            for p in wanted:
                ref = T.create_single_tile(Pos(*p), cs)
                c = TT.centre_lonlat(ref)
                t = T.toast_tile_for_point(p[0], c[1], c[0] % (2 * math.pi), cs)
                if tuple(map(int, t.pos)) != tuple(p):
                    prop_fail[planet].append(f"point lookup of the centre of tile {p} returns position {tuple(map(int, t.pos))}")
                add_tile("lookup", planet, t, dict(depth=p[0], lat=c[1], lon=c[0]))
        rec.real_mid = orig

    # ---- model side
    bad = common.coq_eval_sharded(COQ_DEFS, terms, "chk4", IMPORTS, shard=350, jobs=12, name="c04")

    # ---- property predicate across routes: the same position gives the same corners whatever the route
    n_multi = 0
    for (planet, pos), routes in floats.items():
        if len(routes) > 1:
            n_multi += 1
            vals = list(routes.values())
            for v in vals[1:]:
                if v[1] != vals[0][1] or any(TT.chord(a, b) > 1e-12 for a, b in zip(v[0], vals[0][0])):
                    prop_fail[planet].append(f"routes {sorted(routes)} disagree on tile {pos}")
                    break

    # ---- numeric validation of the compiled _mid against the normalised vector sum (50-digit decimals)
    worst = 0.0
    sub = mid_samples if not quick else mid_samples[:150]
    for _ in range(40 if quick else 400):
        a = (rng.uniform(0, 2 * math.pi), math.asin(rng.uniform(-1, 1)))
        b = (a[0] + rng.uniform(-1.2, 1.2), max(-1.57, min(1.57, a[1] + rng.uniform(-1.2, 1.2))))
        sub.append((a, b, tuple(real_mid(a, b))))
    for a, b, m in sub:
        worst = max(worst, TT.mid_error_hp(a, b, m))
    numeric["mid_vs_normalised_sum"] = dict(samples=len(sub), worst_chord=worst, tolerance=1e-13)
    if worst > 1e-13:
        prop_fail[False].append(f"_mid differs from the normalised vector sum by {worst}")
        prop_fail[True].append(f"_mid differs from the normalised vector sum by {worst}")

    # ---- verdicts
    for i, code in sorted(bad.items()):
        m = meta[i]
        pf = prop_fail[bool(m["planet"])]
        V.disagreement("ToastTerm.v ~ toast.py: " + REL.get(code, str(code)), m, "model value (vm_compute)", terms[i][:300],
                       True if pf else None)
    if not bad:
        for planet in (False, True):
            if prop_fail[planet]:
                V.disagreement("C04 predicate on implementation (model agrees with implementation)",
                               dict(planet=planet, route="predicate"), "property holds", prop_fail[planet][:5], True)
    nontrivial = {(m["route"], m["planet"], tuple(m.get("pos", ())), m.get("depth"), str(m.get("table"))[:80]) for m in meta
                  if m.get("pos", [2])[0] >= 2 or m.get("depth", 0) >= 2}
    return dict(evaluations=len(terms), distinct_nontrivial=len(nontrivial),
                rule="routes: full enumeration depth %d (both bottom_only), random filter tables depth 2-5, create_single_tile "
                     "exhaustive to depth 3 + random positions to depth 24, point lookups depth 1-12, both coordinate systems; "
                     "non-trivial = distinct (route, system, position/filter) at depth >= 2; every observed tile is compared "
                     "with tile_at in Coq (explicit terms to depth 3, hash image beyond)" % D,
                exhaustive_part="all %d positions to depth %d per system via generate_tiles; create_single_tile all positions to depth 3"
                           % ((4 ** (D + 1) - 4) // 3, D),
                mid_calls_recorded=rec.calls, positions_seen_by_several_routes=n_multi,
                numeric_validation_tests=numeric, property_predicate_failures={str(k): v[:5] for k, v in prop_fail.items()},
                input_histogram=hist, samples=[m for m in meta[:3]] + [m for m in meta if m["route"] == "lookup"][:2])
