"""Per-property manifest entries."""

TRANSLATED = {
    "C13": "pyramid.py position algebra and generators re-translated into Gallina on every run (harness/py2coq.py) and proved equal to the model",
    "C08": "study.py StudyTiling re-translated into Gallina on every run (harness/py2coq.py) and proved equal to the model; builder.py Builder.prepare_study_tiling/execute_study_tiling/tile_base_as_study re-translated into scripts of calls and proved equal to the model scripts",
    "C02": "cli.py cascade_impl re-translated into a Gallina decision tree of calls on every run (harness/py2coq.py) and proved equal to the model of the command under every valuation of its settings",
    "C03": "cli.py transform_impl re-translated into a Gallina decision tree of calls on every run (harness/py2coq.py) and proved equal to the model of the command under every valuation of its settings",
    "C11": "cli.py tile_allsky_impl re-translated into a Gallina decision tree of calls on every run (harness/py2coq.py) and proved equal to the model of the command under every valuation of its settings",
    "C20": "cli.py tile_multi_tan_impl re-translated into a Gallina decision tree of calls on every run (harness/py2coq.py) and proved equal to the model of the command",
    "C07": "fits_tiler.py FitsTiler._tile_toast re-translated into a Gallina script of calls on every run (harness/py2coq.py) and proved equal to the model script",
    "C17": "pyramid.py PyramidIO tile naming re-translated into Gallina on every run (harness/py2coq.py) and proved equal to the model; cli.py tile_wwtl_impl re-translated into a Gallina decision tree of calls (assigned calls included) and proved equal to the model of the command under every valuation of its settings; builder.py Builder.__init__/set_name/prepare_study_tiling/execute_study_tiling/tile_base_as_study re-translated into scripts of attribute stores and calls and proved equal to the model scripts",
    "C06": "cli.py tile_healpix_impl re-translated into a Gallina script of calls on every run (harness/py2coq.py) and proved equal to the model of the command",
}


def chk(pid, text, note, technique, design_ref):
    if pid in TRANSLATED:
        technique += " + " + TRANSLATED[pid]
        text += " Translation tie (DESIGN.md section 3.5b): " + TRANSLATED[pid] + "."
    technique += " + workflow probes of the glue around the core (tests, not proofs; DESIGN.md section 3.5c)"
    note += (" The glue around the modelled core (CLI, Builder, FitsTiler, option plumbing) is not modelled; it is exercised by "
             "the workflow probes only (harness/workflows/), which are tests.")
    return dict(property_id=pid,
                quick_cmd=f"bin/check {pid} --tier quick",
                thorough_cmd=f"bin/check {pid} --tier thorough",
                evidence_file=f"evidence/{pid}.json",
                replay_cmd_template="bin/check %s --replay {path}" % pid,
                engine="coq-proof+correspondence",
                level_claimed=dict(category="proof", text=text, design_ref=design_ref),
                level_note=note, technique=technique)

CHECKS = [
    chk("C13",
        "Coq theorems over the Gallina model of the position algebra, the three pyramid generators and the "
        "PyramidReductionIterator (for all depths, filters, apexes), tied to /repo by running the real generators, "
        "reducer, counters, serial walk and leaf visit against the model on exhaustive small and random pyramids.",
        "Trusted: Coq kernel + vm_compute, the hand-written model (Model/Quadtree.v, Model/Reducer.v), the harness; "
        "filters are modelled as pure predicates on positions.",
        "machine-checked proof (Coq) + model/implementation correspondence by vm_compute", "DESIGN.md section 5, C13"),
    chk("C03",
        "Coq theorems over a Gallina LTS of the producer / bounded multiprocessing.Queue / worker protocol shared by the "
        "four parallel stages, for every item count, worker count >= 1, queue and pipe capacity and every schedule "
        "(arbitrary action lists): exactly-once hand-out (visit_safety), terminal state = every item received and "
        "completed once and all workers exited (visit_terminal), no deadlock (visit_no_deadlock), bounded progress "
        "(visit_measure), item set = serial leaf set (C13). Tie to /repo: the four real entry points run unmodified under "
        "a deterministic scheduler that replaces multiprocessing.Queue/Event/Process; every recorded trace (enabled set and "
        "chosen action per step) is replayed on the LTS inside Coq. Partial: termination is proved up to fairness "
        "(no-deadlock + measure); the fakes' faithfulness to CPython's Queue is trusted.",
        "Trusted: Coq kernel + vm_compute, Model/VisitPar.v, harness/detsched.py (fake Queue/Event/Process mirroring CPython "
        "3.12 queues.py), callbacks atomic between sync points; Empty only on an empty pipe (reader-lock contention excluded "
        "by the property's quantifier).",
        "machine-checked proof (Coq invariant + measure over an LTS) + trace correspondence under a deterministic scheduler",
        "DESIGN.md section 5, C03"),
    chk("C01",
        "Machine-checked (Coq, no axioms) for all well-formed pyramids (generic / TOAST / filtered, any apex), all worker "
        "counts par >= 1, pipe capacities >= 1 and ALL schedules of the walk LTS (dispatcher, ready/done queues with "
        "per-process feeders, readiness table, workers with non-atomic callbacks): callbacks only for live non-leaf tiles of "
        "the sub-pyramid, at most once, and a tile's callback starts only after the callbacks of all its live non-leaf "
        "children returned (walk_par_safety, every reachable state); on return exactly once each and every worker exited 0 "
        "(walk_par_terminal); immediate return when there is nothing to do; equals the serial walk (walk_par_eq_serial, "
        "walk_serial_spec); the dispatcher never raises; no deadlock after at most one polling move and a strictly "
        "decreasing progress measure (termination up to fairness). Tie to /repo: real Pyramid.walk(parallel=k) runs "
        "unmodified under a deterministic scheduler, every trace (enabled set + chosen action per step, callback start/end "
        "log, outcome) is replayed on the LTS inside Coq; serial walk compared with the reducer model; real fork runs "
        "judged by the predicate.",
        "Trusted: Coq kernel + vm_compute, Model/WalkPar.v + Model/Reducer.v, harness/detsched.py fakes of "
        "multiprocessing (Empty only on an empty pipe); fairness for termination; raising callbacks are C19's subject.",
        "machine-checked proof (Coq LTS invariant by occurrence counting, no-deadlock, measure) + trace correspondence under a deterministic scheduler",
        "DESIGN.md section 5, C01"),
    chk("C10",
        "Coq theorems over a Gallina LTS of PyramidIO.update_image's protocol (try-acquire of the soft file lock, read, "
        "in-place write with a Partial window, release) for ANY number of updaters, arbitrary update functions on an "
        "abstract tile type, arbitrary initial file and every schedule: mutual exclusion (lock_mutex), a read under the "
        "lock never sees a partial tile (lock_no_partial_read), when all are done the tile equals all updates applied one "
        "after another in acquisition order — a permutation of the updaters, none missing — and the lock is free "
        "(lock_linearizable), no deadlock, bounded progress. Tie to /repo: real update_image bodies run as scheduler-driven "
        "actors on the real lock and tile files (sync points injected from the harness only), traces replayed on the LTS in "
        "Coq, final pixels compared with the sequential application in the model's acquisition order; plus a real-process "
        "stress run.",
        "Trusted: Coq kernel + vm_compute, Model/Lock.v, harness/detsched.py, filelock.SoftFileLock's atomic exclusive create; "
        "threads contend through the lock file as processes do; fairness for termination.",
        "machine-checked proof (Coq invariant over an LTS) + trace correspondence on the real lock/tile files",
        "DESIGN.md section 5, C10"),
    chk("C11",
        "Coq proof over Q (pi an arbitrary positive rational, the frame rotation an oracle argument) for all six sampler "
        "variants, all nx, ny >= 1 and all rational lon/lat: indices in range, the returned cell (from the documented edge and "
        "direction) contains the normalised point, interior points get exactly their cell, 2pi-periodicity. Tie to /repo: the "
        "six real samplers on maps of 1-40 px per axis, model evaluated on the exact rationals of the doubles with a 1e-9 px "
        "rounding-tie margin; shape and indexing checked dynamically; astropy rotations sanity-checked against IAU matrices.",
        "Float rounding is outside the model (margin); the Galactic/ecliptic rotations are astropy's (oracle); the ecliptic "
        "layout is as coded (longitude 0 on the seam; the statement is silent).",
        "machine-checked proof (Coq, rational arithmetic) + vm_compute correspondence on exact rationals of doubles",
        "DESIGN.md section 5, C11"),
    chk("C17",
        "Coq proof over a string-level model of tile paths and WTML URL templates: template expansion = written relative "
        "path, path/URL injectivity (both schemes, all formats, all depths; decimal rendering injective), FileType = "
        "extension, TileLevels = deepest populated layer per workflow, and returned description = WTML along every history "
        "of auto-tiler calls (fresh, repeated, override) by induction over histories. Tie to /repo: PyramidIO.tile_path and "
        "Builder fields against the model for random positions to depth 30; end-to-end study / all-sky / tile_fits (TAN, "
        "TOAST) / pipeline workflows on tiny inputs with every file mapped back through the WTML Url; tile_fits along every "
        "history of length <= 3.",
        "HiPS workflow excluded (needs Java and a download). WWTL and multi-TAN CLI share the Builder path and are not run.",
        "machine-checked proof (Coq, string model + history induction) + vm_compute correspondence incl. end-to-end workflows",
        "DESIGN.md section 5, C17"),
    chk("C16",
        "Coq theorems over Q for the linear WCS as read from CDELT*PC (every non-singular CD, CRPIX anywhere, every height, "
        "images and data-less descriptions): the flip negates the parity sign, the intermediate world coordinates of pixel "
        "(x, y) before equal those of (x, h-1-y) after (by ring, even for fractional pixels), rows are reversed, the flip is "
        "an involution, ensure_negative_parity is idempotent and yields -1. Tie to /repo: exact comparison of header values "
        "of real astropy WCS objects (dyadic entries) before and after flip_parity / ensure_negative_parity, and "
        "wcs_pix2world within 1e-9 deg on rotated/skewed WCSs and the test files.",
        "Trusted: kernel, model, astropy/wcslib (to_header, the celestial projection). Float rounding outside the model.",
        "machine-checked proof (Coq) + model/implementation correspondence by vm_compute", "DESIGN.md section 5, C16"),
    chk("C18",
        "Coq theorems over the Gallina model of PipelineManager.publish, LocalPipelineIo.put_item and refresh's skip rule: "
        "index.wtml is transferred last and every file exactly once for every directory listing; the crash invariant for "
        "every listing and every fault point (before/during/after each transfer), several images in any order; a fault-free "
        "re-run completes; refresh never skips an image with incomplete files; arbitrary sequences of faulted runs for the "
        "atomic (temporary name + rename) store — refuted with a witness for the in-place store that existed before fix "
        "eb30ad7. Tie to /repo: the real publish and refresh_impl under injected faults and chosen os.listdir orders, "
        "exhaustive to 5 files, two-fault sequences, random multi-image histories.",
        "Trusted: kernel, model, the listdir wrapper and fault-injecting store subclass, POSIX open/rename semantics. Only "
        "the local store is executed (Azure is not reachable).",
        "machine-checked proof (Coq) + model/implementation correspondence by vm_compute", "DESIGN.md section 5, C18"),
    chk("C20",
        "Coq theorems over the Gallina model of SimpleFitsCollection._scan_hdus/_load and the option parsers (all "
        "collections, all none/scalar/list selections, command-line round-trip): scalars apply to every file, lists are "
        "positional for HDU and WCS key, the default is the first image HDU, descriptions/images/export agree in input order. "
        "Tie to /repo: load, SimpleFitsCollection, tile_fits, create_from_args and the real `view` / `tile-multi-tan` "
        "command lines on generated multi-extension FITS files, plus complete tile_fits runs checked on tile pixels. The "
        "pre-fix behaviour (hdul[self._hdu_index]) is kept as the `old` model variant with its refutation witness.",
        "Trusted: kernel, model, the HDU abstraction, astropy fits/wcs, recorder tilers. Data cubes, CompImageHDU, the "
        "PV1_5 hack and blankval are not modelled.",
        "machine-checked proof (Coq) + model/implementation correspondence by vm_compute", "DESIGN.md section 5, C20"),
    chk("C02",
        "Coq proof over a Gallina model of TileMerger.walk_callback / averaging_merger / cascade: for every tile size k>0, both "
        "vertical parities and all sparsity patterns the display-orientation parent pixel (i,j) is the average of the four "
        "display-orientation mosaic pixels (2i+a, 2j+b) with child (2x+cx, 2y+cy) in quadrant (cx,cy) (merge_pixel; "
        "merge_pixel_fixed for all contents incl. negative integers after fix a186b8b), float/integer averaging rules, existence "
        "rule, cascade by induction over ANY children-first order (cascade_spec, cascade_order_independent, cascade_defined). "
        "Tie to /repo: real cascade_images on 256x256 tiles (npy x 8 modes, png RGB/RGBA, fits float/int; start depth 1-3; "
        "sparse leaves; serial and real parallel=2; with an accept-populated TOAST filter), every pixel of every produced "
        "tile compared with the numpy expansion of the model's placement description, which is itself checked against the "
        "full Gallina cascade at k=1..4. Serial = parallel is composed inside Coq (Proofs/GlueCascade.v): for every schedule "
        "of the walk LTS reaching DReturned, the callbacks ordered by their End events are a valid children-first order and "
        "give the same store as the serial order (cascade_parallel_eq_serial, cascade_images_parallel_eq_serial), concurrent "
        "callbacks touch disjoint tiles and read only settled children (walk_par_no_interference, walk_par_reads_settled, "
        "replay_eq_cascade). Partial: jpg pixels (existence only).",
        "Float rounding outside the model (test data scaled so every mean is exact). Remaining modelling assumption of the "
        "composition: a callback acts as walk_callback on the files of its children and itself between its Start and End "
        "events (WalkPar.v carries no tile store).",
        "machine-checked proof (Coq) + model/implementation correspondence by vm_compute and per-pixel comparison", "DESIGN.md section 5, C02"),
    chk("C06",
        "Coq proof over a Gallina model of ToastSampler.visit_callback, PyramidIO write/update and the leaf visit, with the "
        "tile coordinate function as a parameter: display pixel (i,j) of file (d,x,y) = sampler at coords(d,x,y)(i,j) for "
        "both parities, file set = the level's tiles / accepted leaves, any leaf order gives the same store, two partial "
        "samplers merge, for every depth incl. 0 and every default/override format (sample_pixel_repaired; the pre-fix "
        "behaviours are kept as refutation witnesses sample_depth0_refuted, format_override_parity_refuted). Tie to /repo: "
        "real sample_layer / sample_layer_filtered / Builder.toast_base with samplers hashing the float bits of (lon, lat), "
        "depth 0-3, both coordinate systems, png/npy/fits, clobber and update, parallel=1 and real parallel=2, every pixel "
        "compared exactly; level-0 grid checked against depth-8 tile centres; real parallel runs with 2, 3 and 5 workers. "
        "Worker-count independence is composed inside Coq with C03 and C13 (Proofs/GlueSample.v: sample_parallel_eq_serial, "
        "sample_layer_parallel: every schedule of the leaf-visit LTS that returns hands out exactly the leaves, and every "
        "order of the handed-out callbacks gives the serial store). A history-independence probe compares the geometry API "
        "under interleaved use of both coordinate systems with fresh single-system processes. Builder.toast_base option plumbing is modelled too (Model/ToastBaseGlue.v: toast_base_system_rule, toast_base_passes_options_through) and compared over every option combination.",
        "Trusted: toast_tile_get_coords/create_single_tile as the expected coordinates (their geometry is C04/C05), the "
        "image decoders, C15 mask semantics, C03/C13 leaf delivery.",
        "machine-checked proof (Coq) + model/implementation correspondence by vm_compute and per-pixel comparison", "DESIGN.md section 5, C06"),
    chk("C07",
        "Coq proof over a rational-arithmetic Gallina model of the compiled bbox test (sorting network, span loop, shifting "
        "loops, overlap tests), _latlon_tile_filter incl. numpy aliasing, chunk bounds and chunk sampler, and the "
        "_image_bounds sampling positions: the sorting network sorts; bbox soundness (no false negative for any box width "
        "and origin) under the explicit half-turn hypothesis; purity for every tile a generator produces; chunk boxes tile "
        "the map edge to edge and mask exactly; the repaired refinement includes the coarse extreme and samples both window "
        "ends (pre-fix behaviour kept as refutation witnesses); box_filter_complete / filtered_eq_unfiltered with the tile "
        "geometry as an explicit parameter. Tie to /repo: ~5k-22k compiled-function decisions on exact rationals of doubles "
        "with a 1e-9 margin, purity/aliasing experiments, chunk grids end to end, _image_bounds positions, and end-to-end "
        "filtered = unfiltered sampling for boxes, TAN images and a pole probe. Not proved: that the continuous TAN "
        "footprint's extreme is attained at a sampled position (assumption, as in the code's comment). Several images into one "
        "TOAST pyramid (FitsTiler._tile_toast, Model/MultiToast.v): the cascade's filter is the union of the images' filters and "
        "leaves no holes above any image (union_filter_leaves_no_holes), one common depth covering every image's guess "
        "(multi_toast_common_depth); tied by recording the Builder calls of tile_fits on three images and replaying them on the "
        "model's script in Coq.",
        "Trusted: the compiled _libtoasty.so validated bit-for-bit against the transpiled .pyx on every run; astropy WCS; "
        "float rounding by margin.",
        "machine-checked proof (Coq) + model/implementation correspondence by vm_compute and per-pixel comparison", "DESIGN.md section 5, C07"),
    chk("C08",
        "Coq proof over the Gallina model of StudyTiling (constructor, compute_for_subimage, image_to_tile, "
        "count/generate_populated_positions) and tile_image with Python-slice semantics, fill_into_maskable_buffer and "
        "write/read_image, for ALL widths and heights >= 1: least power-of-two square >= 256, floor-centred offsets, the "
        "tuples' rectangles partition the image exactly (every pixel exactly once, inside image and tile, count = reported "
        "count, slots = image_to_tile, injective), per-pixel reassembly in display orientation for both tile parities and "
        "for sub-images. Tie to /repo: real StudyTiling on exhaustive small and random sizes to 2^40 and the real tile_image "
        "+ read-back on 17 lossless (format, mode) pairs, every pixel compared.",
        "Integer modes have no mask (undefined = 0). Sub-images of constructor-built tilings only.",
        "machine-checked proof (Coq) + model/implementation correspondence by vm_compute and per-pixel comparison", "DESIGN.md section 5, C08"),
    chk("C09",
        "Coq proof over the Gallina model of MultiTanProcessor (global pixelisation over Q with an explicit common-grid "
        "hypothesis, per-tuple placement for both input and tile parities, NaN-aware locked updates, clean_lockfiles): "
        "tiles, tile files and global WCS equal those of study-tiling the pasted mosaic, for every input order, storage "
        "parity, worker count and interleaving of atomic updates; no lock file survives. Tie to /repo: the real processor "
        "(serial and fork-parallel 2/3) on generated FITS collections (overlaps, NaN borders, asymmetric NaN patches) against "
        "the real study tiling of the pasted mosaic. Per-tile atomicity is no longer assumed: Proofs/GlueMultiTan.v instantiates "
        "C10's lock LTS per tile and proves multitan_parallel_eq_serial / multitan_parallel_atomic for every schedule of the "
        "product of per-tile lock protocols.",
        "Float inputs only. set_position_from_wcs trusted to be a function. Added by the product construction: updates of "
        "different tiles do not interact (separate tile and lock files). Parallel runs sample the OS scheduler.",
        "machine-checked proof (Coq) + model/implementation correspondence by vm_compute and per-pixel comparison", "DESIGN.md section 5, C09"),
    chk("C14",
        "Coq proof on top of the C02 model: for scalar FITS modes, every depth, sparse population and contents with NaN, the "
        "DATAMIN/DATAMAX cards of every present tile are the min/max over all finite leaf pixels beneath it (by induction "
        "over levels), a tile is absent iff there are none, and the root's pair is what Builder.cascade copies to the WTML. "
        "Tie to /repo: real FITS pyramids (leaves written by write_image, by update_image, or with arbitrary/missing cards), "
        "cascaded serially and in parallel, cards of every tile read with astropy; ImageSet and WTML attributes read back.",
        "Infinite pixel values outside the model. Order independence of the cards follows C02's structure and is not "
        "separately proved.",
        "machine-checked proof (Coq) + model/implementation correspondence by vm_compute and per-pixel comparison", "DESIGN.md section 5, C14"),
    chk("C15",
        "Coq proof over a Gallina model of pixel modes, Python slice normalisation (CPython's PySlice_AdjustIndices), "
        "fill/update/clear/is_completely_masked and a tile store with histories: all C15 clauses for all 8 modes, buffer "
        "sizes, slice pairs (incl. reversed rows), mask patterns and any sequence of writes/reads from any prior file state; "
        "round-trip table per (format, mode). Tie to /repo: real Image methods on random small arrays and real PyramidIO "
        "histories for npy/png/fits.",
        "'Completely masked' is the code's own predicate (never for RGB/integers; all channels NaN for F16x3). jpg content, "
        "non-lossless (format, mode) pairs and mismatched rectangles are outside the model.",
        "machine-checked proof (Coq) + model/implementation correspondence by vm_compute and per-pixel comparison", "DESIGN.md section 5, C15"),
    chk("C04",
        "Coq theorems at two layers. Term layer (exact, executable, generic in the point type, every depth/position, both "
        "systems): the four routes (full enumeration, filtered enumeration, create_single_tile, lookup descent with any score "
        "oracle) yield the same corner terms and diagonal flag (routes_agree), the vertex lattice with shared corners/edges "
        "between neighbours at equal and different depths modulo Mid commutativity, boundary gluing, the documented layout "
        "and equator diamond. Real layer (Coq reals): one HTM step for arbitrary positive midpoint scalings lifted by "
        "induction to: every direction lies in some depth-n tile, tile interiors are disjoint, children tile their parent "
        "exactly, nesting. Tie to /repo: toasty.toast.mid is replaced by a recorder and every corner produced by the four "
        "real routes is compared with the Coq model (explicit terms to depth 3, a 63-bit hash image beyond). Partial: 'areas "
        "sum to 4 pi' is not formalised (no spherical measure; its geometric content is the partition theorem); "
        "toast_tile_area and the libm-based _mid are validated numerically only.",
        "Real-layer theorems use the standard library's real-number axioms (ClassicalDedekindReals.sig_forall_dec, "
        "sig_not_dec, functional_extensionality_dep); term-layer theorems are closed. Uint63 primitives are kernel "
        "primitives. The .pyx is tied through harness/pyx2py.py and toast_terms.PyxModel (bit-identical to the .so).",
        "machine-checked proof (Coq: exact term layer + real-number layer) + model/implementation correspondence by vm_compute (recorded terms, hash image) + numeric validation tests", "DESIGN.md section 5, C04"),
    chk("C05",
        "Coq theorems: subsample k = centres of the tiles k levels deeper for every k, tile and pixel (row index -> y bits, "
        "column -> x bits; terms modulo Mid commutativity; equality in R^3), in particular pixel (i,j) of (n,x,y) is the "
        "centre of (n+8, 256x+j, 256y+i); every pixel centre lies inside its tile; the equatorward latitude bound "
        "(cap convexity). Partial: the poleward latitude bound is unproved (lat_range_partial) and is validated numerically, "
        "exhaustively to depth 3 (quick) / 5 (thorough). Tie to /repo: _subsample is read from the .pyx source by a "
        "fail-closed parser whose interpreter must agree with the Coq model on the hash image and with the .so bit-for-bit; "
        "toast_tile_get_coords compared with centres of create_single_tile tiles.",
        "Real-layer theorems use the standard library's real-number axioms. Float rounding outside the model.",
        "machine-checked proof (Coq: exact term layer + real-number layer) + model/implementation correspondence by vm_compute (recorded terms, hash image) + numeric validation tests", "DESIGN.md section 5, C05"),
    chk("C12",
        "Coq theorems: the descent's selection rule (first zero score, else first maximal), the lookup arrives at the tile of "
        "its position, nesting of the answers for increasing depth, level-1 choice per coordinate system (the pre-fix planetary "
        "choice is kept as refutation witness), and over exact reals: the four-half-space score is triangle-union containment, "
        "lookup_contains for every latitude in [-pi/2, pi/2], every real longitude, every depth and both systems, 2pi-"
        "periodicity. NOT decided by proof: the pixel-position clause (biquadratic lstsq fit within 2 px) has no executable "
        "Gallina model; a property-level numeric test on the implementation stands in (points >= 1 deg from the poles, four "
        "quadrants, both systems). Tie to /repo: scripted-score runs of the real toast_tile_for_point and level-1 choices "
        "compared in Coq; containment of the returned tile judged with a 1e-9 margin.",
        "Containment is proved for exact arithmetic; the float code may pick a neighbour on shared edges (allowed by the "
        "statement). Real-number axioms as C04.",
        "machine-checked proof (Coq: exact term layer + real-number layer) + model/implementation correspondence by vm_compute (recorded terms, hash image) + numeric validation tests", "DESIGN.md section 5, C12"),
    chk("C19",
        "The faithful LTS models of the current code refute the property; the refutation is proved in general, not only by "
        "witnesses. Walk (for every pyramid, every set of raising positions, every schedule): after a raising callback "
        "DReturned is unreachable for ever (walk_crash_never_returns), a crash is equivalent to some worker having exit status "
        "1 (walk_crash_visible), and only boundedly many non-polling steps remain, i.e. the dispatcher ends up polling for ever "
        "(walk_crash_eventually_only_polling). Producer/worker stages: crash_visible for every schedule, and kernel-evaluated "
        "witnesses for 'returns normally' and 'blocks in put()'. All nine (stage x outcome) findings are reproduced on the "
        "implementation on every run and listed in known_findings.json; any other outcome class or stage, a serial-mode "
        "swallow, or a producer-side error (failing image load / tile filter during dispatch) that does not reach the caller "
        "is reported as a violation. How a requested worker count reaches the stages is modelled too (Model/ParUtil.v, "
        "par_util.resolve_parallelism): a serial request is honoured in every environment (serial_request_is_honoured), "
        "compared with the real function under patched start method / SLURM_NPROCS / CPU count.",
        "Trusted: as C03/C01. The repair (liveness/exit-status checks at five call sites plus queue teardown on failure) was "
        "judged not small and safe; see DESIGN.md section 9.1.",
        "machine-checked proof of the refutation (Coq LTS invariants for arbitrary raising sets + witnesses) + fault-injection correspondence under a deterministic scheduler",
        "DESIGN.md section 5, C19"),
]

_PENDING = "check not built yet in this round (design in DESIGN.md section 5); will be claimed when its model, theorems and correspondence exist"
ALL = ["C%02d" % i for i in range(1, 21)]
NOT_APPLICABLE = [dict(property_id=p, reason=_PENDING) for p in ALL if p not in {c["property_id"] for c in CHECKS}]
NOTES = ("All checks: bin/check <id> --tier quick|thorough. Proof = Coq theorems in coq/theories/Properties/<id>.v "
         "(Print Assumptions recorded in the evidence); tie to /repo = harness/corr_<id>.py. See DESIGN.md.")
