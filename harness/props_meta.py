"""Per-property manifest entries."""

def chk(pid, text, note, technique, design_ref):
    return dict(property_id=pid,
                quick_cmd=f"bin/check {pid} --tier quick",
                thorough_cmd=f"bin/check {pid} --tier thorough",
                evidence_file=f"evidence/{pid}.json",
                replay_cmd_template="bin/check %s --replay {path}" % pid,
                engine="coq-proof+correspondence",
                level_claimed=dict(category="proof", text=text, design_ref=design_ref),
                level_note=note, technique=technique)

CHECKS = [
    chk("C13",
        "Coq theorems over the Gallina model of the position algebra, the three pyramid generators and the "
        "PyramidReductionIterator (for all depths, filters, apexes), tied to /repo by running the real generators, "
        "reducer, counters, serial walk and leaf visit against the model on exhaustive small and random pyramids.",
        "Trusted: Coq kernel + vm_compute, the hand-written model (Model/Quadtree.v, Model/Reducer.v), the harness; "
        "filters are modelled as pure predicates on positions.",
        "machine-checked proof (Coq) + model/implementation correspondence by vm_compute", "DESIGN.md section 5, C13"),
]

_PENDING = "check not built yet in this round (design in DESIGN.md section 5); will be claimed when its model, theorems and correspondence exist"
ALL = ["C%02d" % i for i in range(1, 21)]
NOT_APPLICABLE = [dict(property_id=p, reason=_PENDING) for p in ALL if p not in {c["property_id"] for c in CHECKS}]
NOTES = ("All checks: bin/check <id> --tier quick|thorough. Proof = Coq theorems in coq/theories/Properties/<id>.v "
         "(Print Assumptions recorded in the evidence); tie to /repo = harness/corr_<id>.py. See DESIGN.md.")
