"""Shared helper for the geometry family (C04, C05, C12): recording `mid`.

The TOAST code builds every point by iterating `mid` (toasty/_libtoasty.pyx) on
the vertices of the level-1 table.  Replacing `toasty.toast.mid` by a recording
function gives, for every corner the real code produces, the *term*
(`Base k | Mid a b`) it was built from -- with the argument order the code used --
next to the real float value.  Terms are kept as shared nested tuples and, for
deep positions where a term has 2^n nodes, as a hash: the same homomorphic image
(`hbase`, `hmid`) that Model/ToastTerm.v defines, so that the comparison is done
by the Coq-evaluated model on hashes (`Proofs.ToastTermP.hash_tile_at` ties the
hash algebra to the term algebra).
"""
import contextlib
import math
from decimal import Decimal, getcontext

import numpy as np

# ---- hash algebra: identical constants in Model/ToastTerm.v (arithmetic modulo 2^63)
MASK = (1 << 63) - 1
HASH_M = 1 << 63
HASH_A = 1315423911420697
HASH_B = 2654435761987643
HASH_C = 88172645463325252
HASH_K0 = 6364136223846793005


def hbase(k):
    return ((k + 1) * HASH_K0) & MASK


def hmid(a, b):
    return (a * HASH_A + b * HASH_B + HASH_C) & MASK


# digest of a sequence of tiles (order-sensitive); mirrored by `tiles_digest` in the Coq defs
DIG_K = 1099511628211


def tile_word(n, x, y, hs, inc):
    w = n
    for v in (x, y, hs[0], hs[1], hs[2], hs[3], 1 if inc else 0):
        w = (w * 1000003 + v) & MASK
    return w


def tiles_digest(rows):
    d = 7
    for (n, x, y, hs, inc) in rows:
        d = (d * DIG_K + tile_word(n, x, y, hs, inc)) & MASK
    return d


COQ_DIGEST_DEFS = r"""
Local Open Scope N_scope.
Definition imul := Uint63.mul.
Definition iadd := Uint63.add.
Definition ofN (n : N) : int := i63 (Z.of_N n).
Definition K1 : int := Eval vm_compute in i63 1000003.
Definition DK : int := Eval vm_compute in i63 1099511628211.
Definition tile_word (t : htile) : int :=
  let step w v := iadd (imul w K1) v in
  step (step (step (step (step (step (step (ofN (N.of_nat (pn (tpos t)))) (ofN (px (tpos t)))) (ofN (py (tpos t))))
     (c_ul t)) (c_ur t)) (c_lr t)) (c_ll t)) (if incr t then i63 1 else i63 0).
Definition tiles_digest (l : list htile) : int :=
  fold_left (fun d t => iadd (imul d DK) (tile_word t)) l (i63 7).
Definition cs_of (b : bool) : coordsys := if b then Planet else Astro.
Definition tbl (l : list pos) : htile -> bool := fun t => existsb (pos_eqb (tpos t)) l.
Definition ieq := Uint63.eqb.
"""


def g_i(v):
    return "(i63 %d)" % v


HALFPI = 0.5 * math.pi


class RP(tuple):
    """A (lon, lat) pair that remembers the term it was built from
    (attributes h = hash, term = nested tuple or None when too large, size)."""

    def __new__(cls, lon, lat, h, term, size):
        self = tuple.__new__(cls, (lon, lat))
        self.h, self.term, self.size = h, term, size
        return self


def classify_base(pt):
    """Level-1 vertex -> Base index k = 4*kind + q (see Model/ToastTerm.v)."""
    lon, lat = float(pt[0]), float(pt[1])
    ql = lat / HALFPI
    if abs(ql - round(ql)) > 1e-9 or round(ql) not in (-1, 0, 1):
        raise ValueError(f"not a level-1 vertex: {pt!r}")
    kind = {0: 0, 1: 1, -1: 2}[round(ql)]
    qq = lon / HALFPI
    if abs(qq - round(qq)) > 1e-9:
        raise ValueError(f"not a level-1 vertex: {pt!r}")
    return 4 * kind + (round(qq) % 4)


def info(pt):
    """(hash, term, size) of a point produced under recording (or a level-1 vertex)."""
    if isinstance(pt, RP):
        return pt.h, pt.term, pt.size
    k = classify_base(pt)
    return hbase(k), ("B", k), 1


MAX_TERM_SIZE = 5000   # beyond this only the hash is kept


class Recorder:
    def __init__(self, real_mid):
        self.real_mid = real_mid
        self.calls = 0

    def __call__(self, a, b):
        self.calls += 1
        lon, lat = self.real_mid(a, b)
        ha, ta, sa = info(a)
        hb, tb, sb = info(b)
        size = sa + sb + 1
        term = ("M", ta, tb) if (size <= MAX_TERM_SIZE and ta is not None and tb is not None) else None
        return RP(lon, lat, hmid(ha, hb), term, size)


@contextlib.contextmanager
def recording():
    """Patch toasty.toast.mid by a recording wrapper around the real compiled mid."""
    import toasty.toast as T
    from toasty._libtoasty import mid as real_mid
    rec = Recorder(real_mid)
    old = T.mid
    T.mid = rec
    try:
        yield rec
    finally:
        T.mid = old


def tile_row(tile):
    """(n, x, y, (h_ul, h_ur, h_lr, h_ll), increasing) of a Tile produced under recording."""
    hs = tuple(info(c)[0] for c in tile.corners)
    return (int(tile.pos.n), int(tile.pos.x), int(tile.pos.y), hs, bool(tile.increasing))


def tile_terms(tile):
    return tuple(info(c)[1] for c in tile.corners)


def tile_floats(tile):
    return tuple((float(c[0]), float(c[1])) for c in tile.corners)


def g_term(t):
    if t[0] == "B":
        return f"(Base {t[1]})"
    return f"(Mid {g_term(t[1])} {g_term(t[2])})"


def g_htile(row):
    n, x, y, hs, inc = row
    return "(mkT (mkPos %d %d %d) %s %s %s %s %s)" % (n, x, y, g_i(hs[0]), g_i(hs[1]), g_i(hs[2]), g_i(hs[3]), "true" if inc else "false")


def g_cs(cs):
    return "Planet" if is_planet(cs) else "Astro"


def is_planet(cs):
    return getattr(cs, "name", cs) in ("PLANETARY", "Planet", True, 1)


def coordsystems():
    from toasty.toast import ToastCoordinateSystem as C
    return [C.ASTRONOMICAL, C.PLANETARY]


# ---- Python mirror of Model/ToastTerm.v `subsample`, generic in `mid` (checked against the
# Coq-evaluated model on the hash algebra by corr_C05; then run with the real float mid).
def model_subsample(mid, k, ul, ur, lr, ll, inc, i, j):
    while True:
        if k == 0:
            return mid(ll, ur) if inc else mid(ul, lr)
        up = mid(ul, ur)
        le = mid(ul, ll)
        ri = mid(ur, lr)
        lo = mid(ll, lr)
        cen = mid(ll, ur) if inc else mid(ul, lr)
        k -= 1
        n2 = 1 << k
        if i < n2:
            if j < n2:
                ul, ur, lr, ll = ul, up, cen, le
            else:
                ul, ur, lr, ll, j = up, ur, ri, cen, j - n2
        else:
            if j < n2:
                ul, ur, lr, ll, i = le, cen, lo, ll, i - n2
            else:
                ul, ur, lr, ll, i, j = cen, ri, lr, lo, i - n2, j - n2


# ---- geometry helpers (numeric validations / property predicates; not the model)
def xyz(lon, lat):
    """toast.py:_equ_to_xyz convention: (cos lon cos lat, sin lat, sin lon cos lat)."""
    cl = math.cos(lat)
    return (math.cos(lon) * cl, math.sin(lat), math.sin(lon) * cl)


def centre_lonlat(tile):
    """(lon, lat) of the normalised sum of the four corner vectors of a tile: a point well inside it"""
    import math
    v = [0.0, 0.0, 0.0]
    for c in tile.corners:
        x = xyz(float(c[0]), float(c[1]))
        v = [a + b for a, b in zip(v, x)]
    n = math.sqrt(sum(a * a for a in v))
    v = [a / n for a in v]
    return (math.atan2(v[2], v[0]), math.asin(max(-1.0, min(1.0, v[1]))))


def chord(p, q):
    a, b = xyz(*p), xyz(*q)
    return math.sqrt(sum((u - v) ** 2 for u, v in zip(a, b)))


def det3(a, b, c):
    return (a[0] * (b[1] * c[2] - b[2] * c[1]) - a[1] * (b[0] * c[2] - b[2] * c[0])
            + a[2] * (b[0] * c[1] - b[1] * c[0]))


def contains_margin(corners, lonlat):
    """min over the four edges of det(edge_a, edge_b, p): >= 0 iff p is in the tile (the code's
    own half-space test, toast.py:234-244)."""
    p = xyz(*lonlat)
    c = [xyz(*q) for q in corners]
    return min(det3(c[i], c[(i + 1) % 4], p) for i in range(4))


# ---- 40-digit sin/cos for the `_mid` vs normalised-sum validation (no mpmath here)
getcontext().prec = 50
_PI = Decimal("3.14159265358979323846264338327950288419716939937510582097494")


def _dsin_small(x):
    term, s, n = x, x, 1
    while abs(term) > Decimal(10) ** -48:
        term = -term * x * x / ((2 * n) * (2 * n + 1))
        s += term
        n += 1
    return s


def _dcos_small(x):
    term, s, n = Decimal(1), Decimal(1), 1
    while abs(term) > Decimal(10) ** -48:
        term = -term * x * x / ((2 * n - 1) * (2 * n))
        s += term
        n += 1
    return s


def dsincos(xf):
    x = Decimal(xf)          # exact value of the float
    k = int((x / (_PI / 2)).to_integral_value())
    r = x - k * (_PI / 2)
    s, c = _dsin_small(r), _dcos_small(r)
    k %= 4
    return [(s, c), (c, -s), (-s, -c), (-c, s)][k]


def dxyz(lon, lat):
    sl, cl = dsincos(lon)
    sb, cb = dsincos(lat)
    return (cl * cb, sb, sl * cb)


def mid_error_hp(a, b, m):
    """chord distance between xyz(m) and normalize(xyz(a)+xyz(b)), in 50-digit decimals."""
    pa, pb, pm = dxyz(*a), dxyz(*b), dxyz(*m)
    s = [u + v for u, v in zip(pa, pb)]
    nrm = sum(u * u for u in s).sqrt()
    return float(sum((u / nrm - v) ** 2 for u, v in zip(s, pm)).sqrt())


# ======================================================================================
# Front end for toasty/_libtoasty.pyx (source semantics).
#
# The compiled extension cannot be rebuilt here (no Cython), so an edit to the .pyx would
# change nothing at run time.  `load_pyx` therefore reads the *current source text* of
# `_mid`, `mid`, `_subsample` and `subsample`, fail-closed: only the exact statement shapes
# used by these four functions are accepted, anything else raises PyxParseError (the tie is
# then reported as broken).  `_mid` becomes a Python function over IEEE doubles calling the
# same libm entry points through ctypes (bit-identical to the C on the unchanged tree, which
# the checks verify against the .so on every run); `_subsample` becomes a small description
# (mid statements, base case, four recursive calls with their quadrant slices) run by a
# generic interpreter -- over floats, or over the hash algebra to compare with the Coq model.
import ctypes
import ctypes.util
import os
import re


class PyxParseError(Exception):
    pass


_libm = ctypes.CDLL(ctypes.util.find_library("m") or "libm.so.6")
_LIBM = {}
for _name, _n in (("sin", 1), ("cos", 1), ("atan2", 2), ("hypot", 2)):
    _f = getattr(_libm, _name)
    _f.restype = ctypes.c_double
    _f.argtypes = [ctypes.c_double] * _n
    _LIBM[_name] = _f


def _function_block(src, header_re):
    m = re.search(header_re, src, re.M)
    if not m:
        raise PyxParseError(f"function not found: {header_re}")
    rest = src[m.end():]
    lines = []
    for line in rest.splitlines()[0:]:
        if line.strip() == "" or line.startswith((" ", "\t")):
            lines.append(line)
        else:
            break
    body = "\n".join(lines)
    body = re.sub(r'(?s)""".*?"""', "", body, count=1)      # docstring
    out = []
    for l in body.splitlines():
        l = l.split("#")[0].rstrip()
        if l.strip():
            out.append(l)
    return m, out


_EXPR_OK = re.compile(r"^[\w\s.+\-*/(),]*$")


def _parse_mid(src):
    m, lines = _function_block(src, r"^cdef void _mid\(Point (\w+), Point (\w+), Point \*(\w+)\):\s*$")
    a, b, cen = m.group(1), m.group(2), m.group(3)
    py = [f"def _mid_src({a}_x, {a}_y, {b}_x, {b}_y):"]
    locals_ = set()
    for l in lines:
        s = l.strip()
        if s.startswith("cdef "):
            mm = re.match(r"^cdef (DTYPE_t|Point) ([\w, ]+)$", s)
            if not mm:
                raise PyxParseError(f"_mid: unsupported declaration: {s}")
            continue
        mm = re.match(r"^([A-Za-z_]\w*(?:\.[xy])?)\s*=\s*(.+)$", s)
        if not mm or not _EXPR_OK.match(mm.group(2)):
            raise PyxParseError(f"_mid: unsupported statement: {s}")
        lhs, rhs = mm.group(1), mm.group(2)
        for name in re.findall(r"[A-Za-z_]\w*(?:\.[xy])?", rhs):
            base = name.split(".")[0]
            if name in _LIBM or name in locals_ or (base in (a, b) and "." in name):
                continue
            raise PyxParseError(f"_mid: unknown name {name} in: {s}")
        rhs = re.sub(rf"\b({a}|{b})\.([xy])\b", r"\1_\2", rhs)
        lhs = lhs.replace(".", "_")
        locals_.add(mm.group(1))
        py.append(f"    {lhs} = {rhs}")
    if f"{cen}.x" not in locals_ or f"{cen}.y" not in locals_:
        raise PyxParseError("_mid: result not assigned")
    py.append(f"    return {cen}_x, {cen}_y")
    ns = dict(_LIBM)
    exec("\n".join(py), ns)
    return ns["_mid_src"], "\n".join(py)


def _parse_mid_wrapper(src):
    _m, lines = _function_block(src, r"^def mid\(a, b\):\s*$")
    want = ["cdef Point l = Point(a[0], a[1]), m = Point(b[0], b[1]), n", "_mid(l, m, &n)", "return n.x, n.y"]
    if [l.strip() for l in lines] != want:
        raise PyxParseError(f"mid wrapper changed: {lines}")


def _parse_subsample(src):
    m, lines = _function_block(
        src, r"^cdef void _subsample\(Point ul, Point ur, Point lr, Point ll,\s*\n\s*DTYPE_t \[:, :\] x,\s*\n\s*DTYPE_t \[:, :\] y,\s*\n\s*int increasing\):\s*$")
    stmts, recs, base = [], [], None
    cond = None
    saw_n = saw_n2 = False
    i = 0
    while i < len(lines):
        raw = lines[i]
        ind = len(raw) - len(raw.lstrip())
        s = raw.strip()
        i += 1
        if ind == 4:
            cond = None
        if s.startswith("cdef Point "):
            continue
        if s == "cdef int n = x.shape[0]":
            saw_n = True
            continue
        if s == "cdef int n2 = n // 2":
            saw_n2 = True
            continue
        if s == "if increasing:" and ind == 4:
            cond = True
            continue
        if s == "else:" and ind == 4 and stmts and stmts[-1][1] is True:
            cond = False
            continue
        mm = re.match(r"^_mid\((\w+), (\w+), &(\w+)\)$", s)
        if mm:
            if (ind == 4) != (cond is None):
                raise PyxParseError(f"_subsample: unexpected indentation: {raw}")
            stmts.append(("mid", cond, mm.group(1), mm.group(2), mm.group(3)))
            continue
        if s == "if n == 1:" and ind == 4:
            blk = [lines[i + k].strip() for k in range(3)]
            mx = re.match(r"^x\[0\] = (\w+)\.x$", blk[0])
            my = re.match(r"^y\[0\] = (\w+)\.y$", blk[1])
            if not (mx and my and mx.group(1) == my.group(1) and blk[2] == "return"):
                raise PyxParseError(f"_subsample: unsupported base case: {blk}")
            base = mx.group(1)
            i += 3
            continue
        mm = re.match(r"^_subsample\((\w+), (\w+), (\w+), (\w+), x\[(:n2|n2:), (:n2|n2:)\], y\[(:n2|n2:), (:n2|n2:)\], increasing\)$", s)
        if mm and ind == 4:
            if (mm.group(5), mm.group(6)) != (mm.group(7), mm.group(8)):
                raise PyxParseError(f"_subsample: x and y slices differ: {s}")
            if base is None:
                raise PyxParseError("_subsample: recursion before the base case")
            recs.append((mm.group(1), mm.group(2), mm.group(3), mm.group(4),
                         0 if mm.group(5) == ":n2" else 1, 0 if mm.group(6) == ":n2" else 1))
            continue
        raise PyxParseError(f"_subsample: unsupported statement: {raw}")
    if not (saw_n and saw_n2 and base and recs):
        raise PyxParseError("_subsample: incomplete")
    return dict(stmts=stmts, base=base, recs=recs)


def _parse_subsample_wrapper(src):
    _m, lines = _function_block(src, r"^def subsample\(ul, ur, lr, ll, npix, increasing\):\s*$")
    body = [l.strip() for l in lines]
    need = ["x = np.zeros((npix, npix), dtype=DTYPE)", "y = np.zeros((npix, npix), dtype=DTYPE)",
            "_ul = Point(DTYPE(ul[0]), DTYPE(ul[1]))", "_ur = Point(DTYPE(ur[0]), DTYPE(ur[1]))",
            "_lr = Point(DTYPE(lr[0]), DTYPE(lr[1]))", "_ll = Point(DTYPE(ll[0]), DTYPE(ll[1]))",
            "_subsample(_ul, _ur, _lr, _ll, x, y, increasing)", "return x, y"]
    pos = -1
    for n in need:
        if n not in body or body.index(n) < pos:
            raise PyxParseError(f"subsample wrapper changed: missing/reordered {n!r}")
        pos = body.index(n)


class PyxModel:
    """Source semantics of _libtoasty.pyx's mid / subsample."""

    def __init__(self, repo):
        path = os.path.join(str(repo), "toasty", "_libtoasty.pyx")
        src = open(path).read()
        self._mid_src, self.mid_text = _parse_mid(src)
        _parse_mid_wrapper(src)
        self.desc = _parse_subsample(src)
        _parse_subsample_wrapper(src)

    def mid(self, a, b):
        return self._mid_src(float(a[0]), float(a[1]), float(b[0]), float(b[1]))

    def run_subsample(self, mid, ul, ur, lr, ll, n, inc, put, r0=0, c0=0):
        """Generic interpreter of the parsed _subsample over any point algebra."""
        env = dict(ul=ul, ur=ur, lr=lr, ll=ll)
        for (_k, cond, a, b, out) in self.desc["stmts"]:
            if cond is None or cond == bool(inc):
                env[out] = mid(env[a], env[b])
        if n == 1:
            put(r0, c0, env[self.desc["base"]])
            return
        n2 = n // 2
        for (a, b, c, d, rh, ch) in self.desc["recs"]:
            self.run_subsample(mid, env[a], env[b], env[c], env[d], n2, inc, put, r0 + rh * n2, c0 + ch * n2)

    def subsample(self, ul, ur, lr, ll, npix, increasing):
        """Float semantics of the source: same signature and result layout as the compiled subsample."""
        x = np.zeros((npix, npix))
        y = np.zeros((npix, npix))

        def put(r, c, p):
            x[r, c] = p[0]
            y[r, c] = p[1]
        f = self._mid_src
        self.run_subsample(lambda a, b: f(a[0], a[1], b[0], b[1]),
                           (float(ul[0]), float(ul[1])), (float(ur[0]), float(ur[1])),
                           (float(lr[0]), float(lr[1])), (float(ll[0]), float(ll[1])), npix, bool(increasing), put)
        return x, y

    def hash_grid_digest(self, k, hs, inc):
        """Row-major digest of the hash-algebra run; mirrored by `sub_digest` in Coq."""
        n = 1 << k
        grid = [[0] * n for _ in range(n)]

        def put(r, c, p):
            grid[r][c] = p
        self.run_subsample(hmid, hs[0], hs[1], hs[2], hs[3], n, inc, put)
        d = 7
        for row in grid:
            for v in row:
                d = (d * DIG_K + v) & MASK
        return d


COQ_SUB_DIGEST_DEFS = r"""
Fixpoint range_N (n : nat) : list N := match n with O => [] | S n' => range_N n' ++ [N.of_nat n'] end.
Definition sub_digest (k : nat) (ul ur lr ll : int) (inc : bool) : int :=
  let idx := range_N (Nat.pow 2 k) in
  fold_left (fun d i => fold_left (fun d j => iadd (imul d DK) (subsample hmid k ul ur lr ll inc i j)) idx d) idx (i63 7).
"""
