"""C15 correspondence: mask semantics (fill / update / clear / is_completely_masked /
make_maskable_buffer) and tile persistence (PyramidIO.write_image / read_image,
Image.save / ImageLoader.load_path).

Implementation side: the real toasty.image.Image methods on small random
arrays of all eight modes with random Python-slice indexers (None / negative /
out-of-range bounds, steps +-1, +-2, +-3, reversed rows, empty rectangles), and
real PyramidIO objects under common.workdir() driven through random operation
histories (masked / unmasked writes, reads with every default, explicit and
default formats, stale files).
Model side: Model/Mask.v evaluated by vm_compute; arrays travel as packed
integer lists (<= ~200 pixels per array).
Independently of the model, the property's own predicates are evaluated in
Python on what the implementation did.
"""
import os
import shutil
import warnings

import numpy as np

import common
from common import g_Z, g_bool, g_list, g_nat, g_opt, g_pos

TRUSTED = [
    "pixel packing/unpacking used to ship small arrays to Coq (corr_C15.pack / Gallina dec)",
    "numpy basic-slice indexing, np.putmask, np.maximum, ndarray.fill; PIL PNG/JPEG, numpy .npy and astropy FITS codecs",
    "float values are only moved by the anchored code: test values are multiples of 1/4 (exact in float16/32/64)",
]
ASSUMPTIONS = [
    "the four indexers are Python slices (non-zero step) selecting rectangles of equal size and the buffer comes from "
    "ImageMode.make_maskable_buffer of the source's mode, as image.py:1064-1079 documents (other inputs are outside the model)",
    "source and buffer arrays do not alias",
    "integer 'undefined = zero' clauses are stated for non-negative data, as the property says; negative integers follow np.maximum in the model",
    "'completely masked' is the code's own predicate: RGB and integer tiles are never removed; F16x3 needs every channel NaN",
    "one PyramidIO, one process: concurrent writers are the subject of C10",
    "writes use (format, mode) pairs the format can hold losslessly, or jpg with RGB/RGBA (existence only)",
]

MODES = ["RGB", "RGBA", "F32", "F64", "F16x3", "U8", "I16", "I32"]
FMTS = ["png", "jpg", "npy", "fits"]
MASKABLE = {"RGB": "RGBA"}
INT_MODES = ("U8", "I16", "I32")


def holds(fmt, mode):
    if fmt == "png":
        return mode in ("RGB", "RGBA")
    if fmt == "npy":
        return True
    if fmt == "fits":
        return mode != "F16x3"
    return False


def dtype_of(mode):
    return {"RGB": np.uint8, "RGBA": np.uint8, "F32": np.float32, "F64": np.float64, "F16x3": np.float16,
            "U8": np.uint8, "I16": np.int16, "I32": np.int32}[mode]


def chans(mode):
    return {"RGB": 3, "RGBA": 4, "F16x3": 3}.get(mode, 0)


# ------------------------------------------------------------------ packing

# +-inf are sample values like any other (the operations of C15 only copy values): they travel to
# the model as the otherwise unused extreme codes
_PF_INF = 999999
_PH_INF = 2047


def _pf(v):
    if np.isnan(v):
        return 1
    if np.isinf(v):
        return 2 * (_PF_INF if v > 0 else -_PF_INF)
    k = float(v) * 4
    assert k == int(k) and abs(k) < 10 ** 6, v
    return 2 * int(k)


def _ph(v):
    if np.isnan(v):
        return 0
    if np.isinf(v):
        return (_PH_INF if v > 0 else -_PH_INF) + 2048
    k = float(v) * 4
    assert k == int(k) and abs(k) < 2048, v
    return int(k) + 2048


def pack(mode, arr):
    """row-major list of one integer per pixel"""
    a = np.asarray(arr)
    h, w = a.shape[:2]
    out = []
    for r in range(h):
        for c in range(w):
            p = a[r, c]
            if mode == "RGB":
                out.append(int(p[0]) + 256 * int(p[1]) + 65536 * int(p[2]))
            elif mode == "RGBA":
                out.append(int(p[0]) + 256 * int(p[1]) + 65536 * int(p[2]) + 16777216 * int(p[3]))
            elif mode in ("F32", "F64"):
                out.append(_pf(p))
            elif mode == "F16x3":
                out.append(_ph(p[0]) + 4096 * _ph(p[1]) + 16777216 * _ph(p[2]))
            else:
                out.append(int(p))
    return out


def unpack(mode, h, w, data):
    c = chans(mode)
    a = np.zeros((h, w, c) if c else (h, w), dtype=dtype_of(mode))
    k = 0
    for r in range(h):
        for cc in range(w):
            z = data[k]
            k += 1
            if mode == "RGB":
                a[r, cc] = (z % 256, (z // 256) % 256, (z // 65536) % 256)
            elif mode == "RGBA":
                a[r, cc] = (z % 256, (z // 256) % 256, (z // 65536) % 256, z // 16777216)
            elif mode in ("F32", "F64"):
                a[r, cc] = np.nan if z == 1 else (np.inf if z // 2 == _PF_INF else -np.inf if z // 2 == -_PF_INF else (z // 2) / 4.0)
            elif mode == "F16x3":
                es = (z % 4096, (z // 4096) % 4096, z // 16777216)
                a[r, cc] = [np.nan if e == 0 else (np.inf if e - 2048 == _PH_INF else -np.inf if e - 2048 == -_PH_INF
                                                   else (e - 2048) / 4.0) for e in es]
            else:
                a[r, cc] = z
    return a


def mode_name(img):
    return img.mode.name


COQ_DEFS = r"""
Local Open Scope Z_scope.
Definition mode_of (k : nat) : mode :=
  match k with 0%nat => RGB | 1%nat => RGBA | 2%nat => F32 | 3%nat => F64 | 4%nat => F16x3
             | 5%nat => U8 | 6%nat => I16 | _ => I32 end.
Definition fmt_of (k : nat) : fmt := match k with 0%nat => Png | 1%nat => Jpg | 2%nat => Npy | _ => Fits end.
Definition dec_f (z : Z) : fv := if z =? 1 then None else Some (Qmake (z / 2) 4).
Definition dec_h (e : Z) : fv := if e =? 0 then None else Some (Qmake (e - 2048) 4).
Definition dec (m : mode) (z : Z) : pixel :=
  match m with
  | RGB => PxC3 (z mod 256) ((z / 256) mod 256) ((z / 65536) mod 256)
  | RGBA => PxC (z mod 256) ((z / 256) mod 256) ((z / 65536) mod 256) (z / 16777216)
  | F32 | F64 => PxF (dec_f z)
  | F16x3 => PxF3 (dec_h (z mod 4096)) (dec_h ((z / 4096) mod 4096)) (dec_h (z / 16777216))
  | _ => PxI z
  end.
Definition img_of (m : mode) (h w : Z) (d : list Z) : img :=
  mkImg h w m (fun r c => dec m (nth (Z.to_nat (r * w + c)) d 0)).

(* ---- fill / update ---- *)
Record rcase := mkR { r_fill : bool; r_mode : nat; r_sh : Z; r_sw : Z; r_src : list Z;
                      r_bh : Z; r_bw : Z; r_buf : list Z;
                      r_iy : slice; r_ix : slice; r_by : slice; r_bx : slice; r_obs : list Z }.
Definition chk_r (c : rcase) : nat :=
  let m := mode_of (r_mode c) in
  let src := img_of m (r_sh c) (r_sw c) (r_src c) in
  let buf := make_maskable_buffer m (r_bh c) (r_bw c) (ipx (img_of (maskable m) (r_bh c) (r_bw c) (r_buf c))) in
  (* update: the integer rule the code carries since fix a186b8b (upd_px_fixed), signed data included *)
  let res := if r_fill c then fill_into src buf (r_iy c) (r_ix c) (r_by c) (r_bx c)
             else update_into_fixed src buf (r_iy c) (r_ix c) (r_by c) (r_bx c) in
  let obs := img_of (maskable m) (r_bh c) (r_bw c) (r_obs c) in
  match res with
  | None => 1%nat
  | Some out => if img_eqb out obs then 0%nat else 2%nat
  end.

(* ---- slices ---- *)
Record scase := mkS { s_len : Z; s_sl : slice; s_obs : option (Z * Z * Z) }.
Definition chk_s (c : scase) : bool :=
  match slice_view (s_len c) (s_sl c), s_obs c with
  | None, None => true
  | Some v, Some (f, st, n) => Z.eqb (v_first v) f && Z.eqb (v_step v) st && Z.eqb (v_count v) n
  | _, _ => false
  end.

(* ---- clear / is_completely_masked / make_maskable_buffer ---- *)
Record mcase := mkM { m_mode : nat; m_h : Z; m_w : Z; m_data : list Z; m_masked : bool;
                      m_clear : list Z; m_bufmode : nat; m_bufclear : list Z; m_bufmasked : bool }.
Definition chk_m (c : mcase) : nat :=
  let m := mode_of (m_mode c) in
  let im := img_of m (m_h c) (m_w c) (m_data c) in
  let b := clear (make_maskable_buffer m (m_h c) (m_w c) (fun _ _ => PxI 77)) in
  if negb (Bool.eqb (is_completely_masked im) (m_masked c)) then 1%nat
  else if negb (img_eqb (clear im) (img_of m (m_h c) (m_w c) (m_clear c))) then 2%nat
  else if negb (mode_eqb (maskable m) (mode_of (m_bufmode c))) then 3%nat
  else if negb (img_eqb b (img_of (maskable m) (m_h c) (m_w c) (m_bufclear c))) then 4%nat
  else if negb (Bool.eqb (is_completely_masked b) (m_bufmasked c)) then 5%nat
  else 0%nat.

(* ---- histories ---- *)
Inductive hop := HW (p : pos) (i : nat) (f : option nat) | HR (p : pos) (d : nat) (mm : option nat) (f : option nat).
Inductive robs := ONone | OErr | OImg (m : nat) (h w : Z) (d : list Z) | OConst (m : nat) (h w : Z) (v : Z) | OLossy (h w : Z) | OBig.
Record hcase := mkH { h_dflt : nat; h_pool : list (nat * Z * Z * list Z);
                      h_init : list (pos * nat * nat); h_ops : list hop;
                      h_reads : list robs; h_final : list (pos * nat * robs) }.
Definition pool_img (pool : list (nat * Z * Z * list Z)) (i : nat) : img :=
  match nth i pool (0%nat, 0, 0, []) with (m, h, w, d) => img_of (mode_of m) h w d end.
Definition init_store (pool : list (nat * Z * Z * list Z)) (l : list (pos * nat * nat)) : store :=
  fun p f => match find (fun e => pos_eqb p (fst (fst e)) && fmt_eqb f (fmt_of (snd (fst e)))) l with
             | Some e => encode f (pool_img pool (snd e))
             | None => None end.
Definition rd_of (d : nat) : rdefault := match d with 0%nat => DNone | 1%nat => DMasked | _ => DOther end.
Definition op_of (pool : list (nat * Z * Z * list Z)) (o : hop) : op :=
  match o with
  | HW p i f => OWrite p (pool_img pool i) (option_map fmt_of f)
  | HR p d mm f => ORead p (rd_of d) (option_map mode_of mm) (option_map fmt_of f)
  end.
Definition same_res (r : rres) (o : robs) : bool :=
  match r, o with
  | RAbsent, ONone => true
  | RError, OErr => true
  | RLossy h w, OLossy h' w' => Z.eqb h h' && Z.eqb w w'
  | RImg im, OImg m h w d => img_eqb im (img_of (mode_of m) h w d)
  | RImg im, OConst m h w v =>
      Z.eqb (ih im) h && Z.eqb (iw im) w && mode_eqb (imode im) (mode_of m) &&
      forallb (fun rc => pixel_eqb (ipx im (fst rc) (snd rc)) (dec (mode_of m) v))
              [(0, 0); (h - 1, w - 1); (0, w - 1); (h - 1, 0); (100, 17); (17, 200)]
  | _, _ => false
  end.
Definition same_file (d : option fdata) (o : robs) : bool :=
  match d, o with
  | None, ONone => true
  | Some (FExact im), OImg m h w dd => img_eqb im (img_of (mode_of m) h w dd)
  | Some (FLossy h w), OLossy h' w' => Z.eqb h h' && Z.eqb w w'
  | _, _ => false
  end.
Fixpoint all2 {A B} (f : A -> B -> bool) (a : list A) (b : list B) : bool :=
  match a, b with [], [] => true | x :: a', y :: b' => f x y && all2 f a' b' | _, _ => false end.
Definition chk_h (c : hcase) : nat :=
  let pool := h_pool c in
  match run_ops (fmt_of (h_dflt c)) (init_store pool (h_init c)) (map (op_of pool) (h_ops c)) with
  | None => 1%nat
  | Some (st', rs) =>
      if negb (all2 same_res rs (h_reads c)) then 2%nat
      else if negb (forallb (fun e => same_file (st' (fst (fst e)) (fmt_of (snd (fst e)))) (snd e)) (h_final c)) then 3%nat
      else 0%nat
  end.
"""

IMPORTS = ["Model.Quadtree", "Model.Mask"]
COQ_HDR = "From Coq Require Import QArith.\n"


def g_slice(s):
    def o(v):
        return g_opt(None if v is None else g_Z(v))
    return f"(mkSlice {o(s[0])} {o(s[1])} {o(s[2])})"


def g_zlist(l):
    return "[" + ";".join(g_Z(x) for x in l) + "]"


# ------------------------------------------------------------------ generators

def rand_pixels(rng, mode, h, w, pattern, allow_neg=False):
    """random array with a mask pattern: which pixels are 'undefined'"""
    c = chans(mode)
    dt = dtype_of(mode)
    und = np.zeros((h, w), dtype=bool)
    if pattern == "all":
        und[:] = True
    elif pattern == "random":
        p = rng.choice((0.2, 0.5, 0.8))
        for r in range(h):
            for cc in range(w):
                und[r, cc] = rng.random() < p
    elif pattern == "block":
        r0, r1 = sorted((rng.randint(0, h), rng.randint(0, h)))
        c0, c1 = sorted((rng.randint(0, w), rng.randint(0, w)))
        und[r0:r1, c0:c1] = True
    elif pattern == "rows":
        for r in range(h):
            und[r, :] = rng.random() < 0.5
    a = np.zeros((h, w, c) if c else (h, w), dtype=dt)
    for r in range(h):
        for cc in range(w):
            u = und[r, cc]
            if mode == "RGB":
                a[r, cc] = [rng.randint(0, 255) for _ in range(3)]
            elif mode == "RGBA":
                a[r, cc] = [rng.randint(0, 255) for _ in range(3)] + [0 if u else rng.choice((1, 128, 255, rng.randint(1, 255)))]
            elif mode in ("F32", "F64"):
                a[r, cc] = np.nan if u else (rng.choice((np.inf, -np.inf)) if rng.random() < 0.06 else rng.randint(-200, 200) / 4.0)
            elif mode == "F16x3":
                v = [(rng.choice((np.inf, -np.inf)) if rng.random() < 0.04 else rng.randint(-200, 200) / 4.0) for _ in range(3)]
                if u:
                    k = rng.choice((1, 2, 3, 3, 3))      # partially or fully NaN
                    for j in rng.sample(range(3), k):
                        v[j] = np.nan
                a[r, cc] = v
            else:
                hi = {"U8": 255, "I16": 300, "I32": 70000}[mode]
                lo = -hi if (allow_neg and mode != "U8") else 1
                v = 0 if u else rng.randint(lo, hi)
                a[r, cc] = v
    return a


def slice_with_count(rng, length, n):
    """a random presentation of a slice selecting exactly n indices of an axis of
    the given length (n <= length)"""
    for _ in range(200):
        if n == 0:
            kind = rng.choice(("eq", "rev", "past"))
            if kind == "eq":
                a = rng.randint(-length - 2, length + 2)
                s = (a, a, rng.choice((None, 1, -1, 2)))
            elif kind == "rev":
                a, b = sorted((rng.randint(0, length), rng.randint(0, length)))
                s = (b, a, rng.choice((None, 1, 2))) if rng.random() < 0.5 else (a, b, rng.choice((-1, -2)))
            else:
                s = (length + rng.randint(0, 3), None, None)
        else:
            smax = max(1, (length - 1) // max(1, n - 1)) if n > 1 else 3
            st = rng.choice((1, 1, 1, 1, 2, 3))
            st = min(st, smax)
            span = (n - 1) * st
            first = rng.randint(0, length - 1 - span)
            if rng.random() < 0.4:
                # negative step: starts at the high end
                hi = first + span
                start, step = hi, -st
                stop = first - rng.randint(1, st)
            else:
                start, step = first, st
                stop = first + span + rng.randint(1, st)
            # random presentation of start
            r = rng.random()
            if step > 0:
                if start == 0 and r < 0.4:
                    pstart = None
                elif r < 0.6:
                    pstart = start - length
                else:
                    pstart = start
                if stop >= length:
                    pstop = rng.choice((None, stop, length + 7))
                else:
                    pstop = rng.choice((stop, stop - length))
            else:
                if start == length - 1 and r < 0.4:
                    pstart = rng.choice((None, length + 5))
                elif r < 0.6:
                    pstart = start - length
                else:
                    pstart = start
                if stop < 0:
                    pstop = rng.choice((None, -length - 1, -length - 4))
                else:
                    pstop = rng.choice((stop, stop - length))
            pstep = None if (step == 1 and rng.random() < 0.6) else step
            s = (pstart, pstop, pstep)
        if len(range(*slice(*s).indices(length))) == n:
            return s
    raise RuntimeError("slice_with_count failed")


def free_slice(rng, length):
    def b():
        r = rng.random()
        if r < 0.25:
            return None
        return rng.randint(-length - 3, length + 3)
    return (b(), b(), rng.choice((None, None, 1, -1, -1, 2, -2, 3)))


def gen_shape(rng, maxpix=200):
    while True:
        h, w = rng.randint(1, 40), rng.randint(1, 40)
        if h * w <= maxpix:
            return h, w


def gen_rect_case(rng, mode, fill):
    sh, sw = gen_shape(rng)
    bh, bw = gen_shape(rng)
    # buffer indexers: free-form or constructed; source indexers constructed to match
    if rng.random() < 0.5:
        by, bx = free_slice(rng, bh), free_slice(rng, bw)
        ny = len(range(*slice(*by).indices(bh)))
        nx = len(range(*slice(*bx).indices(bw)))
        if ny > sh or nx > sw or (rng.random() < 0.7 and (ny == 0 or nx == 0)):
            ny, nx = rng.randint(1, min(sh, bh)), rng.randint(1, min(sw, bw))
            by, bx = slice_with_count(rng, bh, ny), slice_with_count(rng, bw, nx)
    else:
        ny, nx = rng.randint(1, min(sh, bh)), rng.randint(1, min(sw, bw))
        if rng.random() < 0.04:
            ny = 0
        by, bx = slice_with_count(rng, bh, ny), slice_with_count(rng, bw, nx)
    if rng.random() < 0.3 and ny == sh:
        iy = rng.choice(((None, None, None), (None, None, -1)))
    else:
        iy = slice_with_count(rng, sh, ny)
    if rng.random() < 0.3 and nx == sw:
        ix = (None, None, None)
    else:
        ix = slice_with_count(rng, sw, nx)
    neg = rng.random() < 0.25
    src = rand_pixels(rng, mode, sh, sw, rng.choice(("none", "random", "random", "block", "rows", "all")), allow_neg=neg)
    buf = rand_pixels(rng, MASKABLE.get(mode, mode), bh, bw, rng.choice(("none", "random", "random", "block", "all")), allow_neg=neg)
    return dict(type="rect", warm=(rng.random() < 0.35), fill=fill, mode=mode, sh=sh, sw=sw, src=pack(mode, src), bh=bh, bw=bw,
                buf=pack(MASKABLE.get(mode, mode), buf), iy=list(iy), ix=list(ix), by=list(by), bx=list(bx))


def run_rect_case(case):
    """real Image methods; returns the buffer afterwards (array) or ('raise', msg)"""
    from toasty.image import Image, ImageMode
    mode = case["mode"]
    bm = MASKABLE.get(mode, mode)
    src = Image.from_array(unpack(mode, case["sh"], case["sw"], case["src"]))
    assert src.mode.name == mode
    buf = ImageMode[mode].make_maskable_buffer(case["bh"], case["bw"])
    if buf.mode.name != bm:
        return ("raise", f"buffer mode {buf.mode.name}")
    sl = [slice(*case[k]) for k in ("iy", "ix", "by", "bx")]
    if case.get("warm"):
        # the same buffer object has a history: an earlier fill with the very same indexers (and an
        # update), after which its content is overwritten wholesale; none of that may influence the
        # operation under test
        with warnings.catch_warnings():
            warnings.simplefilter("ignore")
            try:
                src.fill_into_maskable_buffer(buf, *sl)
                src.update_into_maskable_buffer(buf, *sl)
                src.fill_into_maskable_buffer(buf, *sl)
            except Exception:  # noqa
                pass
    buf.asarray()[...] = unpack(bm, case["bh"], case["bw"], case["buf"])
    try:
        with warnings.catch_warnings():
            warnings.simplefilter("ignore")
            if case["fill"]:
                src.fill_into_maskable_buffer(buf, *sl)
            else:
                src.update_into_maskable_buffer(buf, *sl)
    except Exception as e:  # noqa
        return ("raise", repr(e))
    return buf.asarray()


# ---- the property's own predicate for fill / update (independent of the model)

def px_undefined(mode, p):
    if mode == "RGBA":
        return int(p[3]) == 0
    if mode in ("F32", "F64"):
        return bool(np.isnan(p))
    if mode == "F16x3":
        return bool(np.any(np.isnan(p)))
    if mode in INT_MODES:
        return int(p) == 0
    return False


def px_equal(a, b):
    return np.array_equal(np.asarray(a), np.asarray(b), equal_nan=True)


def rect_property(case, out):
    """list of reasons the C15 statement fails on the observed result"""
    if isinstance(out, tuple):
        return ["raised: " + out[1]]
    mode = case["mode"]
    bm = MASKABLE.get(mode, mode)
    src = unpack(mode, case["sh"], case["sw"], case["src"])
    old = unpack(bm, case["bh"], case["bw"], case["buf"])
    ry = list(range(*slice(*case["by"]).indices(case["bh"])))
    rx = list(range(*slice(*case["bx"]).indices(case["bw"])))
    sy = list(range(*slice(*case["iy"]).indices(case["sh"])))
    sx = list(range(*slice(*case["ix"]).indices(case["sw"])))
    why = []
    addressed = {}
    for p, r in enumerate(ry):
        for q, c in enumerate(rx):
            addressed[(r, c)] = (sy[p], sx[q])
    for r in range(case["bh"]):
        for c in range(case["bw"]):
            o = out[r, c]
            if (r, c) not in addressed:
                if case["fill"]:
                    if not px_undefined(bm, o):
                        why.append(f"fill: pixel {(r, c)} outside the rectangle is defined")
                elif not px_equal(o, old[r, c]):
                    why.append(f"update: pixel {(r, c)} outside the rectangle changed")
                continue
            s = src[addressed[(r, c)]]
            sval = list(s) + [255] if mode == "RGB" else s
            if case["fill"]:
                if not px_equal(o, sval):
                    why.append(f"fill: pixel {(r, c)} != source {addressed[(r, c)]}")
                continue
            if mode in INT_MODES:
                # zero = undefined: the general clauses hold for every value, the
                # "larger value is kept" clause is stated for non-negative data
                if int(s) == 0:
                    if int(o) != int(old[r, c]):
                        why.append(f"update: integer pixel {(r, c)} changed although its source is undefined (0)")
                elif int(old[r, c]) == 0:
                    if int(o) != int(s):
                        why.append(f"update: undefined integer pixel {(r, c)} did not get the source value")
                elif int(s) >= 0 and int(old[r, c]) >= 0 and int(o) != max(int(s), int(old[r, c])):
                    why.append(f"update: integer pixel {(r, c)} is not the larger value")
                continue
            if px_undefined(mode, s):
                if not px_equal(o, old[r, c]):
                    why.append(f"update: pixel {(r, c)} changed although its source is undefined")
            else:
                if not px_equal(o, sval):
                    why.append(f"update: defined source did not replace pixel {(r, c)}")
            if len(why) > 5:
                return why
    return why


def index_array_cases(rng, V, n_per_mode):
    """fill through paired integer index arrays (as ChunkedPlateCarreeSampler does, samplers.py:865): element t of
    the arrays addresses buffer pixel (by[t], bx[t]) and source pixel (iy[t], ix[t]).  Judged by the statement
    itself (the model covers slice indexers).  Only fill: no caller updates through index arrays, the statement
    speaks of rectangle indexers, and update_into_maskable_buffer does not support them on the unchanged tree
    (it writes into the copy that fancy indexing returns) -- a first version of this check demanded that too and
    raised a false alarm."""
    from toasty.image import Image, ImageMode
    done = 0
    for mode in MODES:
        bm = MASKABLE.get(mode, mode)
        for k in range(n_per_mode):
            sh, sw = gen_shape(rng)
            bh, bw = gen_shape(rng)
            npts = rng.randint(1, min(bh * bw, 12))
            dest = rng.sample([(r, c) for r in range(bh) for c in range(bw)], npts)
            srcp = [(rng.randrange(sh), rng.randrange(sw)) for _ in range(npts)]
            src_a = rand_pixels(rng, mode, sh, sw, rng.choice(("none", "random", "block")))
            old = rand_pixels(rng, bm, bh, bw, rng.choice(("none", "random", "all")))
            fill = True
            src = Image.from_array(src_a.copy())
            buf = ImageMode[mode].make_maskable_buffer(bh, bw)
            buf.asarray()[...] = old
            iy, ix = np.array([p[0] for p in srcp]), np.array([p[1] for p in srcp])
            by, bx = np.array([p[0] for p in dest]), np.array([p[1] for p in dest])
            case = dict(type="index-arrays", mode=mode, fill=fill, sh=sh, sw=sw, bh=bh, bw=bw, src=pack(mode, src_a),
                        buf=pack(bm, old), dest=[list(p) for p in dest], srcp=[list(p) for p in srcp])
            try:
                with warnings.catch_warnings():
                    warnings.simplefilter("ignore")
                    (src.fill_into_maskable_buffer if fill else src.update_into_maskable_buffer)(buf, iy, ix, by, bx)
                out = np.array(buf.asarray())
            except Exception as e:  # noqa
                V.disagreement("C15 predicate: fill / update through paired index arrays", case, "completes", repr(e), True)
                continue
            done += 1
            why = []
            addressed = dict(zip(dest, srcp))
            for r in range(bh):
                for c in range(bw):
                    o = out[r, c]
                    if (r, c) not in addressed:
                        if fill and not px_undefined(bm, o):
                            why.append(f"fill: pixel {(r, c)} outside the addressed set is defined")
                        if not fill and not px_equal(o, old[r, c]):
                            why.append(f"update: pixel {(r, c)} outside the addressed set changed")
                        continue
                    sv = src_a[addressed[(r, c)]]
                    sval = list(sv) + [255] if mode == "RGB" else sv
                    if fill:
                        if not px_equal(o, sval):
                            why.append(f"fill: pixel {(r, c)} != source {addressed[(r, c)]}")
                    elif mode in INT_MODES:
                        if int(sv) == 0 and int(o) != int(old[r, c]):
                            why.append(f"update: integer pixel {(r, c)} changed although its source is undefined (0)")
                        elif int(sv) != 0 and int(old[r, c]) == 0 and int(o) != int(sv):
                            why.append(f"update: undefined integer pixel {(r, c)} did not get the source value")
                    elif px_undefined(mode, sv):
                        if not px_equal(o, old[r, c]):
                            why.append(f"update: pixel {(r, c)} changed although its source is undefined")
                    elif not px_equal(o, sval):
                        why.append(f"update: defined source did not replace pixel {(r, c)}")
            if why:
                V.disagreement("C15 predicate: fill / update through paired index arrays", case, "statement holds", why[:4], True)
                return done
    return done


def g_rect(case, obs):
    return ("(mkR %s %s %s %s %s %s %s %s %s %s %s %s %s)" % (
        g_bool(case["fill"]), g_nat(MODES.index(case["mode"])), g_Z(case["sh"]), g_Z(case["sw"]), g_zlist(case["src"]),
        g_Z(case["bh"]), g_Z(case["bw"]), g_zlist(case["buf"]),
        g_slice(case["iy"]), g_slice(case["ix"]), g_slice(case["by"]), g_slice(case["bx"]), g_zlist(obs)))


# ------------------------------------------------------------------ slices

def gen_slice_cases(rng, n):
    out = []
    for _ in range(n):
        length = rng.choice((0, 1, 2, 3, 5, 8, 13, 40, 256, 512))

        def b():
            r = rng.random()
            if r < 0.2:
                return None
            if r < 0.3:
                return rng.choice((-10 ** 6, 10 ** 6, -length, length, -length - 1, length - 1))
            return rng.randint(-length - 3, length + 3)
        step = rng.choice((None, 1, -1, 2, -2, 3, -3, 7, -7, 0)) if rng.random() < 0.9 else rng.randint(-5, 5)
        out.append(dict(type="slice", len=length, s=[b(), b(), step]))
    return out


def run_slice_case(case):
    length, s = case["len"], case["s"]
    try:
        rg = range(*slice(*s).indices(length))
    except ValueError:
        return None
    a = np.arange(length)[slice(*s)]
    assert list(a) == list(rg), (case, list(a), list(rg))       # numpy basic slicing == slice.indices
    return (rg.start, rg.step, len(rg))


def g_scase(case, obs):
    o = "None" if obs is None else f"(Some ({g_Z(obs[0])}, {g_Z(obs[1])}, {g_Z(obs[2])}))"
    return f"(mkS {g_Z(case['len'])} {g_slice(case['s'])} {o})"


# ------------------------------------------------------------------ clear / masked

def gen_mask_case(rng, mode):
    h, w = gen_shape(rng, 60)
    pat = rng.choice(("all", "all", "none", "random", "block"))
    a = rand_pixels(rng, mode, h, w, pat, allow_neg=True)
    if pat == "all" and rng.random() < 0.5 and mode not in ("RGB",):
        # all undefined but one pixel
        r, c = rng.randrange(h), rng.randrange(w)
        one = rand_pixels(rng, mode, 1, 1, "none")
        a[r, c] = one[0, 0]
    if mode == "F16x3" and pat == "all" and rng.random() < 0.5:
        a[...] = np.nan                                     # really all NaN
    return dict(type="mask", mode=mode, h=h, w=w, data=pack(mode, a))


def run_mask_case(case):
    from toasty.image import Image, ImageMode
    mode = case["mode"]
    arr = unpack(mode, case["h"], case["w"], case["data"])
    im = Image.from_array(arr.copy())
    with warnings.catch_warnings():
        warnings.simplefilter("ignore")
        masked = bool(im.is_completely_masked())
        im.clear()
        cleared = im.asarray().copy()
        buf = ImageMode[mode].make_maskable_buffer(case["h"], case["w"])
        bufmode = buf.mode.name
        buf.asarray()[...] = 77 if buf.asarray().dtype.kind != "f" else 7.25
        buf.clear()
        bufclear = buf.asarray().copy()
        bufmasked = bool(buf.is_completely_masked())
    return dict(masked=masked, clear=pack(mode, cleared), bufmode=bufmode, bufclear=pack(bufmode, bufclear),
                bufmasked=bufmasked, bufshape=list(bufclear.shape[:2]))


def mask_property(case, obs):
    mode = case["mode"]
    arr = unpack(mode, case["h"], case["w"], case["data"])
    why = []
    if mode in ("RGBA", "F32", "F64"):
        want = all(px_undefined(mode, arr[r, c]) for r in range(case["h"]) for c in range(case["w"]))
        if want != obs["masked"]:
            why.append("is_completely_masked != (every pixel undefined)")
    elif mode == "F16x3":
        if bool(np.all(np.isnan(arr))) and not obs["masked"]:
            why.append("all-NaN F16x3 image not reported masked")
        if not all(px_undefined(mode, arr[r, c]) for r in range(case["h"]) for c in range(case["w"])) and obs["masked"]:
            why.append("F16x3 image with a defined pixel reported masked")
    bm = obs["bufmode"]
    bc = unpack(bm, case["h"], case["w"], obs["bufclear"])
    if bm in ("RGBA", "F32", "F64", "F16x3") + INT_MODES:
        if not all(px_undefined(bm, bc[r, c]) for r in range(case["h"]) for c in range(case["w"])):
            why.append("cleared maskable buffer has a defined pixel")
    else:
        why.append("maskable buffer cannot represent undefined pixels: " + bm)
    if obs["bufshape"] != [case["h"], case["w"]]:
        why.append("maskable buffer has the wrong shape")
    return why


def g_mcase(case, obs):
    return "(mkM %s %s %s %s %s %s %s %s %s)" % (
        g_nat(MODES.index(case["mode"])), g_Z(case["h"]), g_Z(case["w"]), g_zlist(case["data"]),
        g_bool(obs["masked"]), g_zlist(obs["clear"]), g_nat(MODES.index(obs["bufmode"])),
        g_zlist(obs["bufclear"]), g_bool(obs["bufmasked"]))


# ------------------------------------------------------------------ histories

def gen_history(rng, dflt, mode):
    """random operation history on one PyramidIO with default format `dflt`;
    images of `mode` (jpg: RGB/RGBA)."""
    positions = [(1, 0, 0), (1, 1, 0), (2, 3, 1)]
    fmts_ok = [f for f in FMTS if holds(f, mode) or (f == "jpg" and mode in ("RGB", "RGBA"))]
    pool = []
    for pat in ("none", "all", "random", "all", "block"):
        h, w = rng.randint(1, 4), rng.randint(1, 4)
        a = rand_pixels(rng, mode, h, w, pat, allow_neg=True)
        if mode == "F16x3" and pat == "all" and rng.random() < 0.6:
            a[...] = np.nan
        pool.append(dict(mode=mode, h=h, w=w, data=pack(mode, a)))
    init = []
    for p in positions:
        for f in fmts_ok:
            if rng.random() < 0.35:
                init.append([list(p), f, rng.choice((0, 2, 4))])
    ops = []
    for _ in range(rng.randint(6, 14)):
        p = list(rng.choice(positions))
        f = rng.choice((None, None, None, rng.choice(fmts_ok)))
        if rng.random() < 0.5:
            ops.append(["W", p, rng.randrange(len(pool)), f])
        else:
            d = rng.choice(("none", "none", "masked", "masked", "bogus"))
            mm = rng.choice((None, mode, rng.choice(MODES))) if d != "masked" else rng.choice((None, mode, mode, rng.choice(MODES)))
            ops.append(["R", p, d, mm, f])
    return dict(type="hist", dflt=dflt, mode=mode, pool=pool, init=init, ops=ops)


def obs_of_image(img):
    """compact description of an Image returned by read_image"""
    mode = img.mode.name
    a = img.asarray()
    h, w = a.shape[:2]
    if h * w > 400:
        flat = a.reshape(h * w, -1)
        first = flat[0]
        const = all(px_equal(first, flat[i]) for i in range(0, h * w, 97)) and bool(
            np.all((flat == first) | (np.isnan(flat.astype(float)) & np.isnan(first.astype(float)))))
        if const:
            return ["const", mode, h, w, pack(mode, a[:1, :1])[0]]
        return ["big", mode, h, w]
    return ["img", mode, h, w, pack(mode, a)]


def decode_file_independently(path, fmt):
    """read a tile file without toasty"""
    if fmt == "npy":
        a = np.load(path)
    elif fmt == "fits":
        from astropy.io import fits
        with fits.open(path) as hdul:
            a = np.array(hdul[0].data)
    else:
        from PIL import Image as PI
        with PI.open(path) as im:
            im.load()
            a = np.asarray(im)
    return a


def array_mode(a):
    from toasty.image import ImageMode
    return ImageMode.from_array_info(a.shape, a.dtype).name


def run_history(case, base):
    from toasty.image import Image, ImageMode
    from toasty.pyramid import PyramidIO, Pos
    shutil.rmtree(base, ignore_errors=True)
    pio = PyramidIO(base, default_format=case["dflt"])
    imgs = [unpack(e["mode"], e["h"], e["w"], e["data"]) for e in case["pool"]]
    with warnings.catch_warnings():
        warnings.simplefilter("ignore")
        for p, f, i in case["init"]:
            path = pio.tile_path(Pos(*p), format=f)
            Image.from_array(imgs[i].copy()).save(path, format=f)
        reads = []
        write_errors = []
        keys = set((tuple(p), f) for p, f, _ in case["init"])
        for o in case["ops"]:
            if o[0] == "W":
                _, p, i, f = o
                keys.add((tuple(p), f or case["dflt"]))
                try:
                    pio.write_image(Pos(*p), Image.from_array(imgs[i].copy()), format=f)
                except Exception as e:  # noqa: every generated write is one the format can hold
                    write_errors.append([len(reads), list(p), f or case["dflt"], repr(e)[:160]])
            else:
                _, p, d, mm, f = o
                keys.add((tuple(p), f or case["dflt"]))
                try:
                    r = pio.read_image(Pos(*p), default=d, masked_mode=None if mm is None else ImageMode[mm], format=f)
                except ValueError as e:
                    reads.append(["err"])
                    continue
                if r is None:
                    reads.append(["none"])
                elif (f or case["dflt"]) == "jpg":
                    a = r.asarray()
                    if r.mode.name == "RGB" and a.shape[0] * a.shape[1] <= 400:
                        reads.append(["lossy", a.shape[0], a.shape[1]])
                    else:
                        reads.append(obs_of_image(r))
                else:
                    reads.append(obs_of_image(r))
        final = []
        for (p, f) in sorted(keys):
            path = pio.tile_path(Pos(*p), format=f, makedirs=False)
            if not os.path.exists(path):
                final.append([list(p), f, ["none"]])
                continue
            a = decode_file_independently(path, f)
            if f == "jpg":
                final.append([list(p), f, ["lossy", a.shape[0], a.shape[1]]])
            else:
                m = array_mode(a)
                final.append([list(p), f, ["img", m, a.shape[0], a.shape[1], pack(m, a)]])
    shutil.rmtree(base, ignore_errors=True)
    return dict(reads=reads, final=final, write_errors=write_errors)


def tile_all_undefined(entry):
    """the statement's 'all pixels undefined' for a pool entry; None when the
    statement does not say (F16x3 tiles whose pixels are only partially NaN)"""
    mode = entry["mode"]
    if mode == "RGB" or mode in INT_MODES:
        return False
    a = unpack(mode, entry["h"], entry["w"], entry["data"])
    if mode == "F16x3":
        if bool(np.all(np.isnan(a))):
            return True
        if all(px_undefined(mode, a[r, c]) for r in range(entry["h"]) for c in range(entry["w"])):
            return None
        return False
    return all(px_undefined(mode, a[r, c]) for r in range(entry["h"]) for c in range(entry["w"]))


def history_property(case, obs):
    """the persistence clauses of C15, straight from the statement"""
    state = {}
    for p, f, i in case["init"]:
        state[(tuple(p), f)] = i
    why = []
    for we in obs.get("write_errors", []):
        why.append(f"write_image of tile {tuple(we[1])} ({we[2]}) raised {we[3]} (whatever the earlier state of the file, the tile must be stored)")
    unknown = False
    k = 0
    for o in case["ops"]:
        if o[0] == "W":
            _, p, i, f = o
            key = (tuple(p), f or case["dflt"])
            u = tile_all_undefined(case["pool"][i])
            if u is None:
                unknown = True
                state[key] = ("?", i)
            elif u:
                state.pop(key, None)
            else:
                state[key] = i
        else:
            _, p, d, mm, f = o
            key = (tuple(p), f or case["dflt"])
            r = obs["reads"][k]
            k += 1
            cur = state.get(key)
            if isinstance(cur, tuple):
                continue
            if cur is None:
                if d == "none" and r != ["none"]:
                    why.append(f"missing tile {key} did not read as absent: {r[:4]}")
                if d == "masked" and mm is not None:
                    bm = MASKABLE.get(mm, mm)
                    if r[0] != "const" or r[1] != bm or r[2:4] != [256, 256]:
                        why.append(f"missing tile {key} did not read as an all-undefined tile: {r[:4]}")
                    else:
                        v = unpack(bm, 1, 1, [r[4]])[0, 0]
                        if not px_undefined(bm, v):
                            why.append(f"default tile for {key} is defined")
            else:
                e = case["pool"][cur]
                if key[1] == "jpg":
                    if r[0] != "lossy" or r[1:3] != [e["h"], e["w"]]:
                        why.append(f"jpg tile {key} unreadable: {r[:4]}")
                elif r != ["img", e["mode"], e["h"], e["w"], e["data"]]:
                    why.append(f"tile {key} did not read back identically")
    for p, f, fo in obs["final"]:
        cur = state.get((tuple(p), f))
        if isinstance(cur, tuple):
            continue
        if cur is None:
            if fo != ["none"]:
                why.append(f"file {(tuple(p), f)} exists although the last write was all-undefined / nothing was written")
        else:
            e = case["pool"][cur]
            if f == "jpg":
                if fo[0] != "lossy":
                    why.append(f"jpg file {(tuple(p), f)} missing")
            elif fo != ["img", e["mode"], e["h"], e["w"], e["data"]]:
                why.append(f"file {(tuple(p), f)} does not hold the last write")
    return why, unknown


def g_robs(o):
    if o[0] == "none":
        return "ONone"
    if o[0] == "err":
        return "OErr"
    if o[0] == "lossy":
        return f"(OLossy {g_Z(o[1])} {g_Z(o[2])})"
    if o[0] == "const":
        return f"(OConst {g_nat(MODES.index(o[1]))} {g_Z(o[2])} {g_Z(o[3])} {g_Z(o[4])})"
    if o[0] == "img":
        return f"(OImg {g_nat(MODES.index(o[1]))} {g_Z(o[2])} {g_Z(o[3])} {g_zlist(o[4])})"
    # 'big': a large non-constant image, something the model never returns
    return "OBig"


def g_hcase(case, obs):
    def fo(f):
        return g_opt(None if f is None else g_nat(FMTS.index(f)))
    pool = g_list([f"({g_nat(MODES.index(e['mode']))}, {g_Z(e['h'])}, {g_Z(e['w'])}, {g_zlist(e['data'])})" for e in case["pool"]])
    init = g_list([f"({g_pos(p)}, {g_nat(FMTS.index(f))}, {g_nat(i)})" for p, f, i in case["init"]])
    ops = []
    for o in case["ops"]:
        if o[0] == "W":
            ops.append(f"(HW {g_pos(o[1])} {g_nat(o[2])} {fo(o[3])})")
        else:
            d = {"none": 0, "masked": 1}.get(o[2], 2)
            mm = g_opt(None if o[3] is None else g_nat(MODES.index(o[3])))
            ops.append(f"(HR {g_pos(o[1])} {g_nat(d)} {mm} {fo(o[4])})")
    reads = g_list([g_robs(r) for r in obs["reads"]])
    final = g_list([f"({g_pos(p)}, {g_nat(FMTS.index(f))}, {g_robs(fo_)})" for p, f, fo_ in obs["final"]])
    return f"(mkH {g_nat(FMTS.index(case['dflt']))} {pool} {init} {g_list(ops)} {reads} {final})"


# ------------------------------------------------------------------ round-trip table

def roundtrip_table_check(rng, V, base):
    """every (format, mode): does save + load give identical pixels and mode?
    compared with Mask.holds (theorem roundtrip_table)."""
    from toasty.image import Image
    from toasty.pyramid import PyramidIO, Pos
    n = 0
    table = {}
    for f in FMTS:
        for mode in MODES:
            ok_all = True
            for trial in range(3):
                h, w = rng.randint(1, 6), rng.randint(1, 6)
                a = rand_pixels(rng, mode, h, w, "random", allow_neg=True)
                if mode in ("RGBA", "F32", "F64", "F16x3"):
                    a[rng.randrange(h), rng.randrange(w)] = rand_pixels(rng, mode, 1, 1, "none")[0, 0]
                d = os.path.join(base, f"rt_{f}_{mode}_{trial}")
                pio = PyramidIO(d, default_format=f)
                n += 1
                try:
                    with warnings.catch_warnings():
                        warnings.simplefilter("ignore")
                        import contextlib, io
                        with contextlib.redirect_stdout(io.StringIO()):
                            pio.write_image(Pos(0, 0, 0), Image.from_array(a.copy()))
                            r = pio.read_image(Pos(0, 0, 0))
                    same = (r is not None and r.mode.name == mode and r.asarray().shape == a.shape
                            and np.array_equal(r.asarray(), a, equal_nan=(a.dtype.kind == "f")))
                except Exception:
                    same = False
                ok_all = ok_all and same
                shutil.rmtree(d, ignore_errors=True)
            table[(f, mode)] = ok_all
            if ok_all != holds(f, mode):
                V.disagreement("Mask.holds ~ Image.save/ImageLoader.load_path (theorem roundtrip_table)",
                               dict(type="table", format=f, mode=mode), holds(f, mode), ok_all,
                               True if holds(f, mode) else None)
    return n, table


# ------------------------------------------------------------------ run

def masked_default_aliasing(V, base):
    """Two missing tiles read with default='masked' are two independent all-undefined tiles:
    filling the first and then asking for the second must not disturb the first."""
    import numpy as np
    from toasty.image import ImageMode
    from toasty.pyramid import PyramidIO, Pos
    n = 0
    for mode in MODES:
        pio = PyramidIO(os.path.join(base, "alias_" + mode), default_format="npy")
        m = ImageMode[mode]
        a = pio.read_image(Pos(2, 0, 1), default="masked", masked_mode=m)
        arr = a.asarray()
        arr[3:9, 5:11] = 1 if arr.dtype.kind in "iu" else 1.5
        keep = arr.copy()
        b = pio.read_image(Pos(2, 3, 3), default="masked", masked_mode=m)
        n += 1
        same = np.array_equal(a.asarray(), keep, equal_nan=True) if keep.dtype.kind == "f" else np.array_equal(a.asarray(), keep)
        if not same or np.shares_memory(a.asarray(), b.asarray()):
            V.disagreement("C15: a missing tile reads back as an all-undefined tile of its own (read_image default='masked')",
                           dict(type="masked-default-aliasing", mode=mode),
                           "the first tile keeps its pixels when a second missing tile is read",
                           "the first tile was cleared / shares memory with the second", True)
    return n


def run(ctx, V):
    rng = common.rng_for(ctx["seed"], "C15")
    tier = ctx["tier"]
    quick = tier == "quick"
    base = str(common.workdir() / "c15")
    os.makedirs(base, exist_ok=True)

    rect_cases, slice_cases, mask_cases, hist_cases = [], [], [], []
    rp = ctx.get("replay")
    if rp and isinstance(rp.get("case"), dict):
        c = rp["case"]
        {"rect": rect_cases, "slice": slice_cases, "mask": mask_cases, "hist": hist_cases}.get(c.get("type"), []).append(c)

    n_rect = 130 if quick else 900          # per mode
    for mode in MODES:
        for i in range(n_rect):
            rect_cases.append(gen_rect_case(rng, mode, fill=(i % 3 == 0)))
    slice_cases += gen_slice_cases(rng, 1500 if quick else 12000)
    for mode in MODES:
        for _ in range(25 if quick else 150):
            mask_cases.append(gen_mask_case(rng, mode))
    pairs = [(f, m) for f in FMTS for m in MODES if holds(f, m) or (f == "jpg" and m in ("RGB", "RGBA"))]
    for (f, m) in pairs:
        for _ in range(8 if quick else 60):
            hist_cases.append(gen_history(rng, f, m))

    defs = COQ_HDR + COQ_DEFS
    hist = {}

    # ---- fill / update
    rect_obs = [run_rect_case(c) for c in rect_cases]
    n_index_arrays = index_array_cases(rng, V, 12 if quick else 120)
    terms = []
    idx = []
    nontrivial = set()
    for i, (c, o) in enumerate(zip(rect_cases, rect_obs)):
        why = rect_property(c, o)
        key = f"{'fill' if c['fill'] else 'update'}/{c['mode']}"
        hist[key] = hist.get(key, 0) + 1
        rev = any((c[k][2] or 1) < 0 for k in ("iy", "by"))
        hist["reversed_rows"] = hist.get("reversed_rows", 0) + int(rev)
        if isinstance(o, tuple):
            V.disagreement("fill_into/update_into defined ~ Image method returns", c, "no exception", o[1], True)
            continue
        if why:
            V.disagreement("C15 fill/update predicate on implementation", c, "statement holds", why[:4], True)
        ny = len(range(*slice(*c["by"]).indices(c["bh"])))
        nx = len(range(*slice(*c["bx"]).indices(c["bw"])))
        if ny * nx > 0 and ny * nx < c["bh"] * c["bw"]:
            nontrivial.add((c["fill"], c["mode"], c["sh"], c["sw"], c["bh"], c["bw"], tuple(map(tuple, (c["iy"], c["ix"], c["by"], c["bx"]))),
                            hash(tuple(c["src"])) & 0xffff))
        terms.append(g_rect(c, pack(MASKABLE.get(c["mode"], c["mode"]), o)))
        idx.append(i)
    bad = common.coq_eval_sharded(defs, terms, "chk_r", IMPORTS, shard=130, jobs=12, name="c15r")
    for j, code in bad.items():
        c = rect_cases[idx[j]]
        why = rect_property(c, rect_obs[idx[j]])
        rel = {1: "Mask.rects (indexers resolve / sizes agree)", 2: ("Mask.fill_into" if c["fill"] else "Mask.update_into") + " ~ image.py pixels"}[code]
        V.disagreement(rel + " (theorems fill_spec / update_*)", c, "model buffer", dict(observed=pack(MASKABLE.get(c["mode"], c["mode"]), rect_obs[idx[j]])[:40]), bool(why))

    # ---- slices
    s_obs = [run_slice_case(c) for c in slice_cases]
    bad = common.coq_eval_sharded(defs, [g_scase(c, o) for c, o in zip(slice_cases, s_obs)], "chk_s", IMPORTS,
                                  shard=1500, jobs=8, name="c15s")
    for j in bad:
        V.disagreement("Mask.slice_view ~ slice.indices / numpy basic slicing", slice_cases[j], "model view", s_obs[j], None)

    # ---- clear / masked / maskable buffer
    m_obs = [run_mask_case(c) for c in mask_cases]
    for c, o in zip(mask_cases, m_obs):
        why = mask_property(c, o)
        if why:
            V.disagreement("C15 clear/is_completely_masked predicate on implementation", c, "statement holds", why, True)
    bad = common.coq_eval_sharded(defs, [g_mcase(c, o) for c, o in zip(mask_cases, m_obs)], "chk_m", IMPORTS,
                                  shard=300, jobs=8, name="c15m")
    for j, code in bad.items():
        rel = {1: "Mask.is_completely_masked", 2: "Mask.clear", 3: "Mask.maskable (make_maskable_buffer mode)",
               4: "Mask.clear on a maskable buffer", 5: "Mask.is_completely_masked on a cleared buffer"}[code]
        V.disagreement(rel + " ~ image.py", mask_cases[j], "model value", {k: (v if not isinstance(v, list) else v[:20]) for k, v in m_obs[j].items()},
                       bool(mask_property(mask_cases[j], m_obs[j])))

    # ---- histories
    h_obs = []
    h_nontrivial = set()
    n_ops = 0
    for k, c in enumerate(hist_cases):
        o = run_history(c, os.path.join(base, f"h{k}"))
        h_obs.append(o)
        why, unknown = history_property(c, o)
        n_ops += len(c["ops"])
        hk = f"history/{c['dflt']}/{c['mode']}"
        hist[hk] = hist.get(hk, 0) + 1
        masked_writes = sum(1 for op in c["ops"] if op[0] == "W" and tile_all_undefined(c["pool"][op[2]]))
        if masked_writes and c["init"]:
            h_nontrivial.add((c["dflt"], c["mode"], str(c["ops"])))
        if why:
            V.disagreement("C15 persistence predicate on implementation", c, "statement holds", why[:4], True)
    bad = common.coq_eval_sharded(defs, [g_hcase(c, o) for c, o in zip(hist_cases, h_obs)], "chk_h", IMPORTS,
                                  shard=40, jobs=12, name="c15h")
    for j, code in bad.items():
        rel = {1: "Mask.run_ops defined (writable)", 2: "Mask.read_image results in history (theorems read_in_history / read_default / roundtrip)",
               3: "Mask.write_image final store (theorem store_history)"}[code]
        why, _ = history_property(hist_cases[j], h_obs[j])
        V.disagreement(rel, hist_cases[j], "model history", dict(reads=[r[:4] for r in h_obs[j]["reads"]], final=[[p, f, fo[:4]] for p, f, fo in h_obs[j]["final"]]),
                       bool(why))

    # ---- round-trip table
    n_rt, table = roundtrip_table_check(rng, V, base)
    n_rt += masked_default_aliasing(V, base)

    samples = [
        {k: (v if not isinstance(v, list) or len(v) < 30 else v[:30] + ["..."]) for k, v in rect_cases[-1].items()},
        dict(type="hist", dflt=hist_cases[-1]["dflt"], mode=hist_cases[-1]["mode"], init=hist_cases[-1]["init"], ops=hist_cases[-1]["ops"]),
        slice_cases[-1],
    ]
    return dict(
        evaluations=len(rect_cases) + len(slice_cases) + len(mask_cases) + len(hist_cases) + n_rt + n_index_arrays, index_array_cases=n_index_arrays,
        distinct_nontrivial=len(nontrivial) + len(h_nontrivial),
        rule="fill/update: 8 modes x random source/buffer shapes (1-40 px per side, <= 200 px) x random slice quadruples "
             "(free-form and constructed; None/negative/out-of-range bounds, steps +-1..3, reversed rows, empty) x mask patterns "
             "(none/random/block/rows/all; partial-NaN F16x3; negative integers in 25%); non-trivial = distinct case whose rectangle is "
             "non-empty and a proper part of the buffer. histories: per (format, mode) able to hold it (+ jpg RGB/RGBA), random "
             "6-14 op sequences over 3 positions with stale files; non-trivial = distinct history with a stale file and at least one "
             "completely-masked write. Also slice normalisation cases, clear/is_completely_masked cases, 32-entry round-trip table.",
        rect_cases=len(rect_cases), slice_cases=len(slice_cases), mask_cases=len(mask_cases),
        histories=len(hist_cases), history_ops=n_ops, roundtrip_pairs=len(table),
        roundtrip_table={f"{f}/{m}": v for (f, m), v in table.items()},
        input_histogram=hist, samples=samples)
