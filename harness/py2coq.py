"""Fail-closed translator from a small subset of Python to Gallina.

Used for the pure position arithmetic of toasty/pyramid.py (next_highest_power_of_2,
depth2tiles, tiles_at_depth, pos_parent, pos_children, is_subtile).  The functions are
re-translated from the working tree on every run into coq/theories/Generated/PyramidSrc.v;
Proofs/PyramidSrcP.v proves that the translated definitions agree with the hand-written
model (Model/Quadtree.v, Model/Study.v) on every input, so those model functions are tied
to the source by proof, not only by running both.  Anything outside the subset makes the
translation fail, which the check reports (fail closed).

Subset.  Integers are Z (unbounded, like Python ints; `//` and `%` with a positive
divisor are Z.div / Z.modulo).  A `Pos` is the record spos (sn, sx, sy : Z).  A function
body is a sequence of
  docstring | x = e | a, b, c = e1, e2, e3 | x op= e | if c: raise ... | if c: return e |
  while c: (assignments to names) | return e | return e1, e2, e3 | return [e, ...]
with expressions built from names, integer literals, + - * // % **, comparisons,
and/or/not, attribute access .n/.x/.y on a Pos, Pos(...) construction, calls of
functions translated earlier or of the function itself, and `f(...)[k]` on a call
returning a tuple.  `raise` becomes None (every function returns an option); a `while`
loop and a self-recursive function take an extra `fuel : nat` argument and return None
when it runs out.
"""
import ast


class Unsupported(Exception):
    pass


BINOPS = {ast.Add: "+", ast.Sub: "-", ast.Mult: "*", ast.FloorDiv: "/", ast.Mod: "mod", ast.Pow: "^"}
CMPOPS = {ast.Lt: "<?", ast.LtE: "<=?", ast.Gt: ">?", ast.GtE: ">=?", ast.Eq: "=?"}
POS_ATTRS = {"n": "sn", "x": "sx", "y": "sy"}


class Fn:
    def __init__(self, name, params, pos_params, needs_fuel, ret_arity, ret_kind):
        self.name, self.params, self.pos_params = name, params, pos_params
        self.needs_fuel, self.ret_arity, self.ret_kind = needs_fuel, ret_arity, ret_kind


class Translator:
    def __init__(self, source, wanted, pos_params):
        self.tree = ast.parse(source)
        self.wanted = wanted
        self.pos_params = pos_params            # function -> set of parameter names that hold a Pos
        self.fns = {}
        self.out = []
        self.counter = 0

    # ------------------------------------------------------------------ helpers
    def fresh(self, base):
        self.counter += 1
        return f"{base}_{self.counter}"

    def fail(self, node, why):
        raise Unsupported(f"line {getattr(node, 'lineno', '?')}: {why}: {ast.dump(node)[:120]}")

    # ------------------------------------------------------------------ expressions
    # expr returns a Gallina term; calls that can fail are hoisted into self.binds as (var, term)
    def expr(self, e, env, kinds):
        if isinstance(e, ast.Constant) and isinstance(e.value, int) and not isinstance(e.value, bool):
            return f"({e.value})" if e.value < 0 else str(e.value)
        if isinstance(e, ast.Name):
            if e.id not in env:
                self.fail(e, "unknown name")
            return env[e.id]
        if isinstance(e, ast.BinOp) and type(e.op) in BINOPS:
            a, b = self.expr(e.left, env, kinds), self.expr(e.right, env, kinds)
            return f"({a} {BINOPS[type(e.op)]} {b})"
        if isinstance(e, ast.UnaryOp) and isinstance(e.op, ast.USub):
            return f"(- {self.expr(e.operand, env, kinds)})"
        if isinstance(e, ast.UnaryOp) and isinstance(e.op, ast.Not):
            return f"(negb {self.expr(e.operand, env, kinds)})"
        if isinstance(e, ast.Compare) and len(e.ops) == 1 and type(e.ops[0]) in CMPOPS:
            a, b = self.expr(e.left, env, kinds), self.expr(e.comparators[0], env, kinds)
            return f"({a} {CMPOPS[type(e.ops[0])]} {b})"
        if isinstance(e, ast.BoolOp):
            op = "&&" if isinstance(e.op, ast.And) else "||"
            return "(" + f" {op} ".join(self.expr(v, env, kinds) for v in e.values) + ")"
        if isinstance(e, ast.Attribute) and isinstance(e.value, ast.Name) and e.attr in POS_ATTRS:
            if kinds.get(e.value.id) != "pos":
                self.fail(e, "attribute access on something that is not known to be a Pos")
            return f"({POS_ATTRS[e.attr]} {env[e.value.id]})"
        if isinstance(e, ast.Call) and isinstance(e.func, ast.Name) and e.func.id == "Pos":
            vals = {}
            for k, a in zip(("n", "x", "y"), e.args):
                vals[k] = self.expr(a, env, kinds)
            for kw in e.keywords:
                if kw.arg not in ("n", "x", "y") or kw.arg in vals:
                    self.fail(e, "Pos() keyword")
                vals[kw.arg] = self.expr(kw.value, env, kinds)
            if set(vals) != {"n", "x", "y"}:
                self.fail(e, "Pos() needs n, x, y")
            return f"(mkSP {vals['n']} {vals['x']} {vals['y']})"
        if isinstance(e, ast.Subscript) and isinstance(e.value, ast.Call) and isinstance(e.slice, ast.Constant):
            r = self.call(e.value, env, kinds)
            f = self.fns.get(e.value.func.id) or self.current
            k, ar = e.slice.value, f.ret_arity
            if ar == 3 and k in (0, 1, 2):
                return {0: f"(fst (fst {r}))", 1: f"(snd (fst {r}))", 2: f"(snd {r})"}[k]
            self.fail(e, "subscript of a call result")
        if isinstance(e, ast.Call):
            return self.call(e, env, kinds)
        self.fail(e, "expression outside the subset")

    def call(self, e, env, kinds):
        if not isinstance(e.func, ast.Name) or e.keywords:
            self.fail(e, "call outside the subset")
        name = e.func.id
        f = self.fns.get(name)
        rec = name == self.current.name
        if f is None and not rec:
            self.fail(e, "call of an untranslated function")
        f = f or self.current
        args = [self.expr(a, env, kinds) for a in e.args]
        if len(args) != len(f.params):
            self.fail(e, "arity")
        fuel = ""
        if f.needs_fuel:
            fuel = " fuel'" if rec else " fuel"
            self.uses_fuel = True
        v = self.fresh("r")
        self.binds.append((v, f"(src_{name}{fuel} {' '.join(args)})"))
        return v

    def with_binds(self, term_fn):
        """run term_fn (which may hoist calls) and wrap its result in the matches"""
        saved, self.binds = self.binds, []
        t = term_fn()
        for v, c in reversed(self.binds):
            t = f"match {c} with None => None | Some {v} => {t} end"
        self.binds = saved
        return t

    # ------------------------------------------------------------------ statements
    def block(self, stmts, env, kinds):
        if not stmts:
            self.fail(self.node, "function may fall off its end")
        s, rest = stmts[0], stmts[1:]
        if isinstance(s, ast.Expr) and isinstance(s.value, ast.Constant) and isinstance(s.value.value, str):
            return self.block(rest, env, kinds)
        if isinstance(s, ast.Return):
            return self.with_binds(lambda: self.ret(s, env, kinds))
        if isinstance(s, ast.Raise):
            return "None"
        if isinstance(s, ast.Assign) and len(s.targets) == 1:
            t = s.targets[0]
            if isinstance(t, ast.Name):
                pairs = [(t.id, s.value)]
            elif isinstance(t, ast.Tuple) and isinstance(s.value, ast.Tuple) and len(t.elts) == len(s.value.elts) \
                    and all(isinstance(x, ast.Name) for x in t.elts):
                pairs = [(x.id, v) for x, v in zip(t.elts, s.value.elts)]
            else:
                self.fail(s, "assignment target")

            def go():
                vals = [(n, self.expr(v, env, kinds), self.kind_of(v, kinds)) for n, v in pairs]   # all right-hand sides first
                env2, kinds2, lets = dict(env), dict(kinds), ""
                for n, term, kd in vals:
                    g = self.fresh(n)
                    lets += f"let {g} := {term} in "
                    env2[n], kinds2[n] = g, kd
                return lets + self.block(rest, env2, kinds2)
            return self.with_binds(go)
        if isinstance(s, ast.AugAssign) and isinstance(s.target, ast.Name) and type(s.op) in BINOPS:
            def go():
                g = self.fresh(s.target.id)
                term = f"({env[s.target.id]} {BINOPS[type(s.op)]} {self.expr(s.value, env, kinds)})"
                env2 = dict(env)
                env2[s.target.id] = g
                return f"let {g} := {term} in " + self.block(rest, env2, kinds)
            return self.with_binds(go)
        if isinstance(s, ast.If) and not s.orelse:
            last = s.body[-1]
            if not isinstance(last, (ast.Raise, ast.Return)):
                self.fail(s, "an if whose body neither raises nor returns")

            def go():
                c = self.expr(s.test, env, kinds)
                return f"if {c} then ({self.block(s.body, env, kinds)}) else ({self.block(rest, env, kinds)})"
            return self.with_binds(go)
        if isinstance(s, ast.While) and not s.orelse:
            return self.loop(s, rest, env, kinds)
        self.fail(s, "statement outside the subset")

    def kind_of(self, e, kinds):
        if isinstance(e, ast.Call) and isinstance(e.func, ast.Name) and e.func.id == "Pos":
            return "pos"
        if isinstance(e, ast.Name):
            return kinds.get(e.id, "int")
        if isinstance(e, ast.Subscript) and isinstance(e.value, ast.Call) and isinstance(e.value.func, ast.Name):
            f = self.fns.get(e.value.func.id) or self.current
            if f.ret_kind == "pos3" and e.slice.value == 0:
                return "pos"
        return "int"

    def ret(self, s, env, kinds):
        v = s.value
        if isinstance(v, ast.Tuple):
            return "Some (" + ", ".join(self.expr(x, env, kinds) for x in v.elts) + ")"
        if isinstance(v, ast.List):
            return "Some [" + "; ".join(self.expr(x, env, kinds) for x in v.elts) + "]"
        if isinstance(v, ast.Call) and isinstance(v.func, ast.Name) and v.func.id == self.current.name:
            # tail call of the function itself: its result is already an option
            saved, self.binds = self.binds, []
            r = self.call(v, env, kinds)
            (var, c), = [b for b in self.binds if b[0] == r]
            others = [b for b in self.binds if b[0] != r]
            self.binds = saved + others
            return c
        return f"Some {self.expr(v, env, kinds)}"

    def loop(self, s, rest, env, kinds):
        names = []
        for b in s.body:
            if isinstance(b, ast.AugAssign) and isinstance(b.target, ast.Name):
                names.append(b.target.id)
            elif isinstance(b, ast.Assign) and len(b.targets) == 1 and isinstance(b.targets[0], ast.Name):
                names.append(b.targets[0].id)
            else:
                self.fail(b, "loop body outside the subset")
        state = sorted(set(names), key=names.index)
        free = [n for n in env if n not in state]
        lname = f"src_{self.current.name}_loop"
        # the loop function: state variables and free variables are its parameters
        lenv = {n: n + "_" for n in list(env)}
        body_env = dict(lenv)
        lets = ""
        for b in s.body:
            tgt = b.target.id if isinstance(b, ast.AugAssign) else b.targets[0].id
            if isinstance(b, ast.AugAssign):
                term = f"({body_env[tgt]} {BINOPS[type(b.op)]} {self.expr(b.value, body_env, kinds)})"
            else:
                term = self.expr(b.value, body_env, kinds)
            g = self.fresh(tgt)
            lets += f"let {g} := {term} in "
            body_env[tgt] = g
        if self.binds:
            self.fail(s, "call inside a loop")
        cond = self.expr(s.test, lenv, kinds)
        params = " ".join(f"({lenv[n]} : {'spos' if kinds.get(n) == 'pos' else 'Z'})" for n in state + free)
        st_tuple = lambda e: "(" + ", ".join(e[n] for n in state) + ")" if len(state) > 1 else e[state[0]]   # noqa: E731
        st_type = " * ".join("Z" for _ in state)
        self.out.append(
            f"Fixpoint {lname} (fuel : nat) {params} : option ({st_type}) :=\n"
            f"  match fuel with\n  | O => None\n  | S fuel' =>\n"
            f"      if {cond} then {lets}{lname} fuel' {' '.join(body_env[n] for n in state + free)}\n"
            f"      else Some {st_tuple(lenv)}\n  end.\n")
        self.uses_fuel = True
        env2 = dict(env)
        pat = []
        for n in state:
            g = self.fresh(n)
            env2[n] = g
            pat.append(g)
        pattern = "(" + ", ".join(pat) + ")" if len(pat) > 1 else pat[0]
        call = f"{lname} fuel {' '.join(env[n] for n in state + free)}"
        return f"match {call} with None => None | Some {pattern} => {self.block(rest, env2, kinds)} end"

    # ------------------------------------------------------------------ functions
    def function(self, fd):
        name = fd.name
        params = [a.arg for a in fd.args.args]
        if fd.args.vararg or fd.args.kwarg or fd.args.kwonlyargs or fd.args.defaults:
            self.fail(fd, "signature outside the subset")
        posp = self.pos_params.get(name, set())
        recursive = any(isinstance(n, ast.Call) and isinstance(n.func, ast.Name) and n.func.id == name for n in ast.walk(fd))
        has_loop = any(isinstance(n, ast.While) for n in ast.walk(fd))
        rets = [n for n in ast.walk(fd) if isinstance(n, ast.Return)]
        ar, kind = 1, "int"
        for r in rets:
            if isinstance(r.value, ast.Tuple):
                ar = len(r.value.elts)
                kind = "pos3" if ar == 3 else "tuple"
            elif isinstance(r.value, ast.List):
                kind = "list"
        callee_fuel = any(isinstance(n, ast.Call) and isinstance(n.func, ast.Name) and n.func.id in self.fns
                          and self.fns[n.func.id].needs_fuel for n in ast.walk(fd))
        self.current = Fn(name, params, posp, recursive or has_loop or callee_fuel, ar, kind)
        self.node = fd
        self.binds = []
        self.uses_fuel = False
        env = {p: p for p in params}
        kinds = {p: ("pos" if p in posp else "int") for p in params}
        body = self.block(fd.body, env, kinds)
        ptxt = " ".join(f"({p} : {'spos' if p in posp else 'Z'})" for p in params)
        if recursive:
            self.out.append(f"Fixpoint src_{name} (fuel : nat) {ptxt} {{struct fuel}} :=\n"
                            f"  match fuel with\n  | O => None\n  | S fuel' =>\n      let fuel := fuel' in\n      {body}\n  end.\n")
        elif self.current.needs_fuel:
            self.out.append(f"Definition src_{name} (fuel : nat) {ptxt} :=\n  {body}.\n")
        else:
            self.out.append(f"Definition src_{name} {ptxt} :=\n  {body}.\n")
        self.fns[name] = self.current

    def run(self):
        found = {}
        for node in self.tree.body:
            if isinstance(node, ast.FunctionDef) and node.name in self.wanted:
                found[node.name] = node
        missing = [w for w in self.wanted if w not in found]
        if missing:
            raise Unsupported(f"functions not found in the source: {missing}")
        for w in self.wanted:
            self.function(found[w])
        return "\n".join(self.out)


HEADER = """(* GENERATED by harness/py2coq.py from {path} -- do not edit; regenerated on every run. *)
From Coq Require Import ZArith List Bool.
Import ListNotations.
Local Open Scope Z_scope.

Record spos := mkSP {{ sn : Z; sx : Z; sy : Z }}.

"""

PYRAMID_FUNCS = ["next_highest_power_of_2", "depth2tiles", "tiles_at_depth", "pos_parent", "pos_children", "is_subtile"]
PYRAMID_POS = {"pos_parent": {"pos"}, "pos_children": {"pos"}, "is_subtile": {"deeper_pos", "shallower_pos"}}


def translate_pyramid(repo):
    """Gallina text for the position arithmetic of <repo>/toasty/pyramid.py (raises Unsupported)."""
    import os
    path = os.path.join(str(repo), "toasty", "pyramid.py")
    src = open(path).read()
    t = Translator(src, PYRAMID_FUNCS, PYRAMID_POS)
    body = t.run()
    return HEADER.format(path="toasty/pyramid.py") + body


if __name__ == "__main__":
    import sys
    sys.stdout.write(translate_pyramid(sys.argv[1] if len(sys.argv) > 1 else "/repo"))
