"""Fail-closed translator from a small subset of Python to Gallina.

Used for the pure position arithmetic of toasty/pyramid.py (next_highest_power_of_2,
depth2tiles, tiles_at_depth, pos_parent, pos_children, is_subtile).  The functions are
re-translated from the working tree on every run into coq/theories/Generated/PyramidSrc.v;
Proofs/PyramidSrcP.v proves that the translated definitions agree with the hand-written
model (Model/Quadtree.v, Model/Study.v) on every input, so those model functions are tied
to the source by proof, not only by running both.  Anything outside the subset makes the
translation fail, which the check reports (fail closed).

Subset.  Integers are Z (unbounded, like Python ints; `//` and `%` with a positive
divisor are Z.div / Z.modulo).  A `Pos` is the record spos (sn, sx, sy : Z).  A function
body is a sequence of
  docstring | x = e | a, b, c = e1, e2, e3 | x op= e | if c: raise ... | if c: return e |
  while c: (assignments to names) | return e | return e1, e2, e3 | return [e, ...]
with expressions built from names, integer literals, + - * // % **, comparisons,
and/or/not, attribute access .n/.x/.y on a Pos, Pos(...) construction, calls of
functions translated earlier or of the function itself, and `f(...)[k]` on a call
returning a tuple.  `raise` becomes None (every function returns an option); a `while`
loop and a self-recursive function take an extra `fuel : nat` argument and return None
when it runs out.
"""
import ast


class Unsupported(Exception):
    pass


BINOPS = {ast.Add: "+", ast.Sub: "-", ast.Mult: "*", ast.FloorDiv: "/", ast.Mod: "mod", ast.Pow: "^"}
CMPOPS = {ast.Lt: "<?", ast.LtE: "<=?", ast.Gt: ">?", ast.GtE: ">=?", ast.Eq: "=?"}
POS_ATTRS = {"n": "sn", "x": "sx", "y": "sy"}


class Fn:
    def __init__(self, name, params, pos_params, needs_fuel, ret_arity, ret_kind, elem_kind="int"):
        self.name, self.params, self.pos_params = name, params, pos_params
        self.needs_fuel, self.ret_arity, self.ret_kind = needs_fuel, ret_arity, ret_kind
        self.elem_kind = elem_kind              # kind of the items of a list / generator result


class Translator:
    def __init__(self, source, wanted, pos_params):
        self.tree = ast.parse(source)
        self.wanted = wanted
        self.pos_params = pos_params            # function -> set of parameter names that hold a Pos
        self.fns = {}
        self.out = []
        self.counter = 0

    # ------------------------------------------------------------------ helpers
    def fresh(self, base):
        self.counter += 1
        return f"{base}_{self.counter}"

    def fail(self, node, why):
        raise Unsupported(f"line {getattr(node, 'lineno', '?')}: {why}: {ast.dump(node)[:120]}")

    # ------------------------------------------------------------------ expressions
    # expr returns a Gallina term; calls that can fail are hoisted into self.binds as (var, term)
    def expr(self, e, env, kinds):
        if isinstance(e, ast.Constant) and isinstance(e.value, int) and not isinstance(e.value, bool):
            return f"({e.value})" if e.value < 0 else str(e.value)
        if isinstance(e, ast.Name):
            if e.id not in env:
                self.fail(e, "unknown name")
            return env[e.id]
        if isinstance(e, ast.BinOp) and type(e.op) in BINOPS:
            a, b = self.expr(e.left, env, kinds), self.expr(e.right, env, kinds)
            return f"({a} {BINOPS[type(e.op)]} {b})"
        if isinstance(e, ast.UnaryOp) and isinstance(e.op, ast.USub):
            return f"(- {self.expr(e.operand, env, kinds)})"
        if isinstance(e, ast.UnaryOp) and isinstance(e.op, ast.Not):
            return f"(negb {self.expr(e.operand, env, kinds)})"
        if isinstance(e, ast.Compare) and len(e.ops) == 1 and type(e.ops[0]) in CMPOPS:
            a, b = self.expr(e.left, env, kinds), self.expr(e.comparators[0], env, kinds)
            return f"({a} {CMPOPS[type(e.ops[0])]} {b})"
        if isinstance(e, ast.BoolOp):
            op = "&&" if isinstance(e.op, ast.And) else "||"
            return "(" + f" {op} ".join(self.expr(v, env, kinds) for v in e.values) + ")"
        if isinstance(e, ast.Attribute) and isinstance(e.value, ast.Name) and e.attr in POS_ATTRS:
            if kinds.get(e.value.id) != "pos":
                self.fail(e, "attribute access on something that is not known to be a Pos")
            return f"({POS_ATTRS[e.attr]} {env[e.value.id]})"
        if isinstance(e, ast.Call) and isinstance(e.func, ast.Name) and e.func.id == "Pos":
            vals = {}
            for k, a in zip(("n", "x", "y"), e.args):
                vals[k] = self.expr(a, env, kinds)
            for kw in e.keywords:
                if kw.arg not in ("n", "x", "y") or kw.arg in vals:
                    self.fail(e, "Pos() keyword")
                vals[kw.arg] = self.expr(kw.value, env, kinds)
            if set(vals) != {"n", "x", "y"}:
                self.fail(e, "Pos() needs n, x, y")
            return f"(mkSP {vals['n']} {vals['x']} {vals['y']})"
        if isinstance(e, ast.Subscript) and isinstance(e.value, ast.Call) and isinstance(e.slice, ast.Constant):
            r = self.call(e.value, env, kinds)
            f = self.fns.get(e.value.func.id) or self.current
            k, ar = e.slice.value, f.ret_arity
            if ar == 3 and k in (0, 1, 2):
                return {0: f"(fst (fst {r}))", 1: f"(snd (fst {r}))", 2: f"(snd {r})"}[k]
            self.fail(e, "subscript of a call result")
        if isinstance(e, ast.Call):
            return self.call(e, env, kinds)
        self.fail(e, "expression outside the subset")

    def call(self, e, env, kinds):
        if not isinstance(e.func, ast.Name) or e.keywords:
            self.fail(e, "call outside the subset")
        name = e.func.id
        f = self.fns.get(name)
        rec = name == self.current.name
        if f is None and not rec:
            self.fail(e, "call of an untranslated function")
        f = f or self.current
        args = [self.expr(a, env, kinds) for a in e.args]
        if len(args) != len(f.params):
            self.fail(e, "arity")
        fuel = ""
        if f.needs_fuel:
            fuel = " fuel'" if rec else " fuel"
            self.uses_fuel = True
        v = self.fresh("r")
        self.binds.append((v, f"(src_{name}{fuel} {' '.join(args)})"))
        return v

    def with_binds(self, term_fn):
        """run term_fn (which may hoist calls) and wrap its result in the matches"""
        saved, self.binds = self.binds, []
        t = term_fn()
        for v, c in reversed(self.binds):
            t = f"match {c} with None => None | Some {v} => {t} end"
        self.binds = saved
        return t

    # ------------------------------------------------------------------ statements
    def block(self, stmts, env, kinds):
        if not stmts:
            self.fail(self.node, "function may fall off its end")
        s, rest = stmts[0], stmts[1:]
        if isinstance(s, ast.Expr) and isinstance(s.value, ast.Constant) and isinstance(s.value.value, str):
            return self.block(rest, env, kinds)
        if isinstance(s, ast.Return):
            return self.with_binds(lambda: self.ret(s, env, kinds))
        if isinstance(s, ast.Raise):
            return "None"
        if isinstance(s, ast.Assign) and len(s.targets) == 1:
            t = s.targets[0]
            if isinstance(t, ast.Name):
                pairs = [(t.id, s.value)]
            elif isinstance(t, ast.Tuple) and isinstance(s.value, ast.Tuple) and len(t.elts) == len(s.value.elts) \
                    and all(isinstance(x, ast.Name) for x in t.elts):
                pairs = [(x.id, v) for x, v in zip(t.elts, s.value.elts)]
            else:
                self.fail(s, "assignment target")

            def go():
                vals = [(n, self.expr(v, env, kinds), self.kind_of(v, kinds)) for n, v in pairs]   # all right-hand sides first
                env2, kinds2, lets = dict(env), dict(kinds), ""
                for n, term, kd in vals:
                    g = self.fresh(n)
                    lets += f"let {g} := {term} in "
                    env2[n], kinds2[n] = g, kd
                return lets + self.block(rest, env2, kinds2)
            return self.with_binds(go)
        if isinstance(s, ast.AugAssign) and isinstance(s.target, ast.Name) and type(s.op) in BINOPS:
            def go():
                g = self.fresh(s.target.id)
                term = f"({env[s.target.id]} {BINOPS[type(s.op)]} {self.expr(s.value, env, kinds)})"
                env2 = dict(env)
                env2[s.target.id] = g
                return f"let {g} := {term} in " + self.block(rest, env2, kinds)
            return self.with_binds(go)
        if isinstance(s, ast.If) and not s.orelse:
            last = s.body[-1]
            if not isinstance(last, (ast.Raise, ast.Return)):
                self.fail(s, "an if whose body neither raises nor returns")

            def go():
                c = self.expr(s.test, env, kinds)
                return f"if {c} then ({self.block(s.body, env, kinds)}) else ({self.block(rest, env, kinds)})"
            return self.with_binds(go)
        if isinstance(s, ast.While) and not s.orelse:
            return self.loop(s, rest, env, kinds)
        self.fail(s, "statement outside the subset")

    # ------------------------------------------------------------------ generators
    # A generator function becomes a function returning option (list T): the items it yields, in
    # order; None when a call inside it fails or the fuel runs out.
    def gen_block(self, stmts, env, kinds):
        if not stmts:
            return "Some []"
        s, rest = stmts[0], stmts[1:]
        if isinstance(s, ast.Expr) and isinstance(s.value, ast.Constant) and isinstance(s.value.value, str):
            return self.gen_block(rest, env, kinds)
        if isinstance(s, ast.If) and not s.orelse and len(s.body) == 1 and isinstance(s.body[0], ast.Return) \
                and s.body[0].value is None:
            def go():
                c = self.expr(s.test, env, kinds)
                return f"if {c} then Some [] else ({self.gen_block(rest, env, kinds)})"
            return self.with_binds(go)
        if isinstance(s, ast.Assign) and len(s.targets) == 1 and isinstance(s.targets[0], ast.Name):
            def go():
                term, kd = self.expr(s.value, env, kinds), self.kind_of(s.value, kinds)
                g = self.fresh(s.targets[0].id)
                env2, kinds2 = dict(env), dict(kinds)
                env2[s.targets[0].id], kinds2[s.targets[0].id] = g, kd
                return f"let {g} := {term} in " + self.gen_block(rest, env2, kinds2)
            return self.with_binds(go)
        if isinstance(s, ast.For) and not s.orelse and isinstance(s.target, ast.Name) and isinstance(s.iter, ast.Call) \
                and isinstance(s.iter.func, ast.Name):
            def go():
                it = s.iter
                if it.func.id == "range" and len(it.args) == 2 and not it.keywords:
                    lst = f"(src_range {self.expr(it.args[0], env, kinds)} {self.expr(it.args[1], env, kinds)})"
                    ek = "int"
                else:
                    f = self.fns.get(it.func.id) or (self.current if it.func.id == self.current.name else None)
                    if f is None or f.ret_kind not in ("list", "gen"):
                        self.fail(s, "for over something that is not range() or a translated list/generator")
                    lst, ek = self.call(it, env, kinds), f.elem_kind
                v = self.fresh(s.target.id)
                env2, kinds2 = dict(env), dict(kinds)
                env2[s.target.id], kinds2[s.target.id] = v, ek
                body = self.with_binds(lambda: self.gen_block(s.body, env2, kinds2))
                loop = f"src_concat_map (fun {v} => {body}) {lst}"
                if not [r for r in rest if not (isinstance(r, ast.Expr) and isinstance(r.value, ast.Constant))]:
                    return loop
                return f"src_app_opt ({loop}) ({self.gen_block(rest, env, kinds)})"
            return self.with_binds(go)
        if isinstance(s, ast.Expr) and isinstance(s.value, ast.Yield) and s.value.value is not None:
            def go():
                v = s.value.value
                if isinstance(v, ast.Tuple):
                    item = "(" + ", ".join(self.expr(x, env, kinds) for x in v.elts) + ")"
                else:
                    item = self.expr(v, env, kinds)
                return f"src_cons_opt {item} ({self.gen_block(rest, env, kinds)})"
            return self.with_binds(go)
        self.fail(s, "generator statement outside the subset")

    def gen_elem_kind(self, fd, kinds):
        ks = set()
        for n in ast.walk(fd):
            if isinstance(n, ast.Yield) and n.value is not None:
                if isinstance(n.value, ast.Tuple):
                    ks.add("tuple")
                elif isinstance(n.value, ast.Name) and kinds.get(n.value.id) == "pos":
                    ks.add("pos")
                elif isinstance(n.value, ast.Name):
                    ks.add("item")          # an item passed on from an inner generator
                else:
                    ks.add("int")
        ks.discard("item")
        if len(ks) > 1:
            self.fail(fd, "generator yielding items of different kinds")
        return ks.pop() if ks else "pos"

    def kind_of(self, e, kinds):
        if isinstance(e, ast.Call) and isinstance(e.func, ast.Name) and e.func.id == "Pos":
            return "pos"
        if isinstance(e, ast.Name):
            return kinds.get(e.id, "int")
        if isinstance(e, ast.Subscript) and isinstance(e.value, ast.Call) and isinstance(e.value.func, ast.Name):
            f = self.fns.get(e.value.func.id) or self.current
            if f.ret_kind == "pos3" and e.slice.value == 0:
                return "pos"
        return "int"

    def ret(self, s, env, kinds):
        v = s.value
        if isinstance(v, ast.Tuple):
            return "Some (" + ", ".join(self.expr(x, env, kinds) for x in v.elts) + ")"
        if isinstance(v, ast.List):
            return "Some [" + "; ".join(self.expr(x, env, kinds) for x in v.elts) + "]"
        if isinstance(v, ast.Call) and isinstance(v.func, ast.Name) and v.func.id == self.current.name:
            # tail call of the function itself: its result is already an option
            saved, self.binds = self.binds, []
            r = self.call(v, env, kinds)
            (var, c), = [b for b in self.binds if b[0] == r]
            others = [b for b in self.binds if b[0] != r]
            self.binds = saved + others
            return c
        return f"Some {self.expr(v, env, kinds)}"

    def loop(self, s, rest, env, kinds):
        names = []
        for b in s.body:
            if isinstance(b, ast.AugAssign) and isinstance(b.target, ast.Name):
                names.append(b.target.id)
            elif isinstance(b, ast.Assign) and len(b.targets) == 1 and isinstance(b.targets[0], ast.Name):
                names.append(b.targets[0].id)
            else:
                self.fail(b, "loop body outside the subset")
        state = sorted(set(names), key=names.index)
        free = [n for n in env if n not in state]
        lname = f"src_{self.current.name}_loop"
        # the loop function: state variables and free variables are its parameters
        lenv = {n: n + "_" for n in list(env)}
        body_env = dict(lenv)
        lets = ""
        for b in s.body:
            tgt = b.target.id if isinstance(b, ast.AugAssign) else b.targets[0].id
            if isinstance(b, ast.AugAssign):
                term = f"({body_env[tgt]} {BINOPS[type(b.op)]} {self.expr(b.value, body_env, kinds)})"
            else:
                term = self.expr(b.value, body_env, kinds)
            g = self.fresh(tgt)
            lets += f"let {g} := {term} in "
            body_env[tgt] = g
        if self.binds:
            self.fail(s, "call inside a loop")
        cond = self.expr(s.test, lenv, kinds)
        params = " ".join(f"({lenv[n]} : {'spos' if kinds.get(n) == 'pos' else 'Z'})" for n in state + free)
        st_tuple = lambda e: "(" + ", ".join(e[n] for n in state) + ")" if len(state) > 1 else e[state[0]]   # noqa: E731
        st_type = " * ".join("Z" for _ in state)
        self.out.append(
            f"Fixpoint {lname} (fuel : nat) {params} : option ({st_type}) :=\n"
            f"  match fuel with\n  | O => None\n  | S fuel' =>\n"
            f"      if {cond} then {lets}{lname} fuel' {' '.join(body_env[n] for n in state + free)}\n"
            f"      else Some {st_tuple(lenv)}\n  end.\n")
        self.uses_fuel = True
        env2 = dict(env)
        pat = []
        for n in state:
            g = self.fresh(n)
            env2[n] = g
            pat.append(g)
        pattern = "(" + ", ".join(pat) + ")" if len(pat) > 1 else pat[0]
        call = f"{lname} fuel {' '.join(env[n] for n in state + free)}"
        return f"match {call} with None => None | Some {pattern} => {self.block(rest, env2, kinds)} end"

    # ------------------------------------------------------------------ functions
    def function(self, fd):
        name = fd.name
        params = [a.arg for a in fd.args.args]
        if fd.args.vararg or fd.args.kwarg or fd.args.kwonlyargs or fd.args.defaults:
            self.fail(fd, "signature outside the subset")
        posp = self.pos_params.get(name, set())
        recursive = any(isinstance(n, ast.Call) and isinstance(n.func, ast.Name) and n.func.id == name for n in ast.walk(fd))
        has_loop = any(isinstance(n, ast.While) for n in ast.walk(fd))
        rets = [n for n in ast.walk(fd) if isinstance(n, ast.Return)]
        ar, kind = 1, "int"
        for r in rets:
            if isinstance(r.value, ast.Tuple):
                ar = len(r.value.elts)
                kind = "pos3" if ar == 3 else "tuple"
            elif isinstance(r.value, ast.List):
                kind = "list"
        is_gen = any(isinstance(n, (ast.Yield, ast.YieldFrom)) for n in ast.walk(fd))
        callee_fuel = any(isinstance(n, ast.Call) and isinstance(n.func, ast.Name) and n.func.id in self.fns
                          and self.fns[n.func.id].needs_fuel for n in ast.walk(fd))
        self.current = Fn(name, params, posp, recursive or has_loop or callee_fuel, ar, kind)
        self.node = fd
        self.binds = []
        self.uses_fuel = False
        env = {p: p for p in params}
        kinds = {p: ("pos" if p in posp else "int") for p in params}
        if is_gen:
            if rets and any(r.value is not None for r in rets):
                self.fail(fd, "generator returning a value")
            self.current.ret_kind = "gen"
            self.current.elem_kind = self.gen_elem_kind(fd, kinds)
            body = self.gen_block(fd.body, env, kinds)
        else:
            if kind == "list":
                self.current.elem_kind = "pos" if all(
                    isinstance(x, ast.Call) and isinstance(x.func, ast.Name) and x.func.id == "Pos"
                    for r in rets if isinstance(r.value, ast.List) for x in r.value.elts) else "int"
            body = self.block(fd.body, env, kinds)
        ptxt = " ".join(f"({p} : {'spos' if p in posp else 'Z'})" for p in params)
        if recursive:
            self.out.append(f"Fixpoint src_{name} (fuel : nat) {ptxt} {{struct fuel}} :=\n"
                            f"  match fuel with\n  | O => None\n  | S fuel' =>\n      let fuel := fuel' in\n      {body}\n  end.\n")
        elif self.current.needs_fuel:
            self.out.append(f"Definition src_{name} (fuel : nat) {ptxt} :=\n  {body}.\n")
        else:
            self.out.append(f"Definition src_{name} {ptxt} :=\n  {body}.\n")
        self.fns[name] = self.current

    def run(self):
        found = {}
        for node in self.tree.body:
            if isinstance(node, ast.FunctionDef) and node.name in self.wanted:
                found[node.name] = node
        missing = [w for w in self.wanted if w not in found]
        if missing:
            raise Unsupported(f"functions not found in the source: {missing}")
        for w in self.wanted:
            self.function(found[w])
        return "\n".join(self.out)


HEADER = """(* GENERATED by harness/py2coq.py from {path} -- do not edit; regenerated on every run. *)
From Coq Require Import ZArith List Bool.
From Toasty Require Import Model.SrcPrelude.
Import ListNotations.
Local Open Scope Z_scope.

"""

PYRAMID_FUNCS = ["next_highest_power_of_2", "depth2tiles", "tiles_at_depth", "pos_parent", "pos_children", "is_subtile",
                 "_postfix_pos", "generate_pos"]
PYRAMID_POS = {"pos_parent": {"pos"}, "pos_children": {"pos"}, "is_subtile": {"deeper_pos", "shallower_pos"},
               "_postfix_pos": {"pos"}}


def translate_pyramid(repo):
    """Gallina text for the position arithmetic of <repo>/toasty/pyramid.py (raises Unsupported)."""
    import os
    path = os.path.join(str(repo), "toasty", "pyramid.py")
    src = open(path).read()
    t = Translator(src, PYRAMID_FUNCS, PYRAMID_POS)
    body = t.run()
    return HEADER.format(path="toasty/pyramid.py") + body


# ---------------------------------------------------------------------------------------------
# toasty/study.py: the StudyTiling geometry (methods of a class whose state is integer fields)

STUDY_METHODS = ["__init__", "compute_for_subimage", "n_deepest_layer_tiles", "image_to_tile",
                 "count_populated_positions", "generate_populated_positions"]


class StudyTranslator(Translator):
    """Methods of class StudyTiling.  The instance is the record stiling whose fields are the class-level
    attribute declarations (`_width = None`, ...) in source order; `self._f` reads a field; in __init__
    `self._f = e` sets one and the constructor returns the record once every field is set; on a local
    object made by `StudyTiling(a, b)`, `obj._f = e` / `obj._f += e` replace one field.  Further forms:
    int(e) on an integer is e; max/min of two; `np.floor(e).astype(int)` on an integer e is e
    (exact while |e| < 2**53); `int(np.log2(e))` is Z.log2 e (exact for the powers of two it is applied to)."""

    CLASS = "StudyTiling"

    def __init__(self, source, pyramid_fns):
        Translator.__init__(self, source, STUDY_METHODS, {})
        self.fns = dict(pyramid_fns)
        cls = [n for n in self.tree.body if isinstance(n, ast.ClassDef) and n.name == self.CLASS]
        if len(cls) != 1:
            raise Unsupported("class StudyTiling not found")
        self.cls = cls[0]
        self.fields = []
        for n in self.cls.body:
            if isinstance(n, ast.Assign) and len(n.targets) == 1 and isinstance(n.targets[0], ast.Name) \
                    and isinstance(n.value, ast.Constant) and n.value.value is None:
                self.fields.append(n.targets[0].id)
        if not self.fields:
            raise Unsupported("StudyTiling declares no fields")
        self.in_init = False

    def fld(self, f):
        return "st" + f if f.startswith("_") else "st_" + f

    def rebuild(self, obj, field, term):
        return "(mkST " + " ".join(term if f == field else f"({self.fld(f)} {obj})" for f in self.fields) + ")"

    # -- expressions
    def expr(self, e, env, kinds):
        if isinstance(e, ast.Attribute) and isinstance(e.value, ast.Name) and e.attr in self.fields:
            o = e.value.id
            if self.in_init and o == "self":
                if e.attr not in self.init_fields:
                    self.fail(e, "field read before it is set in __init__")
                return self.init_fields[e.attr]
            if kinds.get(o) != "tiling":
                self.fail(e, "field access on something that is not a StudyTiling")
            return f"({self.fld(e.attr)} {env[o]})"
        if isinstance(e, ast.Call) and isinstance(e.func, ast.Name) and not e.keywords:
            fn, a = e.func.id, e.args
            if fn == "int" and len(a) == 1:
                x = a[0]
                if isinstance(x, ast.Call) and isinstance(x.func, ast.Attribute) and isinstance(x.func.value, ast.Name) \
                        and x.func.value.id == "np" and x.func.attr == "log2" and len(x.args) == 1:
                    return f"(Z.log2 {self.expr(x.args[0], env, kinds)})"
                return self.expr(x, env, kinds)
            if fn in ("max", "min") and len(a) == 2:
                return f"(Z.{fn} {self.expr(a[0], env, kinds)} {self.expr(a[1], env, kinds)})"
            if fn == self.CLASS:
                if len(a) != 2:
                    self.fail(e, "StudyTiling() arity")
                args = [self.expr(x, env, kinds) for x in a]
                v = self.fresh("t")
                self.uses_fuel = True
                self.binds.append((v, f"(src_StudyTiling_init fuel {' '.join(args)})"))
                return v
        # np.floor(e).astype(int)
        if isinstance(e, ast.Call) and isinstance(e.func, ast.Attribute) and e.func.attr == "astype" and len(e.args) == 1 \
                and isinstance(e.args[0], ast.Name) and e.args[0].id == "int" and isinstance(e.func.value, ast.Call):
            inner = e.func.value
            if isinstance(inner.func, ast.Attribute) and isinstance(inner.func.value, ast.Name) and inner.func.value.id == "np" \
                    and inner.func.attr == "floor" and len(inner.args) == 1:
                return self.expr(inner.args[0], env, kinds)
        return Translator.expr(self, e, env, kinds)

    def kind_of(self, e, kinds):
        if isinstance(e, ast.Call) and isinstance(e.func, ast.Name) and e.func.id == self.CLASS:
            return "tiling"
        return Translator.kind_of(self, e, kinds)

    # -- statements
    def block(self, stmts, env, kinds):
        if not stmts and self.in_init:
            missing = [f for f in self.fields if f not in self.init_fields]
            if missing:
                self.fail(self.node, f"__init__ leaves fields unset: {missing}")
            return "Some (mkST " + " ".join(self.init_fields[f] for f in self.fields) + ")"
        if stmts:
            s, rest = stmts[0], stmts[1:]
            tgt = None
            if isinstance(s, ast.Assign) and len(s.targets) == 1:
                tgt = s.targets[0]
            elif isinstance(s, ast.AugAssign):
                tgt = s.target
            if isinstance(tgt, ast.Attribute) and isinstance(tgt.value, ast.Name) and tgt.attr in self.fields:
                o = tgt.value.id

                def go():
                    val = self.expr(s.value, env, kinds)
                    if isinstance(s, ast.AugAssign):
                        if type(s.op) not in BINOPS:
                            self.fail(s, "operator")
                        val = f"({self.expr(tgt, env, kinds)} {BINOPS[type(s.op)]} {val})"
                    if self.in_init and o == "self":
                        g = self.fresh("self" + tgt.attr)
                        saved = dict(self.init_fields)
                        self.init_fields[tgt.attr] = g
                        t = f"let {g} := {val} in " + self.block(rest, env, kinds)
                        self.init_fields = saved
                        return t
                    if kinds.get(o) != "tiling" or o == "self":
                        self.fail(s, "field assignment outside __init__ on something that is not a local StudyTiling")
                    g = self.fresh(o)
                    env2 = dict(env)
                    env2[o] = g
                    return f"let {g} := {self.rebuild(env[o], tgt.attr, val)} in " + self.block(rest, env2, kinds)
                return self.with_binds(go)
        return Translator.block(self, stmts, env, kinds)

    # -- methods
    def method(self, fd):
        name = "StudyTiling_" + ("init" if fd.name == "__init__" else fd.name)
        params = [a.arg for a in fd.args.args]
        if fd.args.vararg or fd.args.kwarg or fd.args.kwonlyargs or fd.args.defaults or not params or params[0] != "self":
            self.fail(fd, "method signature outside the subset")
        self.in_init = fd.name == "__init__"
        self.init_fields = {}
        is_gen = any(isinstance(n, (ast.Yield, ast.YieldFrom)) for n in ast.walk(fd))
        rets = [n for n in ast.walk(fd) if isinstance(n, ast.Return)]
        ar, kind = 1, "int"
        for r in rets:
            if isinstance(r.value, ast.Tuple):
                ar, kind = len(r.value.elts), "tuple"
        calls = [n.func.id for n in ast.walk(fd) if isinstance(n, ast.Call) and isinstance(n.func, ast.Name)]
        needs_fuel = any((c in self.fns and self.fns[c].needs_fuel) or c == self.CLASS for c in calls)
        ps = params[1:] if self.in_init else params
        self.current = Fn(name, ps, set(), needs_fuel, ar, kind)
        self.node, self.binds, self.uses_fuel = fd, [], False
        env = {p: p for p in ps}
        kinds = {p: "int" for p in ps}
        if not self.in_init:
            kinds["self"] = "tiling"
        if self.in_init and rets:
            self.fail(fd, "return inside __init__")
        if is_gen:
            self.current.ret_kind, self.current.elem_kind = "gen", "tuple"
            body = self.gen_block(fd.body, env, kinds)
        else:
            body = self.block(fd.body, env, kinds)
        ptxt = " ".join(f"({p} : {'stiling' if kinds[p] == 'tiling' else 'Z'})" for p in ps)
        fuel = "(fuel : nat) " if needs_fuel else ""
        self.out.append(f"Definition src_{name} {fuel}{ptxt} :=\n  {body}.\n")
        self.fns[fd.name] = self.current

    def run(self):
        found = {n.name: n for n in self.cls.body if isinstance(n, ast.FunctionDef)}
        missing = [w for w in self.wanted if w not in found]
        if missing:
            raise Unsupported(f"methods not found in class StudyTiling: {missing}")
        rec = "Record stiling := mkST { " + "; ".join(f"{self.fld(f)} : Z" for f in self.fields) + " }.\n"
        self.out.append(rec)
        for w in self.wanted:
            self.method(found[w])
        return "\n".join(self.out)


def translate_study(repo):
    """Gallina text for StudyTiling of <repo>/toasty/study.py (raises Unsupported).  The file is
    self-contained: it carries its own translation of pyramid.next_highest_power_of_2, the one
    function of pyramid.py that study.py uses, so that a change elsewhere in pyramid.py cannot
    disturb it."""
    import os
    pt = Translator(open(os.path.join(str(repo), "toasty", "pyramid.py")).read(), ["next_highest_power_of_2"], {})
    np2 = pt.run()
    t = StudyTranslator(open(os.path.join(str(repo), "toasty", "study.py")).read(), pt.fns)
    body = t.run()
    return HEADER.format(path="toasty/study.py and toasty/pyramid.py (next_highest_power_of_2)") + np2 + "\n" + body


# ---------------------------------------------------------------------------------------------
# toasty/pyramid.py: tile naming of class PyramidIO (strings)

PATH_METHODS = ["__init__", "tile_path", "_tile_path_LsYsYX", "_tile_path_LXY", "get_path_scheme"]


class PathTranslator:
    """Tile naming of class PyramidIO: __init__ (scheme dispatch), tile_path, the two _tile_path_*
    methods and get_path_scheme.  Strings are Coq strings; `str(e)` of an integer is src_str;
    `"..{}..".format(a, ...)` is the concatenation of the literal's pieces with the arguments in
    order; `os.path.join(a, b, ...)` is src_join folded from the left (POSIX, a non-empty and not
    ending in "/", b relative); `x or y` on an optional string is src_or; a bound method stored in
    a field (`self._tile_path = self._tile_path_LXY`) is a constructor of the enumeration
    src_method and calling the field dispatches on it; a call of os.makedirs (alone, or under
    `if makedirs:`) is an effect with no result and is dropped; the directory scan under
    `if default_format is None:` is the oracle src_guess_format (a Section variable), with the
    block required to assign nothing but default_format.  An if/elif/else whose branches assign
    and fall through is translated by continuing into the rest of the body in each branch.
    Every function returns an option; raise is None.  Anything else fails (fail closed)."""

    def __init__(self, source):
        self.tree = ast.parse(source)
        cls = [n for n in self.tree.body if isinstance(n, ast.ClassDef) and n.name == "PyramidIO"]
        if len(cls) != 1:
            raise Unsupported("class PyramidIO not found")
        self.methods = {n.name: n for n in cls[0].body if isinstance(n, ast.FunctionDef)}
        missing = [m for m in PATH_METHODS if m not in self.methods]
        if missing:
            raise Unsupported(f"methods not found in class PyramidIO: {missing}")
        self.counter = 0
        init = self.methods["__init__"]
        # fields and their kinds, in order of first assignment in __init__
        self.fields, self.kinds = [], {}
        for n in ast.walk(init):
            if isinstance(n, ast.Assign) and len(n.targets) == 1 and isinstance(n.targets[0], ast.Attribute) \
                    and isinstance(n.targets[0].value, ast.Name) and n.targets[0].value.id == "self":
                f = n.targets[0].attr
                k = "method" if (isinstance(n.value, ast.Attribute) and isinstance(n.value.value, ast.Name)
                                 and n.value.value.id == "self") else "str"
                if f not in self.kinds:
                    self.kinds[f] = k
                elif self.kinds[f] != k:
                    raise Unsupported(f"field {f} holds values of different kinds")
        order = []
        for n in ast.walk(init):
            pass
        # source order of first assignment
        class V(ast.NodeVisitor):
            def visit_Assign(v, n):
                t = n.targets[0]
                if isinstance(t, ast.Attribute) and isinstance(t.value, ast.Name) and t.value.id == "self" and t.attr not in order:
                    order.append(t.attr)
        V().visit(init)
        self.fields = order
        self.method_tags = sorted({n.value.attr for n in ast.walk(init) if isinstance(n, ast.Assign)
                                   and isinstance(n.value, ast.Attribute) and isinstance(n.value.value, ast.Name)
                                   and n.value.value.id == "self"})
        for t in self.method_tags:
            if t not in self.methods:
                raise Unsupported(f"field holds a method that does not exist: {t}")

    def fail(self, node, why):
        raise Unsupported(f"line {getattr(node, 'lineno', '?')}: {why}: {ast.dump(node)[:120]}")

    def fresh(self, base):
        self.counter += 1
        return f"{base}_{self.counter}"

    def fld(self, f):
        return "pio" + f if f.startswith("_") else "pio_" + f

    @staticmethod
    def lit(sv):
        return '"' + sv.replace('"', '""') + '"'

    # -- expressions: returns (term, kind) with kind in str | ostr | int | pos | bool
    def expr(self, e, env):
        if isinstance(e, ast.Constant) and isinstance(e.value, str):
            return self.lit(e.value), "str"
        if isinstance(e, ast.Name):
            if e.id not in env:
                self.fail(e, "unknown name")
            return env[e.id]
        if isinstance(e, ast.Attribute) and isinstance(e.value, ast.Name):
            o = e.value.id
            if o == "self" and e.attr in self.kinds:
                if self.in_init:
                    if e.attr not in self.init_fields:
                        self.fail(e, "field read before it is set")
                    return self.init_fields[e.attr], self.kinds[e.attr]
                return f"({self.fld(e.attr)} self)", self.kinds[e.attr]
            if o in env and env[o][1] == "pos" and e.attr in POS_ATTRS:
                return f"({POS_ATTRS[e.attr]} {env[o][0]})", "int"
        if isinstance(e, ast.Call) and isinstance(e.func, ast.Name) and e.func.id == "str" and len(e.args) == 1 and not e.keywords:
            t, k = self.expr(e.args[0], env)
            if k != "int":
                self.fail(e, "str() of something that is not an integer")
            return f"(src_str {t})", "str"
        if isinstance(e, ast.Call) and isinstance(e.func, ast.Attribute) and e.func.attr == "format" \
                and isinstance(e.func.value, ast.Constant) and isinstance(e.func.value.value, str) and not e.keywords:
            pieces = e.func.value.value.split("{}")
            if "{" in "".join(pieces) or "}" in "".join(pieces) or len(pieces) != len(e.args) + 1:
                self.fail(e, "format string outside the subset (only positional {} fields)")
            parts = []
            for i, a in enumerate(e.args):
                if pieces[i]:
                    parts.append(self.lit(pieces[i]))
                t, k = self.expr(a, env)
                if k != "str":
                    self.fail(a, "format argument that is not a string")
                parts.append(t)
            if pieces[-1]:
                parts.append(self.lit(pieces[-1]))
            return "(" + " ++ ".join(parts) + ")", "str"
        if isinstance(e, ast.Call) and isinstance(e.func, ast.Attribute) and e.func.attr == "join" \
                and isinstance(e.func.value, ast.Attribute) and e.func.value.attr == "path" \
                and isinstance(e.func.value.value, ast.Name) and e.func.value.value.id == "os" and len(e.args) >= 2 and not e.keywords:
            ts = []
            for a in e.args:
                t, k = self.expr(a, env)
                if k != "str":
                    self.fail(a, "os.path.join argument that is not a string")
                ts.append(t)
            acc = ts[0]
            for t in ts[1:]:
                acc = f"(src_join {acc} {t})"
            return acc, "str"
        if isinstance(e, ast.BoolOp) and isinstance(e.op, ast.Or) and len(e.values) == 2:
            (a, ka), (b, kb) = self.expr(e.values[0], env), self.expr(e.values[1], env)
            if ka == "ostr" and kb == "str":
                return f"(src_or {a} {b})", "str"
        if isinstance(e, ast.Compare) and len(e.ops) == 1 and isinstance(e.ops[0], ast.Eq):
            (a, ka), (b, kb) = self.expr(e.left, env), self.expr(e.comparators[0], env)
            if ka == kb == "str":
                return f"(String.eqb {a} {b})", "bool"
        self.fail(e, "expression outside the subset")

    def is_makedirs(self, s):
        def call(x):
            return isinstance(x, ast.Expr) and isinstance(x.value, ast.Call) and isinstance(x.value.func, ast.Attribute) \
                and x.value.func.attr == "makedirs" and isinstance(x.value.func.value, ast.Name) and x.value.func.value.id == "os"
        if call(s):
            return True
        return isinstance(s, ast.If) and not s.orelse and isinstance(s.test, ast.Name) and s.test.id == "makedirs" \
            and all(call(b) for b in s.body)

    # -- statements
    def block(self, stmts, env):
        if not stmts:
            if self.in_init:
                missing = [f for f in self.fields if f not in self.init_fields]
                if missing:
                    self.fail(self.node, f"__init__ leaves fields unset on some path: {missing}")
                return "Some (mkPIO " + " ".join(self.init_fields[f] for f in self.fields) + ")"
            self.fail(self.node, "function may fall off its end")
        s, rest = stmts[0], stmts[1:]
        if isinstance(s, ast.Expr) and isinstance(s.value, ast.Constant) and isinstance(s.value.value, str):
            return self.block(rest, env)
        if self.is_makedirs(s):
            return self.block(rest, env)
        if isinstance(s, ast.Raise):
            return "None"
        if isinstance(s, ast.Return) and s.value is not None:
            v = s.value
            # dispatch through a method-valued field
            if isinstance(v, ast.Call) and isinstance(v.func, ast.Attribute) and isinstance(v.func.value, ast.Name) \
                    and v.func.value.id == "self" and self.kinds.get(v.func.attr) == "method":
                arms = []
                for tag in self.method_tags:
                    fd = self.methods[tag]
                    ps = [a.arg for a in fd.args.args][1:]
                    given = {}
                    for p, a in zip(ps, v.args):
                        given[p] = a
                    for kw in v.keywords:
                        if kw.arg not in ps or kw.arg in given:
                            self.fail(v, "keyword of a dispatched call")
                        given[kw.arg] = kw.value
                    if set(given) != set(ps):
                        self.fail(v, "dispatched call does not give every parameter")
                    args = []
                    for p in ps:
                        if p == "makedirs":
                            continue
                        args.append(self.expr(given[p], env)[0])
                    arms.append(f"| M{tag} => src_PyramidIO{tag} self {' '.join(args)}")
                return f"match ({self.fld(v.func.attr)} self) with " + " ".join(arms) + " end"
            t, k = self.expr(v, env)
            return f"Some {t}"
        if isinstance(s, ast.Assign) and len(s.targets) == 1:
            tg = s.targets[0]
            if isinstance(tg, ast.Name):
                t, k = self.expr(s.value, env)
                g = self.fresh(tg.id)
                env2 = dict(env)
                env2[tg.id] = (g, k)
                return f"let {g} := {t} in " + self.block(rest, env2)
            if isinstance(tg, ast.Attribute) and isinstance(tg.value, ast.Name) and tg.value.id == "self" and self.in_init:
                if self.kinds[tg.attr] == "method":
                    t = "M" + s.value.attr
                else:
                    t, k = self.expr(s.value, env)
                    if k != "str":
                        self.fail(s, "string field assigned something that is not a string")
                g = self.fresh("self" + tg.attr)
                saved = dict(self.init_fields)
                self.init_fields[tg.attr] = g
                r = f"let {g} := {t} in " + self.block(rest, env)
                self.init_fields = saved
                return r
        if isinstance(s, ast.If):
            # `if default_format is None:` -> the directory scan is an oracle
            if self.in_init and isinstance(s.test, ast.Compare) and isinstance(s.test.left, ast.Name) \
                    and len(s.test.ops) == 1 and isinstance(s.test.ops[0], ast.Is) \
                    and isinstance(s.test.comparators[0], ast.Constant) and s.test.comparators[0].value is None and not s.orelse:
                nm = s.test.left.id
                if nm not in env or env[nm][1] != "ostr":
                    self.fail(s, "`is None` test on something that is not an optional string")
                for n in ast.walk(s):
                    if isinstance(n, (ast.Assign, ast.AugAssign)):
                        tgts = n.targets if isinstance(n, ast.Assign) else [n.target]
                        for t in tgts:
                            if not (isinstance(t, ast.Name) and t.id in (nm, "extension")):
                                self.fail(n, "the format-guessing block assigns something other than the format")
                    if isinstance(n, (ast.Return, ast.Raise)):
                        self.fail(n, "the format-guessing block returns or raises")
                if "base_dir" not in env or "tile_pattern" not in env:
                    self.fail(s, "format guessing without base_dir / tile_pattern")
                g = self.fresh(nm)
                env2 = dict(env)
                env2[nm] = (g, "str")
                return (f"let {g} := match {env[nm][0]} with Some f => f | None => "
                        f"src_guess_format {env['base_dir'][0]} {env['tile_pattern'][0]} end in " + self.block(rest, env2))
            c, k = self.expr(s.test, env)
            if k != "bool":
                self.fail(s, "condition that is not a comparison")
            return f"if {c} then ({self.block(list(s.body) + rest, env)}) else ({self.block(list(s.orelse) + rest, env)})"
        self.fail(s, "statement outside the subset")

    def method(self, name):
        fd = self.methods[name]
        self.node = fd
        self.in_init = name == "__init__"
        self.init_fields = {}
        a = fd.args
        if a.vararg or a.kwarg or a.kwonlyargs:
            self.fail(fd, "signature outside the subset")
        ps = [x.arg for x in a.args]
        if ps[0] != "self":
            self.fail(fd, "method without self")
        ps = ps[1:]
        defaults = dict(zip(ps[len(ps) - len(a.defaults):], a.defaults))
        env, sig, extra = {}, [], []
        for p in ps:
            if p == "makedirs":
                continue                      # only steers os.makedirs, which is dropped
            d = defaults.get(p)
            if p == "pos":
                env[p] = (p, "pos"); sig.append(f"({p} : spos)")
            elif d is not None and isinstance(d, ast.Constant) and d.value is None:
                env[p] = (p, "ostr"); sig.append(f"({p} : option string)")
            else:
                env[p] = (p, "str"); sig.append(f"({p} : string)")
                if d is not None:
                    if not (isinstance(d, ast.Constant) and isinstance(d.value, str)):
                        self.fail(fd, "default value outside the subset")
                    extra.append(f"Definition src_PyramidIO_default_{p} : string := {self.lit(d.value)}.\n")
        body = self.block(fd.body, env)
        nm = "_init" if self.in_init else name if name.startswith("_") else "_" + name
        slf = "" if self.in_init else "(self : spio) "
        return "".join(extra) + f"Definition src_PyramidIO{nm} {slf}{' '.join(sig)} :=\n  {body}.\n"

    def run(self):
        out = ["Inductive src_method := " + " | ".join("M" + t for t in self.method_tags) + ".\n"]
        out.append("Record spio := mkPIO { " + "; ".join(
            f"{self.fld(f)} : {'src_method' if self.kinds[f] == 'method' else 'string'}" for f in self.fields) + " }.\n")
        out.append("Section WithFileSystem.\n(* the directory scan that guesses the format when none is given: an oracle *)\n"
                   "Variable src_guess_format : string -> string -> string.\n")
        order = ["_tile_path_LsYsYX", "_tile_path_LXY", "tile_path", "get_path_scheme", "__init__"]
        order = [t for t in self.method_tags if t not in order] + order
        for m in order:
            out.append(self.method(m))
        out.append("End WithFileSystem.\n")
        return "\n".join(out)


PATH_HEADER = """(* GENERATED by harness/py2coq.py from {path} -- do not edit; regenerated on every run. *)
From Coq Require Import ZArith String List Bool.
From Toasty Require Import Model.SrcPrelude.
Import ListNotations.
Local Open Scope string_scope.

"""


def translate_paths(repo):
    """Gallina text for the tile naming of class PyramidIO in <repo>/toasty/pyramid.py (raises Unsupported)."""
    import os
    t = PathTranslator(open(os.path.join(str(repo), "toasty", "pyramid.py")).read())
    return PATH_HEADER.format(path="toasty/pyramid.py (class PyramidIO: tile naming)") + t.run()


# ---------------------------------------------------------------------------------------------
# toasty/fits_tiler.py: the orchestration of FitsTiler._tile_toast as a script of calls

class ScriptTranslator:
    """FitsTiler._tile_toast as a function from (images, start given by the caller, parallel, cli_progress)
    to the list of calls it makes on self.builder, with their arguments as symbolic values (sval, in
    Model/SrcPrelude.v): `x.attr` is SAttr "attr" x, `x.m()` is SCallM "m" x, `Cls(k=v, ...)` is
    SNew "Cls" [...], the loop variable is SImg image, integers / optional integers / booleans are
    SZ / SOptZ / SB, an inner `def` that closes over a list is SClosure "name" that-list (its body is
    translated separately, a for loop with early returns becoming src_first_some), `a, b = x._naxis` binds
    SIdx 0 / SIdx 1 of SAttr "_naxis" x.  Statement forms (anything else fails, fail closed):
      N = kwargs.pop("lit", None)                       -> the parameter given_lit : option Z
      if N is None: N = k; for V in self.coll.images(): (ifs and assignments computing N)
                                                          -> a fold_left over the images from k
      if cli_progress: print(...) / import ...; bare print / from-import      -> dropped (no result)
      L = []                                             -> a list filled by L.append(x) in the next loop
      for V in self.coll.images(): locals; self.builder.m(...); L.append(x); W = expr
                                                          -> one call per image (map), L = map ..., W of the LAST image
      def f(tile): for g in L: if g(tile): return True ... return False   -> closure over L
      self.builder.m(...)                                -> one call
    With no image the loop leaves W unbound and its later use raises: the script is None then."""

    def __init__(self, source):
        self.tree = ast.parse(source)
        cls = [n for n in self.tree.body if isinstance(n, ast.ClassDef) and n.name == "FitsTiler"]
        if len(cls) != 1:
            raise Unsupported("class FitsTiler not found")
        fds = [n for n in cls[0].body if isinstance(n, ast.FunctionDef) and n.name == "_tile_toast"]
        if len(fds) != 1:
            raise Unsupported("FitsTiler._tile_toast not found")
        self.fd = fds[0]
        a = self.fd.args
        if [x.arg for x in a.args] != ["self", "cli_progress", "parallel"] or a.vararg or a.kwonlyargs or a.defaults \
                or a.kwarg is None or a.kwarg.arg != "kwargs":
            raise Unsupported("signature of _tile_toast outside the subset")
        self.counter = 0
        self.defs = []

    def fail(self, node, why):
        raise Unsupported(f"line {getattr(node, 'lineno', '?')}: {why}: {ast.dump(node)[:140]}")

    def fresh(self, b):
        self.counter += 1
        return f"{b}_{self.counter}"

    @staticmethod
    def lit(sv):
        return '"' + sv.replace('"', '""') + '"'

    def is_images(self, e):
        return (isinstance(e, ast.Call) and not e.args and not e.keywords and isinstance(e.func, ast.Attribute)
                and e.func.attr == "images" and isinstance(e.func.value, ast.Attribute) and e.func.value.attr == "coll"
                and isinstance(e.func.value.value, ast.Name) and e.func.value.value.id == "self")

    def effect_only(self, s):
        if isinstance(s, (ast.Import, ast.ImportFrom)):
            return True
        if isinstance(s, ast.Expr) and isinstance(s.value, ast.Call) and isinstance(s.value.func, ast.Name) and s.value.func.id == "print":
            return True
        if isinstance(s, ast.Expr) and isinstance(s.value, ast.Constant) and isinstance(s.value.value, str):
            return True
        if isinstance(s, ast.If) and not s.orelse and isinstance(s.test, ast.Name) and s.test.id == "cli_progress":
            return all(self.effect_only(b) for b in s.body)
        return False

    # symbolic value of an expression; env: name -> (term, kind) with kind sval | Z | list
    def sval(self, e, env):
        if isinstance(e, ast.Name):
            if e.id not in env:
                self.fail(e, "unknown name")
            t, k = env[e.id]
            return {"sval": t, "Z": f"(SZ {t})", "optZ": f"(SOptZ {t})", "bool": f"(SB {t})", "image": f"(SImg {t})",
                    "closure": t}.get(k) or self.fail(e, f"a {k} used as a value")
        if isinstance(e, ast.Attribute):
            return f"(SAttr {self.lit(e.attr)} {self.sval(e.value, env)})"
        if isinstance(e, ast.Call) and isinstance(e.func, ast.Attribute) and not e.args and not e.keywords:
            return f"(SCallM {self.lit(e.func.attr)} {self.sval(e.func.value, env)})"
        if isinstance(e, ast.Call) and isinstance(e.func, ast.Name) and not e.args:
            kws = "; ".join(f"({self.lit(k.arg)}, {self.sval(k.value, env)})" for k in e.keywords)
            return f"(SNew {self.lit(e.func.id)} [{kws}])"
        self.fail(e, "value outside the subset")

    def builder_call(self, s, env):
        c = s.value
        if not (isinstance(s, ast.Expr) and isinstance(c, ast.Call) and isinstance(c.func, ast.Attribute)
                and isinstance(c.func.value, ast.Attribute) and c.func.value.attr == "builder"
                and isinstance(c.func.value.value, ast.Name) and c.func.value.value.id == "self"):
            return None
        pos = "; ".join(self.sval(a, env) for a in c.args)
        kws = "; ".join(f"({self.lit(k.arg)}, {self.sval(k.value, env)})" for k in c.keywords)
        return f"(SCall {self.lit('builder.' + c.func.attr)} [{pos}] [{kws}])"

    # the body of the level-guessing loop: returns the new value of the state variable
    def state_body(self, stmts, env, var):
        if not stmts:
            return env[var][0]
        s, rest = stmts[0], stmts[1:]
        if isinstance(s, ast.If) and not s.orelse:
            c = self.cond(s.test, env)
            # Python: after the if, control continues with rest in both cases
            then_v = self.state_body(list(s.body) + rest, env, var)
            else_v = self.state_body(rest, env, var)
            return f"(if {c} then {then_v} else {else_v})"
        if isinstance(s, ast.Assign) and len(s.targets) == 1 and isinstance(s.targets[0], ast.Name):
            n = s.targets[0].id
            t = self.zexpr(s.value, env)
            g = self.fresh(n)
            env2 = dict(env)
            env2[n] = (g, "Z")
            return f"(let {g} := {t} in {self.state_body(rest, env2, var)})"
        self.fail(s, "statement in the level loop outside the subset")

    def cond(self, e, env):
        if isinstance(e, ast.Compare) and len(e.ops) == 1 and type(e.ops[0]) in CMPOPS:
            return f"({self.zexpr(e.left, env)} {CMPOPS[type(e.ops[0])]} {self.zexpr(e.comparators[0], env)})"
        if isinstance(e, ast.Call) and isinstance(e.func, ast.Attribute) and isinstance(e.func.value, ast.Name) \
                and env.get(e.func.value.id, (None, None))[1] == "image" and not e.args and not e.keywords:
            return f"(src_image_{e.func.attr} {env[e.func.value.id][0]})"
        self.fail(e, "condition outside the subset")

    def zexpr(self, e, env):
        if isinstance(e, ast.Constant) and isinstance(e.value, int) and not isinstance(e.value, bool):
            return str(e.value)
        if isinstance(e, ast.Name) and env.get(e.id, (None, None))[1] == "Z":
            return env[e.id][0]
        # pyramid.guess_base_layer_level(wcs=image.wcs): an oracle on the image
        if isinstance(e, ast.Call) and isinstance(e.func, ast.Attribute) and not e.args and len(e.keywords) == 1:
            kw = e.keywords[0]
            if isinstance(kw.value, ast.Attribute) and isinstance(kw.value.value, ast.Name) \
                    and env.get(kw.value.value.id, (None, None))[1] == "image" and kw.arg == kw.value.attr:
                return f"(src_{e.func.attr} {env[kw.value.value.id][0]})"
        self.fail(e, "integer expression outside the subset")

    def closure(self, fd, env):
        if len(fd.args.args) != 1 or fd.args.defaults or fd.args.vararg or fd.args.kwarg:
            self.fail(fd, "closure signature")
        arg = fd.args.args[0].arg
        body = [b for b in fd.body if not (isinstance(b, ast.Expr) and isinstance(b.value, ast.Constant))]
        if len(body) != 2 or not isinstance(body[0], ast.For) or body[0].orelse or not isinstance(body[1], ast.Return):
            self.fail(fd, "closure body outside the subset (a for loop, then a return)")
        loop, fin = body
        if not (isinstance(loop.iter, ast.Name) and env.get(loop.iter.id, (None, None))[1] == "list" and isinstance(loop.target, ast.Name)):
            self.fail(loop, "closure loop must run over the captured list")
        g = loop.target.id

        def ret(v):
            if isinstance(v, ast.Constant) and isinstance(v.value, bool):
                return "true" if v.value else "false"
            self.fail(v, "closure returns something other than True / False")

        def step(stmts):
            # value of one iteration: Some b = return b, None = go on
            if not stmts:
                return "None"
            s, rest = stmts[0], stmts[1:]
            if isinstance(s, ast.Return):
                return f"Some {ret(s.value)}"
            if isinstance(s, ast.If) and not s.orelse and isinstance(s.test, ast.Call) and isinstance(s.test.func, ast.Name) \
                    and s.test.func.id == g and len(s.test.args) == 1 and isinstance(s.test.args[0], ast.Name) and s.test.args[0].id == arg:
                return f"(if {g} {arg} then {step(list(s.body) + rest)} else {step(rest)})"
            self.fail(s, "closure loop body outside the subset")
        name = f"src_tile_toast_{fd.name}"
        self.defs.append(f"Definition {name} {{tile_t : Type}} ({loop.iter.id} : list (tile_t -> bool)) ({arg} : tile_t) : bool :=\n"
                         f"  match src_first_some (fun {g} : tile_t -> bool => {step(list(loop.body))}) {loop.iter.id} with Some b => b | None => {ret(fin.value)} end.\n")
        return loop.iter.id

    def run(self):
        env = {"cli_progress": ("cli_progress", "bool"), "parallel": ("parallel", "optZ")}
        params = []
        stmts = [s for s in self.fd.body]
        lets = []
        events = []          # list of Gallina terms of type list sevent
        needs_last = None
        i = 0
        pending_list = None
        while i < len(stmts):
            s = stmts[i]
            i += 1
            if self.effect_only(s):
                continue
            # N = kwargs.pop("lit", None)
            if isinstance(s, ast.Assign) and len(s.targets) == 1 and isinstance(s.targets[0], ast.Name) and isinstance(s.value, ast.Call) \
                    and isinstance(s.value.func, ast.Attribute) and s.value.func.attr == "pop" and isinstance(s.value.func.value, ast.Name) \
                    and s.value.func.value.id == "kwargs" and len(s.value.args) == 2 and isinstance(s.value.args[0], ast.Constant) \
                    and isinstance(s.value.args[1], ast.Constant) and s.value.args[1].value is None:
                p = "given_" + s.value.args[0].value
                params.append(p)
                env[s.targets[0].id] = (p, "optZ")
                continue
            # if N is None: N = k; for ...: ...
            if isinstance(s, ast.If) and not s.orelse and isinstance(s.test, ast.Compare) and isinstance(s.test.left, ast.Name) \
                    and len(s.test.ops) == 1 and isinstance(s.test.ops[0], ast.Is) and isinstance(s.test.comparators[0], ast.Constant) \
                    and s.test.comparators[0].value is None and env.get(s.test.left.id, (None, None))[1] == "optZ":
                var = s.test.left.id
                body = [b for b in s.body if not self.effect_only(b)]
                if len(body) != 2 or not (isinstance(body[0], ast.Assign) and isinstance(body[0].targets[0], ast.Name)
                                          and body[0].targets[0].id == var and isinstance(body[0].value, ast.Constant)
                                          and isinstance(body[0].value.value, int)) \
                        or not (isinstance(body[1], ast.For) and not body[1].orelse and self.is_images(body[1].iter)
                                and isinstance(body[1].target, ast.Name)):
                    self.fail(s, "default computation outside the subset")
                init = body[0].value.value
                lv = body[1].target.id
                a, im = self.fresh(var), self.fresh(lv)
                benv = dict(env)
                benv[var] = (a, "Z")
                benv[lv] = (im, "image")
                step = self.state_body(list(body[1].body), benv, var)
                g = self.fresh(var)
                lets.append(f"let {g} := match {env[var][0]} with Some v => v | None => "
                            f"fold_left (fun {a} {im} => {step}) images {init} end in")
                env[var] = (g, "Z")
                continue
            # L = []
            if isinstance(s, ast.Assign) and len(s.targets) == 1 and isinstance(s.targets[0], ast.Name) \
                    and isinstance(s.value, ast.List) and not s.value.elts:
                pending_list = s.targets[0].id
                continue
            # the main loop
            if isinstance(s, ast.For) and not s.orelse and self.is_images(s.iter) and isinstance(s.target, ast.Name):
                lv = s.target.id
                im = self.fresh(lv)
                benv = dict(env)
                benv[lv] = (im, "image")
                call = appended = None
                last_assign = {}
                for b in s.body:
                    if self.effect_only(b):
                        continue
                    bc = self.builder_call(b, benv) if isinstance(b, ast.Expr) else None
                    if bc is not None:
                        if call is not None:
                            self.fail(b, "more than one builder call per image")
                        call = bc
                        continue
                    if isinstance(b, ast.Expr) and isinstance(b.value, ast.Call) and isinstance(b.value.func, ast.Attribute) \
                            and b.value.func.attr == "append" and isinstance(b.value.func.value, ast.Name) \
                            and b.value.func.value.id == pending_list and len(b.value.args) == 1:
                        if appended is not None:
                            self.fail(b, "two appends per image")
                        appended = self.sval(b.value.args[0], benv)
                        continue
                    if isinstance(b, ast.Assign) and len(b.targets) == 1 and isinstance(b.targets[0], ast.Name):
                        n = b.targets[0].id
                        v = self.sval(b.value, benv)
                        if call is None and appended is None:
                            benv[n] = (v, "sval")          # a local of the iteration (before the call)
                        else:
                            last_assign[n] = v            # survives the loop: the value of the last iteration
                        continue
                    self.fail(b, "statement in the image loop outside the subset")
                if call is None:
                    self.fail(s, "image loop without a builder call")
                events.append(f"map (fun {im} => {call}) images")
                if pending_list is not None:
                    if appended is None:
                        self.fail(s, "the list is never appended to")
                    g = self.fresh(pending_list)
                    lets.append(f"let {g} := map (fun {im} => {appended}) images in")
                    env[pending_list] = (g, "list")
                    pending_list = None
                for n, v in last_assign.items():
                    g = self.fresh(n)
                    lets.append(f"let {g} := (fun {im} => {v}) last_image in")
                    env[n] = (g, "sval")
                    needs_last = True
                continue
            # def f(tile): ...
            if isinstance(s, ast.FunctionDef):
                captured = self.closure(s, env)
                env[s.name] = (f"(SClosure {self.lit(s.name)} {env[captured][0]})", "closure")
                continue
            # a, b = x._naxis
            if isinstance(s, ast.Assign) and len(s.targets) == 1 and isinstance(s.targets[0], ast.Tuple) \
                    and all(isinstance(x, ast.Name) for x in s.targets[0].elts) and isinstance(s.value, ast.Attribute):
                v = self.sval(s.value, env)
                for k, x in enumerate(s.targets[0].elts):
                    env[x.id] = (f"(SIdx {k} {v})", "sval")
                continue
            bc = self.builder_call(s, env) if isinstance(s, ast.Expr) else None
            if bc is not None:
                events.append(f"[{bc}]")
                continue
            self.fail(s, "statement outside the subset")
        body = " ++ ".join(f"({e})" for e in events) if events else "[]"
        inner = " ".join(lets) + " Some (" + body + ")"
        if needs_last:
            inner = f"match rev images with [] => None | last_image :: _ => {inner} end"
        ptxt = " ".join(f"({p} : option Z)" for p in params)
        out = list(self.defs)
        out.append("Section WithImages.\nVariable image : Type.\n(* image.has_wcs() and pyramid.guess_base_layer_level(wcs=image.wcs): oracles on an image *)\n"
                   "Variable src_image_has_wcs : image -> bool.\nVariable src_guess_base_layer_level : image -> Z.\n")
        out.append(f"Definition src_tile_toast (images : list image) (cli_progress : bool) (parallel : option Z) {ptxt}\n"
                   f"  : option (list (sevent image)) :=\n  {inner}.\n")
        out.append("End WithImages.\n")
        return "\n".join(out)


def translate_script(repo):
    """Gallina text for the orchestration of FitsTiler._tile_toast in <repo>/toasty/fits_tiler.py (raises Unsupported)."""
    import os
    t = ScriptTranslator(open(os.path.join(str(repo), "toasty", "fits_tiler.py")).read())
    hdr = PATH_HEADER.format(path="toasty/fits_tiler.py (FitsTiler._tile_toast: the calls it makes)").replace(
        "Local Open Scope string_scope.", "Local Open Scope string_scope.\nLocal Open Scope Z_scope.\nLocal Open Scope list_scope.")
    return hdr + t.run()


# ---------------------------------------------------------------------------------------------
# toasty/cli.py: the *_impl functions of the command line as decision trees of calls

class ImplTranslator:
    """A command-line `*_impl(settings)` function as a decision tree (stree, Model/SrcPrelude.v) whose
    inner nodes are the tests it makes on its settings (`x is None`, `x is not None`, `x == "lit"`, `if x:`) and
    whose leaves are the calls made on that path, in order, with symbolic arguments: settings.a is
    SAttr "a" (SName "settings"), Cls(p, k=v) is SNewP "Cls" [p] [("k", v)], r.m(p, k=v) is SCallA "m" r [p]
    [("k", v)] as a value and the event SMethod r "m" [p] [("k", v)] as a statement, a name imported inside the
    function is SName, None / strings / booleans / integers are SNoneV / SStr / SB / SZ; a local
    assigned on a path has the value assigned on that path.  A `with ctx():` block without a target runs
    its body in place.  die(...) ends a path (TDie), a bare return
    or the end of the body ends it normally (TDone).  Imports and print calls are dropped.  Anything
    else fails (fail closed)."""

    def __init__(self, source, name, assign_events=False):
        # assign_events: `x = recv.m(args)` is also recorded as the event SMethod recv "m" args (the call
        # is made on that path whether or not x is used later); off for the functions translated before
        # this was added, whose assigned calls are all argument-free loaders used on every path
        self.assign_events = assign_events
        self.tree = ast.parse(source)
        fds = [n for n in self.tree.body if isinstance(n, ast.FunctionDef) and n.name == name]
        if len(fds) != 1:
            raise Unsupported(f"function {name} not found in cli.py")
        self.fd = fds[0]
        if [a.arg for a in self.fd.args.args] != ["settings"] or self.fd.args.vararg or self.fd.args.kwarg or self.fd.args.defaults:
            raise Unsupported(f"signature of {name} outside the subset")
        self.imported = set()
        for n in ast.walk(self.fd):
            if isinstance(n, (ast.ImportFrom, ast.Import)):
                self.imported.update(a.asname or a.name for a in n.names)
        # modules imported at the top of cli.py (os, warnings, ...) may be named, not called as constructors
        self.modules = set()
        for n in self.tree.body:
            if isinstance(n, ast.Import):
                self.modules.update((a.asname or a.name).split(".")[0] for a in n.names)

    def fail(self, node, why):
        raise Unsupported(f"line {getattr(node, 'lineno', '?')}: {why}: {ast.dump(node)[:140]}")

    @staticmethod
    def lit(sv):
        return '"' + sv.replace('"', '""') + '"'

    def sval(self, e, env):
        if isinstance(e, ast.Constant):
            if e.value is None:
                return "SNoneV"
            if isinstance(e.value, bool):
                return f"(SB {'true' if e.value else 'false'})"
            if isinstance(e.value, int):
                return f"(SZ {e.value})" if e.value >= 0 else f"(SZ ({e.value}))"
            if isinstance(e.value, str):
                return f"(SStr {self.lit(e.value)})"
        if isinstance(e, ast.Name):
            if e.id in env:
                return env[e.id]
            if e.id == "settings" or e.id in self.imported or e.id in self.modules:
                return f"(SName {self.lit(e.id)})"
            self.fail(e, "unknown name")
        if isinstance(e, ast.Attribute):
            return f"(SAttr {self.lit(e.attr)} {self.sval(e.value, env)})"
        if isinstance(e, ast.Call) and isinstance(e.func, ast.Name) and e.func.id in self.imported:
            pos = "; ".join(self.sval(a, env) for a in e.args)
            kws = "; ".join(f"({self.lit(k.arg)}, {self.sval(k.value, env)})" for k in e.keywords)
            return f"(SNewP {self.lit(e.func.id)} [{pos}] [{kws}])"
        if isinstance(e, ast.Call) and isinstance(e.func, ast.Attribute):          # recv.m(args)
            pos = "; ".join(self.sval(a, env) for a in e.args)
            kws = "; ".join(f"({self.lit(k.arg)}, {self.sval(k.value, env)})" for k in e.keywords)
            return f"(SCallA {self.lit(e.func.attr)} {self.sval(e.func.value, env)} [{pos}] [{kws}])"
        self.fail(e, "value outside the subset")

    def run_block(self, stmts, env, calls):
        if not stmts:
            return f"(TDone [{'; '.join(calls)}])"
        s, rest = stmts[0], stmts[1:]
        if isinstance(s, (ast.Import, ast.ImportFrom)):
            return self.run_block(rest, env, calls)
        if isinstance(s, ast.Expr) and isinstance(s.value, ast.Constant):
            return self.run_block(rest, env, calls)
        if isinstance(s, ast.Return) and s.value is None:
            return f"(TDone [{'; '.join(calls)}])"
        if isinstance(s, ast.With) and all(w.optional_vars is None for w in s.items):
            # `with ctx():` without a target: the context manager is entered (recorded as a value-less
            # event is not needed for plumbing), the body runs in place
            return self.run_block(list(s.body) + rest, env, calls)
        if isinstance(s, ast.Expr) and isinstance(s.value, ast.Call) and isinstance(s.value.func, ast.Name):
            fn = s.value.func.id
            if fn == "print":
                return self.run_block(rest, env, calls)
            if fn == "die":
                return f"(TDie [{'; '.join(calls)}])"
            if fn not in self.imported:
                self.fail(s, "call of something that was not imported in the function")
            pos = "; ".join(self.sval(a, env) for a in s.value.args)
            kws = "; ".join(f"({self.lit(k.arg)}, {self.sval(k.value, env)})" for k in s.value.keywords)
            return self.run_block(rest, env, calls + [f"(SCall {self.lit(fn)} [{pos}] [{kws}])"])
        if isinstance(s, ast.Expr) and isinstance(s.value, ast.Call) and isinstance(s.value.func, ast.Attribute):
            c = s.value
            pos = "; ".join(self.sval(a, env) for a in c.args)
            kws = "; ".join(f"({self.lit(k.arg)}, {self.sval(k.value, env)})" for k in c.keywords)
            ev = f"(SMethod {self.sval(c.func.value, env)} {self.lit(c.func.attr)} [{pos}] [{kws}])"
            return self.run_block(rest, env, calls + [ev])
        if isinstance(s, ast.Assign) and len(s.targets) == 1 and isinstance(s.targets[0], ast.Name):
            env2 = dict(env)
            env2[s.targets[0].id] = self.sval(s.value, env)
            if self.assign_events and isinstance(s.value, ast.Call) and isinstance(s.value.func, ast.Attribute):
                c = s.value
                pos = "; ".join(self.sval(a, env) for a in c.args)
                kws = "; ".join(f"({self.lit(k.arg)}, {self.sval(k.value, env)})" for k in c.keywords)
                calls = calls + [f"(SMethod {self.sval(c.func.value, env)} {self.lit(c.func.attr)} [{pos}] [{kws}])"]
            return self.run_block(rest, env2, calls)
        if isinstance(s, ast.If):
            t = s.test
            yes, no = list(s.body) + rest, list(s.orelse) + rest
            if isinstance(t, ast.Attribute):                                        # `if settings.flag:`
                return f"(TIfTrue {self.sval(t, env)} {self.run_block(yes, env, calls)} {self.run_block(no, env, calls)})"
            if isinstance(t, ast.Compare) and len(t.ops) == 1 and isinstance(t.comparators[0], ast.Constant):
                v = self.sval(t.left, env)
                c = t.comparators[0].value
                if isinstance(t.ops[0], ast.Is) and c is None:
                    return f"(TIfNone {v} {self.run_block(yes, env, calls)} {self.run_block(no, env, calls)})"
                if isinstance(t.ops[0], ast.IsNot) and c is None:
                    return f"(TIfNone {v} {self.run_block(no, env, calls)} {self.run_block(yes, env, calls)})"
                if isinstance(t.ops[0], ast.Eq) and isinstance(c, str):
                    return f"(TIfEq {v} {self.lit(c)} {self.run_block(yes, env, calls)} {self.run_block(no, env, calls)})"
            self.fail(s, "test outside the subset")
        self.fail(s, "statement outside the subset")

    def run(self):
        body = self.run_block(list(self.fd.body), {}, [])
        return f"Definition src_cli_{self.fd.name} : stree unit :=\n  {body}.\n"


CLI_HEADER = """(* GENERATED by harness/py2coq.py from toasty/cli.py ({names}) -- do not edit; regenerated on every run. *)
From Coq Require Import ZArith String List Bool.
From Toasty Require Import Model.SrcPrelude.
Import ListNotations.
Local Open Scope string_scope.
Local Open Scope Z_scope.
Local Open Scope list_scope.

"""


def translate_cli(repo, names, assign_events=False):
    import os
    src = open(os.path.join(str(repo), "toasty", "cli.py")).read()
    return CLI_HEADER.format(names=", ".join(names)) + "\n".join(ImplTranslator(src, n, assign_events).run() for n in names)


def translate_cli_cascade(repo):
    """Gallina text for cli.cascade_impl (raises Unsupported)"""
    return translate_cli(repo, ["cascade_impl"])


def translate_cli_transform(repo):
    """Gallina text for cli.transform_impl (raises Unsupported)"""
    return translate_cli(repo, ["transform_impl"])


def translate_cli_allsky(repo):
    """Gallina text for cli.tile_allsky_impl (raises Unsupported)"""
    return translate_cli(repo, ["tile_allsky_impl"])


def translate_cli_multi_tan(repo):
    """Gallina text for cli.tile_multi_tan_impl and cli.view_locally (raises Unsupported)"""
    return translate_cli(repo, ["tile_multi_tan_impl", "view_locally"])


# ---------------------------------------------------------------------------------------------
# toasty/builder.py: straight-line methods of class Builder as scripts of calls and attribute stores

BUILDER_METHODS = ["__init__", "set_name", "prepare_study_tiling", "execute_study_tiling", "tile_base_as_study"]


class MethodTranslator(ImplTranslator):
    """A method of class Builder in the reading of ImplTranslator, extended by: parameters (self included) are
    SName "<param>"; `**kwargs` in a call is the keyword ("**", SName "kwargs"); `a + b` is
    SCallA "__add__" a [b] []; an attribute store `t.a = v` is the event SMethod t "__setattr__" [SStr "a"; v] [];
    `return v` is the event SCall "return" [v] [] and ends the path; names imported at the top of builder.py may
    be called as constructors; assigned method calls are recorded as events."""

    def __init__(self, source, cls, name):
        self.assign_events = True
        self.tree = ast.parse(source)
        cds = [n for n in self.tree.body if isinstance(n, ast.ClassDef) and n.name == cls]
        if len(cds) != 1:
            raise Unsupported(f"class {cls} not found")
        fds = [n for n in cds[0].body if isinstance(n, ast.FunctionDef) and n.name == name]
        if len(fds) != 1:
            raise Unsupported(f"method {cls}.{name} not found")
        self.fd = fds[0]
        a = self.fd.args
        if a.vararg or a.defaults or a.kwonlyargs or a.posonlyargs or not a.args or a.args[0].arg != "self":
            raise Unsupported(f"signature of {cls}.{name} outside the subset")
        self.params = [x.arg for x in a.args] + ([a.kwarg.arg] if a.kwarg else [])
        self.kwarg = a.kwarg.arg if a.kwarg else None
        self.imported = set()
        for n in list(ast.walk(self.fd)) + list(self.tree.body):
            if isinstance(n, ast.ImportFrom):
                self.imported.update(x.asname or x.name for x in n.names)
        self.modules = set()
        self.cls = cls

    def kwlist(self, call, env):
        out = []
        for k in call.keywords:
            if k.arg is None:
                if not (isinstance(k.value, ast.Name) and k.value.id == self.kwarg):
                    self.fail(call, "** of something other than the method's own **kwargs")
                out.append(f'("**", (SName {self.lit(k.value.id)}))')
            else:
                out.append(f"({self.lit(k.arg)}, {self.sval(k.value, env)})")
        return "; ".join(out)

    def sval(self, e, env):
        if isinstance(e, ast.Name) and e.id not in env and e.id in self.params:
            return f"(SName {self.lit(e.id)})"
        if isinstance(e, ast.BinOp) and isinstance(e.op, ast.Add):
            return f"(SCallA \"__add__\" {self.sval(e.left, env)} [{self.sval(e.right, env)}] [])"
        if isinstance(e, ast.Call) and isinstance(e.func, ast.Name) and e.func.id in self.imported:
            pos = "; ".join(self.sval(a, env) for a in e.args)
            return f"(SNewP {self.lit(e.func.id)} [{pos}] [{self.kwlist(e, env)}])"
        if isinstance(e, ast.Call) and isinstance(e.func, ast.Attribute):
            pos = "; ".join(self.sval(a, env) for a in e.args)
            return f"(SCallA {self.lit(e.func.attr)} {self.sval(e.func.value, env)} [{pos}] [{self.kwlist(e, env)}])"
        return super().sval(e, env)

    def run_block(self, stmts, env, calls):
        if stmts:
            s, rest = stmts[0], stmts[1:]
            if isinstance(s, ast.Return) and s.value is not None:
                ev = f"(SCall \"return\" [{self.sval(s.value, env)}] [])"
                return f"(TDone [{'; '.join(calls + [ev])}])"
            if isinstance(s, ast.Assign) and len(s.targets) == 1 and isinstance(s.targets[0], ast.Attribute):
                t = s.targets[0]
                ev = (f"(SMethod {self.sval(t.value, env)} \"__setattr__\" "
                      f"[(SStr {self.lit(t.attr)}); {self.sval(s.value, env)}] [])")
                return self.run_block(rest, env, calls + [ev])
            if isinstance(s, ast.Expr) and isinstance(s.value, ast.Call) and isinstance(s.value.func, ast.Attribute):
                c = s.value
                pos = "; ".join(self.sval(a, env) for a in c.args)
                ev = f"(SMethod {self.sval(c.func.value, env)} {self.lit(c.func.attr)} [{pos}] [{self.kwlist(c, env)}])"
                return self.run_block(rest, env, calls + [ev])
            if isinstance(s, ast.Assign) and len(s.targets) == 1 and isinstance(s.targets[0], ast.Name) \
                    and isinstance(s.value, ast.Call) and isinstance(s.value.func, ast.Name) and s.value.func.id in self.imported \
                    and s.value.func.id[:1].islower():
                # `x = function(args)`: a library function (lower-case name) called for its result is an event too
                c = s.value
                pos = "; ".join(self.sval(a, env) for a in c.args)
                env2 = dict(env)
                env2[s.targets[0].id] = self.sval(c, env)
                return self.run_block(rest, env2, calls + [f"(SCall {self.lit(c.func.id)} [{pos}] [{self.kwlist(c, env)}])"])
        return super().run_block(stmts, env, calls)

    def run(self):
        body = self.run_block(list(self.fd.body), {}, [])
        nm = self.fd.name.strip("_")
        return f"Definition src_{self.cls}_{nm} : stree unit :=\n  {body}.\n"


def translate_builder(repo):
    """Gallina text for the straight-line methods of class Builder in <repo>/toasty/builder.py (raises Unsupported)"""
    import os
    src = open(os.path.join(str(repo), "toasty", "builder.py")).read()
    hdr = CLI_HEADER.replace("toasty/cli.py", "toasty/builder.py").format(names="class Builder: " + ", ".join(BUILDER_METHODS))
    return hdr + "\n".join(MethodTranslator(src, "Builder", m).run() for m in BUILDER_METHODS)


def translate_cli_healpix(repo):
    """Gallina text for cli.tile_healpix_impl (raises Unsupported)"""
    return translate_cli(repo, ["tile_healpix_impl"], assign_events=True)


def translate_cli_wwtl(repo):
    """Gallina text for cli.tile_wwtl_impl (raises Unsupported)"""
    return translate_cli(repo, ["tile_wwtl_impl"], assign_events=True)


if __name__ == "__main__":
    import sys
    which = sys.argv[2] if len(sys.argv) > 2 else "pyramid"
    fn = {"pyramid": translate_pyramid, "study": translate_study, "paths": translate_paths, "script": translate_script,
          "cli_cascade": translate_cli_cascade, "cli_transform": translate_cli_transform,
          "cli_allsky": translate_cli_allsky, "cli_multi_tan": translate_cli_multi_tan,
          "cli_healpix": translate_cli_healpix, "cli_wwtl": translate_cli_wwtl, "builder": translate_builder}[which]
    sys.stdout.write(fn(sys.argv[1] if len(sys.argv) > 1 else "/repo"))
