"""Deterministic cooperative scheduler for toasty's multiprocessing code.

The unmodified toasty functions are run with `multiprocessing.Queue / Event /
Process` replaced by fakes.  Every "process" is a real thread, but exactly one
actor runs at a time; control changes hands only at sync points (queue put,
get/recv, get/timeout, Event.set, Event.is_set, close, join_thread, join) and
every choice is taken from an explicit schedule, so any interleaving can be
replayed exactly.

FakeQueue mirrors CPython's multiprocessing.queues.Queue:
  * put(): blocks on a bounded semaphore of `maxsize` that is released by get()
    (so it bounds buffer + pipe), then appends to an unbounded local buffer;
  * a feeder moves one buffered item at a time into a FIFO pipe of capacity
    `pipe_cap` items (action Flush);
  * get(True, timeout): receives iff the pipe is non-empty; raises Empty only
    when the scheduler picks the Timeout action while the pipe is empty; with
    `contention=True` also on action CTimeout, offered while the pipe is NOT
    empty and another worker is inside get() on the same queue (that worker may
    hold the reader lock for the whole timeout: `_rlock.acquire(block, timeout)`
    fails and queues.py raises Empty);
  * close() appends a sentinel; join_thread() is enabled once the buffer has
    been flushed completely.

Actions are reported as tuples: (kind, actor_index) e.g. ("Put", "M"),
("Flush", "q0"), ("Recv", "W1:q0"), ("Timeout", "W1:q0"), ("IsSet", "W1"),
("Set", "M"), ("Close", "M:q0"), ("JoinThread", "M:q0"), ("Join", "M:W2").
"""
import threading
from queue import Empty, Full


class SchedAbort(BaseException):
    """Raised inside every actor when the run is aborted (STUCK / step limit)."""


class Actor:
    def __init__(self, sched, name):
        self.sched = sched
        self.name = name
        self.go = threading.Semaphore(0)
        self.pending = None        # (kind, obj, extra)
        self.result = None
        self.exited = False
        self.exitcode = None
        self.thread = None


class Scheduler:
    def __init__(self, schedule=(), pipe_cap=1 << 30, max_steps=200000, fallback="progress", chooser=None,
                 contention=False):
        self.chooser = chooser
        # reader-lock contention: queues.py get(timeout) also raises Empty when
        # `self._rlock.acquire(block, timeout)` fails, i.e. while another process
        # sits inside get() holding the lock -- even if the pipe holds items
        self.contention = contention
        self.schedule = list(schedule)
        self.k = 0
        self.pipe_cap = pipe_cap
        self.max_steps = max_steps
        self.fallback = fallback
        self.actors = {}
        self.main = Actor(self, "M")
        self.actors["M"] = self.main
        self.queues = []
        self.events = []
        self.trace = []            # list of (sorted enabled action names, chosen action name)
        self.log = []              # harness-level event log (callbacks etc.)
        self.aborted = None
        self.steps = 0
        self.current = self.main
        self._tls = threading.local()
        self._tls.actor = self.main
        self.n_workers = 0
        self.probe = 0
        self.last_run = {}

    # -- identity -------------------------------------------------------
    def me(self):
        return getattr(self._tls, "actor", None) or self.main

    # -- enabledness ------------------------------------------------------
    def _actor_actions(self, a):
        """Enabled (name, stutter?) actions of actor a from its pending op."""
        if a.exited or a.pending is None:
            return []
        kind, obj, extra = a.pending
        who = a.name
        if kind == "put":
            q = obj
            if q.maxsize <= 0 or q.sem > 0:
                return [(("Put", f"{who}:{q.name}"), False)]
            if q.put_bounded.get(who):
                # put(block=False) or put(timeout=t) on a full queue: queue.Full may be raised
                return [(("PutTimeout", f"{who}:{q.name}"), False)]
            return []
        if kind == "get":
            q = obj
            if q.pipe:
                acts = [(("Recv", f"{who}:{q.name}"), False)]
                if self.contention and a is not self.main and any(
                        b is not a and b is not self.main and not b.exited and b.pending is not None
                        and b.pending[0] == "get" and b.pending[1] is q for b in self.actors.values()):
                    acts.append((("CTimeout", f"{who}:{q.name}"), not any(e.flag for e in self.events)))
                return acts
            # a timeout is a stutter step unless a shutdown flag is already
            # raised (then the worker's next flag test makes progress); the main
            # actor (walk dispatcher) just polls again.
            st = (a is self.main) or not any(e.flag for e in self.events)
            return [(("Timeout", f"{who}:{q.name}"), st)]
        if kind == "close":
            return [(("Close", f"{who}:{obj.name}"), False)]
        if kind == "join_thread":
            q = obj
            if who not in q.buffers or who in q.feeder_done_by:
                return [(("JoinThread", f"{who}:{q.name}"), False)]
            return []
        if kind == "exit":
            # a process exits only after its queue feeders have flushed
            if all(not q.buffers.get(who) for q in self.queues):
                return [(("Exit", who), False)]
            return []
        if kind == "set":
            return [(("Set", who), False)]
        if kind == "is_set":
            return [(("IsSet", who), not obj.flag)]
        if kind == "join":
            w = obj
            if w.exited:
                return [(("Join", f"{who}:{w.name}"), False)]
            return []
        if kind == "sleep":
            return [(("Sleep", who), True)]            # time.sleep(): a polling move
        if kind in ("vget", "vset"):
            # reading a shared value again while nobody has written it is a polling move
            st = kind == "vget" and obj.seen.get(who) == obj.version
            return [(("ValueGet" if kind == "vget" else "ValueSet", who), st)]
        if kind == "lacq":
            return [(("LockAcq", who), False)] if obj.owner is None else []
        if kind == "custom":
            # extra = (name, enabled_fn, stutter_fn)
            name, en, st = extra
            if en():
                return [((name, who), bool(st()))]
            return []
        raise AssertionError(kind)

    def enabled(self):
        acts = []
        for q in self.queues:
            for owner in sorted(q.buffers):
                buf = q.buffers[owner]
                if buf and len(q.pipe) < self.pipe_cap:
                    acts.append((("Flush", f"{q.name}@{owner}"), False, (q, owner)))
                elif owner in q.closed_by and not buf and owner not in q.feeder_done_by:
                    # sentinel consumed: that process's feeder thread finishes
                    acts.append((("FeederExit", f"{q.name}@{owner}"), False, (q, owner)))
        for a in self.actors.values():
            for name, st in self._actor_actions(a):
                acts.append((name, st, a))
        acts.sort(key=lambda t: t[0])
        return acts

    # -- the dispatch loop ----------------------------------------------
    def _choose(self, acts):
        if self.chooser is not None:
            c = self.chooser([t[0] for t in acts], [t[1] for t in acts], len(self.trace))
            if c is not None:
                return acts[c % len(acts)]
        elif self.k < len(self.schedule):
            c = self.schedule[self.k] % len(acts)
            self.k += 1
            return acts[c]
        # schedule exhausted: deterministic fair fallback
        prog = [t for t in acts if not t[1]]
        if prog:
            if self.fallback == "progress":
                return prog[0]
            return prog[self.steps % len(prog)]
        return acts[0]

    def dispatch(self):
        """Called by the thread that just reached a sync point (or exited).
        Applies feeder actions itself; grants an actor action and returns."""
        while True:
            if self.aborted:
                self._wake_all()
                return
            acts = self.enabled()
            self.steps += 1
            if not acts:
                self._abort("DEADLOCK")
                return
            if self.steps > self.max_steps:
                self._abort("STEPLIMIT")
                return
            if all(st for _n, st, _o in acts):
                # only polling moves (timeouts, flag tests that read False) are
                # enabled.  They change no shared state, but an actor's *next*
                # move may be a real one (e.g. a flag test followed by a
                # receive), so let every poller move, least recently run first;
                # if two full rounds enable nothing else the run is STUCK.
                self.probe += 1
                if self.probe > 2 * len(self.actors) + 2:
                    self._abort("STUCK")
                    return
                name, st, obj = min(acts, key=lambda t: (self.last_run.get(t[2].name, -1), t[0]))
            else:
                self.probe = 0
                name, st, obj = self._choose(acts)
            if isinstance(obj, Actor):
                self.last_run[obj.name] = self.steps
            self.trace.append((tuple(n for n, _s, _o in acts), name))
            if isinstance(obj, tuple):
                q, owner = obj
                if name[0] == "Flush":
                    q.pipe.append(q.buffers[owner].pop(0))
                else:
                    q.feeder_done_by.add(owner)
                continue
            self._apply(obj, name)
            return

    def _apply(self, a, name):
        kind, obj, extra = a.pending
        a.pending = None
        res = None
        if kind == "put":
            if name[0] == "PutTimeout":
                res = "full"
            else:
                if obj.maxsize > 0:
                    obj.sem -= 1
                obj.buffers.setdefault(a.name, []).append(extra)
        elif kind == "get":
            if name[0] == "Recv":
                res = ("item", obj.pipe.pop(0))
                if obj.maxsize > 0:
                    obj.sem += 1
            else:
                res = ("empty", None)
        elif kind == "close":
            obj.closed = True
            obj.closed_by.add(a.name)
        elif kind == "set":
            obj.flag = True
        elif kind == "is_set":
            res = obj.flag
        elif kind == "custom":
            res = name
        elif kind == "lacq":
            obj.owner = a.name
        elif kind == "vget":
            obj.seen[a.name] = obj.version
        elif kind == "vset":
            obj.__dict__["version"] = obj.version + 1
        a.result = res
        self.current = a
        a.go.release()

    def _abort(self, why):
        self.aborted = why
        self._wake_all()

    def _wake_all(self):
        for a in self.actors.values():
            if not a.exited:
                a.go.release()

    # -- called by actors -------------------------------------------------
    def sync(self, kind, obj=None, extra=None):
        a = self.me()
        if self.aborted:
            raise SchedAbort(self.aborted)
        a.pending = (kind, obj, extra)
        hb = getattr(a, "handback", None)
        if hb is not None:
            # first sync point of a freshly started worker: return the token to
            # the parent without a scheduling decision (start-up is invisible)
            a.handback = None
            hb.go.release()
        else:
            self.dispatch()
        a.go.acquire()
        if self.aborted:
            raise SchedAbort(self.aborted)
        return a.result

    def custom_sync(self, name, enabled=lambda: True, stutter=lambda: False):
        return self.sync("custom", None, (name, enabled, stutter))

    def spawn(self, target, args):
        """Create a worker actor and run it up to its first sync point."""
        idx = self.n_workers
        self.n_workers += 1
        w = Actor(self, f"W{idx}")
        self.actors[w.name] = w
        parent = self.me()

        def body():
            self._tls.actor = w
            w.go.acquire()              # wait for the initial hand-over
            code = 0
            try:
                if self.aborted:
                    raise SchedAbort(self.aborted)
                target(*args)
            except SchedAbort:
                code = -9
            except BaseException as e:  # the "process" dies with a traceback
                code = 1
                w.exc = e
                self.log.append(("crash", w.name, repr(e)))
            if code != -9 and any(w.name in q.buffers for q in self.queues) and getattr(w, "handback", None) is None:
                # process exit joins the feeder threads of the queues it wrote to
                try:
                    self.sync("exit")
                except SchedAbort:
                    code = -9
            w.exited = True
            w.exitcode = code
            w.pending = None
            hb = getattr(w, "handback", None)
            if hb is not None:
                w.handback = None
                hb.go.release()
            elif code != -9:
                self.dispatch()

        w.exc = None
        w.thread = threading.Thread(target=body, daemon=True)
        w.thread.start()
        # hand the token to the child until it reaches its first sync point
        # (or exits); it then hands the token straight back.
        w.handback = parent
        self.current = w
        w.go.release()
        parent.go.acquire()
        if self.aborted:
            raise SchedAbort(self.aborted)
        return w


class FakeQueue:
    def __init__(self, sched, maxsize=0):
        self.sched = sched
        self.maxsize = maxsize
        self.sem = maxsize
        self.buffers = {}          # per-process local buffers (each has its own feeder)
        self.pipe = []
        self.closed = False
        self.closed_by = set()
        self.feeder_done_by = set()
        self.name = f"q{len(sched.queues)}"
        self.put_bounded = {}
        sched.queues.append(self)

    def put(self, obj, block=True, timeout=None):
        if self.closed:
            raise ValueError(f"Queue {self!r} is closed")
        self.put_bounded[self.sched.me().name] = (not block) or (timeout is not None)
        if self.sched.sync("put", self, obj) == "full":
            raise Full

    def put_nowait(self, obj):
        return self.put(obj, False)

    def get_nowait(self):
        return self.get(False)

    def get(self, block=True, timeout=None):
        if self.closed and self.sched.me() is self.sched.main and False:
            raise ValueError
        r = self.sched.sync("get", self)
        if r[0] == "empty":
            raise Empty
        return r[1]

    def close(self):
        self.sched.sync("close", self)

    def join_thread(self):
        self.sched.sync("join_thread", self)

    def qsize(self):
        return sum(len(b) for b in self.buffers.values()) + len(self.pipe)

    def cancel_join_thread(self):
        pass


class FakeEvent:
    def __init__(self, sched):
        self.sched = sched
        self.flag = False
        sched.events.append(self)

    def set(self):
        self.sched.sync("set", self)

    def is_set(self):
        return self.sched.sync("is_set", self)


class FakeLock:
    """multiprocessing.Lock / the lock of a shared Value: acquisition is a scheduling point"""
    def __init__(self, sched):
        self.sched = sched
        self.owner = None

    def acquire(self, block=True, timeout=None):
        self.sched.sync("lacq", self)
        return True

    def release(self):
        self.owner = None

    def __enter__(self):
        self.acquire()
        return self

    def __exit__(self, *a):
        self.release()


class FakeValue:
    """multiprocessing.Value: every read and every write of .value is a scheduling point of its own
    (`v.value += 1` is a read followed by a write, as between real processes)"""
    def __init__(self, sched, init):
        self.__dict__["_sched"] = sched
        self.__dict__["_v"] = init
        self.__dict__["_lock"] = FakeLock(sched)
        self.__dict__["version"] = 0
        self.__dict__["seen"] = {}

    @property
    def value(self):
        self._sched.sync("vget", self)
        return self._v

    @value.setter
    def value(self, x):
        self._sched.sync("vset", self)
        self.__dict__["_v"] = x

    def get_lock(self):
        return self._lock


class FakeProcess:
    def __init__(self, sched, target=None, args=(), kwargs=None):
        self.sched = sched
        self.target = target
        self.args = args
        self.daemon = False
        self.actor = None

    def start(self):
        self.actor = self.sched.spawn(self.target, self.args)

    def join(self, timeout=None):
        self.sched.sync("join", self.actor)

    def is_alive(self):
        return self.actor is not None and not self.actor.exited

    @property
    def exitcode(self):
        if self.actor is None or not self.actor.exited:
            return None
        return self.actor.exitcode

    @property
    def name(self):
        return self.actor.name if self.actor else "unstarted"


class FakeMp:
    """Stands in for the `multiprocessing` module inside one toasty call."""

    def __init__(self, sched, real):
        self._sched = sched
        self._real = real

    def Queue(self, maxsize=0):
        return FakeQueue(self._sched, maxsize)

    def Event(self):
        return FakeEvent(self._sched)

    def Process(self, target=None, args=(), kwargs=None, **kw):
        return FakeProcess(self._sched, target, args, kwargs)

    def get_start_method(self):
        return "fork"

    def Value(self, typecode_or_type, *args, lock=True):
        return FakeValue(self._sched, args[0] if args else 0)

    def Lock(self):
        return FakeLock(self._sched)

    def __getattr__(self, name):
        return getattr(self._real, name)


def trace_chooser(names):
    """Chooser that replays a recorded list of chosen action names; falls back
    to the default policy when the recorded action is not enabled."""
    names = [tuple(n) for n in names]

    def ch(enabled, _stutter, k):
        if k < len(names) and names[k] in enabled:
            return enabled.index(names[k])
        return None
    return ch


def run_under(schedule, fn, pipe_cap=1 << 30, max_steps=200000, fallback="progress", chooser=None, pass_sched=False,
              contention=False):
    """Run fn() (a call into toasty that uses multiprocessing) under the
    scheduler.  Returns (outcome, value_or_exception, sched) with outcome in
    {"returned", "raised", "STUCK", "DEADLOCK", "STEPLIMIT"}."""
    import multiprocessing as real_mp
    import sys

    sched = Scheduler(schedule, pipe_cap=pipe_cap, max_steps=max_steps, fallback=fallback, chooser=chooser,
                      contention=contention)
    fake = FakeMp(sched, real_mp)
    saved = sys.modules["multiprocessing"]
    saved_attrs = {}
    # toasty does `import multiprocessing as mp` inside its functions, and
    # par_util does it at module level; patch both views.
    import toasty.par_util as pu
    saved_pu = pu.mp
    sys.modules["multiprocessing"] = fake
    pu.mp = fake
    # time.sleep() called by an actor is a polling move of that actor (a parent that polls a counter
    # while its workers run), not a real wait
    import time as _time
    real_sleep = _time.sleep
    main_ident = threading.get_ident()

    def sched_sleep(x):
        me = getattr(sched._tls, "actor", None)
        if (me is not None or threading.get_ident() == main_ident) and not sched.aborted:
            sched.sync("sleep")
        else:
            real_sleep(x)
    _time.sleep = sched_sleep
    try:
        try:
            v = fn(sched) if pass_sched else fn()
            out = ("returned", v)
        except SchedAbort as e:
            out = (str(e.args[0]), None)
        except Exception as e:
            out = ("raised", e)
    finally:
        _time.sleep = real_sleep
        sys.modules["multiprocessing"] = saved
        pu.mp = saved_pu
        if not sched.aborted:
            # let any still-blocked daemon threads die
            sched.aborted = "TEARDOWN"
            sched._wake_all()
    for a in sched.actors.values():
        if a.thread is not None:
            a.thread.join(timeout=5)
    return out[0], out[1], sched
