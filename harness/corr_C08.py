"""C08 correspondence: study tiling is a lossless centred partition.

Implementation side (from $TOASTY_REPO): toasty.study.StudyTiling
(__init__, compute_for_subimage, image_to_tile, count_populated_positions,
generate_populated_positions, tile_image), toasty.pyramid.PyramidIO
(write_image / read_image / path scheme), toasty.image.Image
(fill_into_maskable_buffer, is_completely_masked, save).
Model side: Model/Study.v evaluated by vm_compute.

Two families of cases:
  geometry  - tiling fields, count, tuples (all of them, or a prefix for
              tilings with astronomically many tiles), image_to_tile; compared
              inside Coq (checker `chk`);
  pixels    - real tile_image into a fresh directory per (format, mode); the
              model prints its fill rectangles (placement_flat), numpy expands
              them into expected tiles (storage orientation) and the expected
              set of files; every pixel of every tile file is compared.  The
              property's own predicate (reassembled display-orientation mosaic
              == image centred on an undefined background) is evaluated on the
              files independently of the model.
"""
import itertools
import os
import re
import shutil
import warnings

import numpy as np

import common
from common import g_Z, g_list, g_bool

TRUSTED = [
    "numpy expansion of the model's fill rectangles into 256x256 tiles (corr_C08.expand_placements)",
    "independent tile readers (numpy.load, PIL, astropy.io.fits) used to read the files through the L/Y/Y_X path scheme",
    "display orientation of a tile format: FITS tiles are bottom-up (row 0 at the bottom), npy/png top-down",
]
ASSUMPTIONS = [
    "tile_image writes into an empty pyramid directory, or into one that holds an earlier tiling of an image of the same size "
    "(cases with prior=true); directories holding tilings of other sizes are outside the property (it speaks of the written tiles)",
    "integer modes (U8/I16/I32) have no mask representation: 'undefined' is the value 0, as in the code",
    "an RGBA pixel with alpha 0 is undefined whatever its colour bytes are",
    "sub-images are taken of a tiling built by the constructor (compute_for_subimage of a sub-tiling is outside the property)",
    "numpy broadcasting of a length-1 source axis in the fill assignment is not modelled (the theorems show shapes always agree)",
]

BOTTOM_UP = {"fits"}
LOSSLESS = [("npy", m) for m in ("RGB", "RGBA", "F32", "F64", "F16x3", "U8", "I16", "I32")] + \
           [("png", "RGB"), ("png", "RGBA")] + \
           [("fits", m) for m in ("RGB", "RGBA", "F32", "F64", "U8", "I16", "I32")]
MASKABLE = {"RGB", "RGBA", "F32", "F64", "F16x3"}
SPECIAL = [1, 2, 3, 127, 128, 129, 255, 256, 257, 258, 511, 512, 513, 767, 768, 769, 1023, 1024, 1025,
           2047, 2048, 2049, 4095, 4096, 4097]
PIX_SIZES = [1, 2, 255, 256, 257, 511, 512, 513, 1023, 1024, 1025]
MAXFULL = 3000
PREFIX = 40

COQ_DEFS = r"""
Local Open Scope Z_scope.
Definition zl_eqb (a b : list Z) : bool :=
  Nat.eqb (length a) (length b) && forallb (fun p => fst p =? snd p) (combine a b).
Definition zll_eqb (a b : list (list Z)) : bool :=
  Nat.eqb (length a) (length b) && forallb (fun p => zl_eqb (fst p) (snd p)) (combine a b).
Definition tl (w h : Z) (sub : option (Z * Z * Z * Z)) : option tiling :=
  match sub with
  | None => study_tiling w h
  | Some (ix, iy, sw, sh) =>
      match study_tiling w h with Some p => compute_for_subimage p ix iy sw sh | None => None end
  end.
Definition fields (t : tiling) : list Z :=
  [t_width t; t_height t; t_p2n t; t_tile_size t; t_levels t; t_gx0 t; t_gy0 t].
Definition tflat (u : tup) : list Z :=
  [u_n u; u_x u; u_y u; u_w u; u_h u; u_ix u; u_iy u; u_tx u; u_ty u].
Fixpoint prefix_ok (t : tiling) (i : Z) (obs : list (list Z)) : bool :=
  match obs with
  | [] => true
  | o :: r => zl_eqb (tflat (generate_nth t i)) o && prefix_ok t (i + 1) r
  end.
Record gcase := mkG {
  g_w : Z; g_h : Z; g_sub : option (Z * Z * Z * Z);
  o_fields : option (list Z); o_count : Z; o_full : bool; o_tuples : list (list Z);
  o_probes : list (Z * Z * list Z) }.
Definition probe_ok (t : tiling) (p : Z * Z * list Z) : bool :=
  let '(ix, iy, o) := p in
  let '(a, b, c, d) := image_to_tile t ix iy in zl_eqb [a; b; c; d] o.
Definition tuples_ok (t : tiling) (c : gcase) : bool :=
  if o_full c
  then (if 3001 <? count_populated_positions t then false
        else zll_eqb (map tflat (generate_populated_positions t)) (o_tuples c))
  else prefix_ok t 0 (o_tuples c).
Definition chk (c : gcase) : nat :=
  match tl (g_w c) (g_h c) (g_sub c), o_fields c with
  | None, None => 0%nat
  | None, Some _ => 1%nat
  | Some _, None => 1%nat
  | Some t, Some f =>
      if negb (zl_eqb (fields t) f) then 1%nat
      else if negb (count_populated_positions t =? o_count c) then 2%nat
      else if negb (tuples_ok t c) then 3%nat
      else if negb (forallb (probe_ok t) (o_probes c)) then 4%nat
      else 0%nat
  end.
Definition pl (w h : Z) (sub : option (Z * Z * Z * Z)) (inv : bool) : option (list (list Z)) :=
  match tl w h sub with
  | Some t => option_map (map placement_flat) (tile_image_placements t inv)
  | None => None
  end.
"""

RELNAMES = {
    1: "Study.v study_tiling/compute_for_subimage ~ StudyTiling fields (p2n, tile_size, levels, gx0, gy0) and guards",
    2: "Study.v count_populated_positions ~ study.py",
    3: "Study.v generate_populated_positions ~ study.py (tuples, order)",
    4: "Study.v image_to_tile ~ study.py",
}


# ------------------------------------------------------------------ geometry: implementation side

def observe_geom(w, h, sub, probes):
    from toasty.study import StudyTiling
    try:
        t = StudyTiling(w, h)
        if sub is not None:
            t = t.compute_for_subimage(*sub)
    except ValueError:
        return dict(fields=None, count=0, full=True, tuples=[], probes=[])
    fields = [int(t._width), int(t._height), int(t._p2n), int(t._tile_size), int(t._tile_levels),
              int(t._img_gx0), int(t._img_gy0)]
    count = int(t.count_populated_positions())
    lst = list(itertools.islice(t.generate_populated_positions(), MAXFULL + 1))
    full = len(lst) <= MAXFULL
    if not full:
        lst = lst[:PREFIX]
    tuples = [[int(p.n), int(p.x), int(p.y), int(a), int(b), int(c), int(d), int(e), int(f)]
              for (p, a, b, c, d, e, f) in lst]
    pr = [[int(v) for v in t.image_to_tile(ix, iy)] for ix, iy in probes]
    return dict(fields=fields, count=count, full=full, tuples=tuples, probes=pr)


def g_sub(sub):
    return "None" if sub is None else "(Some (%s, %s, %s, %s))" % tuple(g_Z(v) for v in sub)


def g_zl(l):
    return g_list([g_Z(v) for v in l])


def g_geom(case, obs):
    w, h, sub, probes = case
    fields = "None" if obs["fields"] is None else f"(Some {g_zl(obs['fields'])})"
    pr = g_list(["(%s, %s, %s)" % (g_Z(ix), g_Z(iy), g_zl(o)) for (ix, iy), o in zip(probes, obs["probes"])])
    return "(mkG %s %s %s %s %s %s %s %s)" % (
        g_Z(w), g_Z(h), g_sub(sub), fields, g_Z(obs["count"]), g_bool(obs["full"]),
        g_list([g_zl(t) for t in obs["tuples"]]), pr)


# ------------------------------------------------------------------ geometry: the property's own predicate

def smallest_square(w, h):
    p = 256
    while p < max(w, h):
        p *= 2
    return p


def geom_property_fails(case, obs):
    """C08's geometric clauses, evaluated on what the implementation returned."""
    w, h, sub, probes = case
    why = []
    legal_parent = w >= 1 and h >= 1
    legal = legal_parent and (sub is None or (
        sub[2] >= 0 and sub[3] >= 0 and sub[0] >= 0 and sub[1] >= 0 and sub[0] + sub[2] <= w and sub[1] + sub[3] <= h))
    if obs["fields"] is None:
        return ["constructor/compute_for_subimage raised on a legal input"] if legal else []
    if not legal:
        return ["illegal size or sub-image accepted"]
    W, H, p2n, ts, lv, gx0, gy0 = obs["fields"]
    p = smallest_square(w, h)
    if p2n != p:
        why.append(f"p2n {p2n} is not the smallest power-of-two square >= 256 containing {w}x{h} ({p})")
    if ts * 256 != p2n or 2 ** lv != ts:
        why.append("tile_size/levels inconsistent with p2n")
    ex0, ey0 = (p - w) // 2, (p - h) // 2
    ew, eh = w, h
    if sub is not None:
        ex0, ey0, ew, eh = ex0 + sub[0], ey0 + sub[1], sub[2], sub[3]
    if (gx0, gy0) != (ex0, ey0):
        why.append(f"offsets ({gx0},{gy0}) != floor-centred ({ex0},{ey0})")
    if (W, H) != (ew, eh):
        why.append("width/height fields wrong")
    if ew >= 1 and eh >= 1:
        ecount = ((ex0 + ew - 1) // 256 - ex0 // 256 + 1) * ((ey0 + eh - 1) // 256 - ey0 // 256 + 1)
        if obs["count"] != ecount:
            why.append(f"count {obs['count']} != number of tiles meeting the image {ecount}")
    tu = obs["tuples"]
    if obs["full"]:
        if obs["count"] != len(tu):
            why.append(f"count {obs['count']} != number of tuples {len(tu)}")
        seen = set()
        area = 0
        for (n, x, y, tw, th, ix, iy, tx, ty) in tu:
            if n != lv or not (0 <= x < ts and 0 <= y < ts):
                why.append(f"tile {(n, x, y)} not in the deepest level")
            if (x, y) in seen:
                why.append(f"tile {(x, y)} yielded twice")
            seen.add((x, y))
            if not (0 <= ix and ix + tw <= ew and 0 <= iy and iy + th <= eh and tw >= 0 and th >= 0):
                why.append("rectangle outside the image")
            if not (0 <= tx and tx + tw <= 256 and 0 <= ty and ty + th <= 256):
                why.append("rectangle outside the tile")
            if ew >= 1 and eh >= 1 and not (tw >= 1 and th >= 1):
                why.append("empty rectangle")
            # slot of the rectangle's first pixel = global decomposition
            if (256 * x + tx, 256 * y + ty) != (ix + ex0, iy + ey0):
                why.append("rectangle's tile offset is not the pixel's global position")
            area += tw * th
        if area != ew * eh:
            why.append(f"rectangles' area {area} != image area {ew * eh}")
        if ew * eh <= 6_000_000 and not why:
            cov = np.zeros((eh, ew), dtype=np.uint8)
            for (n, x, y, tw, th, ix, iy, tx, ty) in tu:
                cov[iy:iy + th, ix:ix + tw] += 1
            if not (cov == 1).all():
                why.append("some image pixel is not covered exactly once")
    for (ix, iy), (a, b, c, d) in zip(probes, obs["probes"]):
        if (256 * a + c, 256 * b + d) != (ix + gx0, iy + gy0) or not (0 <= c < 256 and 0 <= d < 256):
            why.append(f"image_to_tile({ix},{iy}) = {(a, b, c, d)} is not the global pixel decomposition")
    return why[:6]


# ------------------------------------------------------------------ geometry: generation

def rand_probes(rng, w, h):
    pts = [(0, 0), (w - 1, h - 1)]
    for _ in range(2):
        pts.append((rng.randint(-600, w + 600), rng.randint(-600, h + 600)))
    return pts


def rand_sub(rng, w, h, maxsize=None):
    kind = rng.random()
    sw = rng.randint(0, w if maxsize is None else min(w, maxsize))
    sh = rng.randint(0, h if maxsize is None else min(h, maxsize))
    if kind < 0.08:
        sw = 0
    elif kind < 0.16:
        sh = 0
    elif kind < 0.22:
        sw, sh = w, h
    ix = rng.randint(0, w - sw)
    iy = rng.randint(0, h - sh)
    if kind > 0.85:  # hug a tile boundary of the parent's grid
        p = smallest_square(w, h)
        gx0 = (p - w) // 2
        k = rng.randint(0, p // 256)
        cand = 256 * k - gx0 + rng.choice((-1, 0, 1))
        if 0 <= cand <= w - sw:
            ix = cand
    return (ix, iy, sw, sh)


def illegal_sub(rng, w, h):
    sw, sh = rng.randint(0, w), rng.randint(0, h)
    ix, iy = rng.randint(0, w - sw), rng.randint(0, h - sh)
    which = rng.randrange(8)
    if which == 0:
        sw = -rng.randint(1, 5)
    elif which == 1:
        sw = w + rng.randint(1, 5)
    elif which == 2:
        sh = -rng.randint(1, 5)
    elif which == 3:
        sh = h + rng.randint(1, 5)
    elif which == 4:
        ix = -rng.randint(1, 5)
    elif which == 5:
        ix = w - sw + rng.randint(1, 5)
    elif which == 6:
        iy = -rng.randint(1, 5)
    else:
        iy = h - sh + rng.randint(1, 5)
    return (ix, iy, sw, sh)


def gen_geom_cases(rng, tier):
    cases = []
    for w in SPECIAL:
        for h in SPECIAL:
            cases.append((w, h, None, rand_probes(rng, w, h)))
    n_exh = len(cases)
    if tier == "thorough":
        for w in range(1, 2101):
            for h in (1, 255, 256, 257, 513, 1025):
                cases.append((w, h, None, rand_probes(rng, w, h)))
                cases.append((h, w, None, rand_probes(rng, h, w)))
    else:
        for w in range(1, 1101, 1):
            h = rng.choice((1, 255, 256, 257, 513, 1025))
            if rng.random() < 0.5:
                cases.append((w, h, None, rand_probes(rng, w, h)))
            else:
                cases.append((h, w, None, rand_probes(rng, h, w)))
    n_big = 150 if tier == "quick" else 1500
    for _ in range(n_big):
        w = rng.randint(1, 2 ** rng.randint(1, 40))
        h = rng.randint(1, 2 ** rng.randint(1, 40))
        if rng.random() < 0.3:  # right at a power of two
            w = 2 ** rng.randint(8, 40) + rng.choice((-1, 0, 1))
        cases.append((w, h, None, rand_probes(rng, w, h)))
    n_sub = 300 if tier == "quick" else 3000
    for _ in range(n_sub):
        r = rng.random()
        if r < 0.5:
            w, h = rng.choice(SPECIAL), rng.choice(SPECIAL)
            sub = rand_sub(rng, w, h)
        elif r < 0.8:
            w, h = rng.randint(1, 5000), rng.randint(1, 5000)
            sub = rand_sub(rng, w, h)
        else:
            w, h = rng.randint(1, 2 ** 40), rng.randint(1, 2 ** 40)
            sub = rand_sub(rng, w, h, maxsize=3000)
        cases.append((w, h, sub, rand_probes(rng, sub[2], sub[3])))
    n_bad = 40 if tier == "quick" else 300
    for _ in range(n_bad):
        r = rng.random()
        if r < 0.3:
            w, h = rng.choice((0, -1, -256, 5)), rng.choice((0, -3, 7))
            if w > 0 and h > 0:
                h = 0
            cases.append((w, h, None, [(0, 0)]))
        else:
            w, h = rng.randint(1, 3000), rng.randint(1, 3000)
            cases.append((w, h, illegal_sub(rng, w, h), [(0, 0)]))
    return cases, n_exh


# ------------------------------------------------------------------ pixels

def np_dtype(mode):
    return {"RGB": np.uint8, "RGBA": np.uint8, "F32": np.float32, "F64": np.float64, "F16x3": np.float16,
            "U8": np.uint8, "I16": np.int16, "I32": np.int32}[mode]


def make_content(mode, h, w, r0=0, c0=0, stride=None):
    """Pixel content as a function of the (row, col) position; injective for
    F32 (< 2^24 px), F64, I32, RGB(A) (< 2^24 px), F16x3; for U8/I16 a pattern
    that changes under every small shift.  Never equal to the undefined value."""
    stride = stride or w
    r, c = np.mgrid[r0:r0 + h, c0:c0 + w]
    v = (r * stride + c + 1).astype(np.int64)
    if mode in ("F32", "F64", "I32"):
        return v.astype(np_dtype(mode))
    if mode == "U8":
        return ((r * 131 + c * 31) % 255 + 1).astype(np.uint8)
    if mode == "I16":
        return ((r * 1009 + c * 7) % 32000 + 1).astype(np.int16)
    if mode == "RGB":
        return np.stack([v % 256, (v // 256) % 256, (v // 65536) % 256], axis=2).astype(np.uint8)
    if mode == "RGBA":
        return np.stack([v % 256, (v // 256) % 256, (v // 65536) % 256, 1 + v % 255], axis=2).astype(np.uint8)
    if mode == "F16x3":
        return np.stack([v % 2048, (v // 2048) % 2048, v // (2048 * 2048)], axis=2).astype(np.float16)
    raise ValueError(mode)


def punch_holes(arr, mode, holes):
    """Make source pixels undefined (NaN / alpha 0) in the given rectangles."""
    for (y0, y1, x0, x1) in holes:
        if mode in ("F32", "F64"):
            arr[y0:y1, x0:x1] = np.nan
        elif mode == "F16x3":
            arr[y0:y1, x0:x1, :] = np.nan
        elif mode == "RGBA":
            arr[y0:y1, x0:x1, 3] = 0
    return arr


def punch_infs(arr, mode, infs):
    """Infinite sample values (defined data, not a mask) in the given rectangles."""
    for i, (y0, y1, x0, x1) in enumerate(infs):
        if mode in ("F32", "F64", "F16x3"):
            arr[y0:y1, x0:x1] = np.inf if i % 2 == 0 else -np.inf
    return arr


def undefined_tile(mode):
    if mode in ("RGB", "RGBA"):
        return np.zeros((256, 256, 4), dtype=np.uint8)
    if mode in ("F32", "F64"):
        return np.full((256, 256), np.nan, dtype=np_dtype(mode))
    if mode == "F16x3":
        return np.full((256, 256, 3), np.nan, dtype=np.float16)
    return np.zeros((256, 256), dtype=np_dtype(mode))


def to_buffer_mode(arr, mode):
    if mode == "RGB":
        return np.concatenate([arr, np.full(arr.shape[:2] + (1,), 255, dtype=np.uint8)], axis=2)
    return arr


def canon(arr, mode):
    """Display-level abstraction: an RGBA pixel with alpha 0 is undefined whatever its colour."""
    a = np.array(arr)
    if mode in ("RGB", "RGBA"):
        a = a.copy()
        a[a[..., 3] == 0] = 0
    return a


def same_pixels(a, b, mode):
    if a.shape != b.shape:
        return False
    a, b = canon(a, mode), canon(b, mode)
    if mode in ("F32", "F64", "F16x3"):
        return bool(np.array_equal(a.astype(np.float64), b.astype(np.float64), equal_nan=True))
    return bool(np.array_equal(a, b))


def defined_mask(arr, mode):
    if mode in ("F32", "F64"):
        return ~np.isnan(arr)
    if mode == "F16x3":
        return ~np.all(np.isnan(arr), axis=2)
    if mode == "RGBA":
        return arr[..., 3] != 0
    return np.ones(arr.shape[:2], dtype=bool)


def expand_placements(placements, img_buf, mode):
    """Model rectangles -> {(n, x, y): expected tile in storage orientation}, in write order."""
    tiles = {}
    for (n, x, y, iy0, iyc, ix0, ixc, by0, bystep, byc, bx0, bxc) in placements:
        t = undefined_tile(mode)
        assert iyc == byc and ixc == bxc
        rows = by0 + bystep * np.arange(byc)
        if byc > 0 and bxc > 0:
            t[rows[:, None], (bx0 + np.arange(bxc))[None, :]] = img_buf[iy0:iy0 + iyc, ix0:ix0 + ixc]
        tiles[(n, x, y)] = t
    return tiles


def read_tile_direct(base, pos, fmt):
    n, x, y = pos
    path = os.path.join(base, str(n), str(y), f"{y}_{x}.{fmt}")
    if fmt == "npy":
        return np.load(path)
    if fmt == "png":
        from PIL import Image as PILImage
        with PILImage.open(path) as im:
            return np.asarray(im.convert("RGBA") if im.mode != "RGBA" else im)
    from astropy.io import fits
    with fits.open(path) as hdul:
        return np.array(hdul[0].data)


def list_tile_files(base, fmt):
    out = set()
    other = []
    for root, _dirs, files in os.walk(base):
        for f in files:
            rel = os.path.relpath(os.path.join(root, f), base)
            m = re.fullmatch(r"(\d+)/(\d+)/(\d+)_(\d+)\.%s" % re.escape(fmt), rel)
            if m and m.group(2) == m.group(3):
                out.add((int(m.group(1)), int(m.group(4)), int(m.group(2))))
            else:
                other.append(rel)
    return out, other


def run_pixel_case(case, base):
    """Real tile_image + read-back.  Returns dict(raised|files, tiles, pio_tiles, src, geometry)."""
    from toasty.image import Image
    from toasty.pyramid import PyramidIO, Pos
    from toasty.study import StudyTiling
    W, H, sub, fmt, mode, holes = (case["w"], case["h"], case["sub"], case["fmt"], case["mode"], case["holes"])
    parent = punch_holes(punch_infs(make_content(mode, H, W), mode, case.get("infs") or []), mode, holes)
    if sub is None:
        src = parent
    else:
        ix, iy, sw, sh = sub
        src = np.ascontiguousarray(parent[iy:iy + sh, ix:ix + sw])
    shutil.rmtree(base, ignore_errors=True)
    res = dict(parent=parent, src=src)
    try:
        with warnings.catch_warnings():
            warnings.simplefilter("ignore")
            pio = PyramidIO(base, default_format=fmt)
            t = StudyTiling(W, H)
            if sub is not None:
                t = t.compute_for_subimage(*sub)
            if case.get("prior"):
                # the directory already holds an earlier version of the same study, defined everywhere:
                # tiles that the new version leaves entirely undefined must not survive
                prior = make_content(mode, src.shape[0], src.shape[1], r0=3, c0=5)
                t.tile_image(Image.from_array(prior), pio)
            t.tile_image(Image.from_array(src.copy()), pio)
            files, other = list_tile_files(base, fmt) if os.path.isdir(base) else (set(), [])
            tiles, pio_tiles = {}, {}
            for pos in sorted(files):
                tiles[pos] = read_tile_direct(base, pos, fmt)
                im = pio.read_image(Pos(*pos))
                pio_tiles[pos] = None if im is None else np.array(im.asarray())
        res.update(raised=None, files=files, other=other, tiles=tiles, pio_tiles=pio_tiles)
    except Exception as e:  # the fill or the write failed
        res.update(raised=repr(e)[:200], files=set(), other=[], tiles={}, pio_tiles={})
    shutil.rmtree(base, ignore_errors=True)
    return res


def reassembly_predicate(case, res):
    """C08 'reassembling the written deepest-level tiles in display orientation
    reproduces the image exactly, every pixel outside undefined', straight from
    the statement; independent of the model."""
    W, H, sub, fmt, mode = case["w"], case["h"], case["sub"], case["fmt"], case["mode"]
    if res["raised"]:
        return ["tile_image raised: " + res["raised"]]
    why = []
    p2n = smallest_square(W, H)
    levels = (p2n // 256).bit_length() - 1
    gx0, gy0 = (p2n - W) // 2, (p2n - H) // 2
    ew, eh = W, H
    if sub is not None:
        gx0, gy0, ew, eh = gx0 + sub[0], gy0 + sub[1], sub[2], sub[3]
    und = undefined_tile(mode)
    expected = np.empty((p2n, p2n) + und.shape[2:], dtype=und.dtype)
    expected[...] = und[0, 0]
    expected[gy0:gy0 + eh, gx0:gx0 + ew] = to_buffer_mode(res["src"], mode)
    got = np.empty_like(expected)
    got[...] = und[0, 0]
    for (n, x, y), tile in res["tiles"].items():
        if n != levels or not (0 <= x < p2n // 256 and 0 <= y < p2n // 256):
            why.append(f"tile file {(n, x, y)} outside the deepest level")
            continue
        if tile.shape != und.shape:
            why.append(f"tile {(n, x, y)} has shape {tile.shape}")
            continue
        disp = tile[::-1] if fmt in BOTTOM_UP else tile
        got[256 * y:256 * y + 256, 256 * x:256 * x + 256] = disp
    if res["other"]:
        why.append(f"unexpected files {res['other'][:3]}")
    if not why and not same_pixels(got, expected, mode):
        a, b = canon(got, mode), canon(expected, mode)
        if a.ndim == 3:
            diff = np.argwhere(~np.all((a == b) | ((a != a) & (b != b)), axis=2))
        else:
            diff = np.argwhere(~((a == b) | ((a != a) & (b != b))))
        why.append(f"mosaic differs from the centred image at {len(diff)} pixels, first (row, col) = {diff[0].tolist() if len(diff) else None}")
    return why


def parse_coq_value(text):
    """Parse a printed Gallina value made of lists, Some/None and integers."""
    toks = re.findall(r"\[|\]|;|Some|None|\(|\)|-?\d+", text)
    pos = 0

    def val():
        nonlocal pos
        tk = toks[pos]
        if tk == "[":
            pos += 1
            out = []
            while toks[pos] != "]":
                if toks[pos] == ";":
                    pos += 1
                    continue
                out.append(val())
            pos += 1
            return out
        if tk == "(":
            pos += 1
            v = val()
            assert toks[pos] == ")"
            pos += 1
            return v
        if tk == "Some":
            pos += 1
            return ("Some", val())
        if tk == "None":
            pos += 1
            return None
        pos += 1
        return int(tk)

    return val()


def model_placements(keys):
    """keys: list of (w, h, sub, inv) -> list of placement lists (None = model error)."""
    out = []
    CH = 150
    for i in range(0, len(keys), CH):
        chunk = keys[i:i + CH]
        terms = ["pl %s %s %s %s" % (g_Z(w), g_Z(h), g_sub(sub), g_bool(inv)) for (w, h, sub, inv) in chunk]
        body = COQ_DEFS + "\nEval vm_compute in [" + ";\n ".join(terms) + "]."
        txt = common.coq_eval(body, name=f"c08pl_{i}", imports=["Model.Study"])
        vals = common.parse_evals(txt)
        parsed = parse_coq_value(vals[-1])
        assert len(parsed) == len(chunk)
        out.extend(None if p is None else p[1] for p in parsed)
    return out


def gen_holes(rng, mode, W, H):
    if mode not in ("F32", "F64", "F16x3", "RGBA") or rng.random() < 0.35:
        return []
    holes = []
    p = smallest_square(W, H)
    gx0, gy0 = (p - W) // 2, (p - H) // 2
    if rng.random() < 0.6:  # exactly the part of the image inside one tile: that tile must not be written
        tx = rng.randint(gx0 // 256, (gx0 + W - 1) // 256)
        ty = rng.randint(gy0 // 256, (gy0 + H - 1) // 256)
        x0, x1 = max(0, 256 * tx - gx0), min(W, 256 * tx + 256 - gx0)
        y0, y1 = max(0, 256 * ty - gy0), min(H, 256 * ty + 256 - gy0)
        holes.append((y0, y1, x0, x1))
    if rng.random() < 0.6:
        y0, x0 = rng.randint(0, H - 1), rng.randint(0, W - 1)
        holes.append((y0, rng.randint(y0 + 1, H), x0, rng.randint(x0 + 1, W)))
    return holes


def gen_pixel_cases(rng, tier):
    cases = []
    pairs = [(w, h) for w in PIX_SIZES for h in PIX_SIZES]
    full_grid = {("npy", "F64"), ("fits", "F32"), ("png", "RGBA")} if tier == "thorough" else set()
    for (fmt, mode) in LOSSLESS:
        if (fmt, mode) in full_grid:
            chosen = list(pairs)
        else:
            k = 5 if tier == "quick" else 30
            chosen = rng.sample(pairs, k)
            # keep the heavy 1023..1025 squares rare in the quick tier
            if tier == "quick":
                chosen = [(w, h) if (w < 1000 or h < 1000 or rng.random() < 0.3) else (w, rng.choice(PIX_SIZES[:8]))
                          for (w, h) in chosen]
        for (w, h) in chosen:
            cases.append(dict(w=w, h=h, sub=None, fmt=fmt, mode=mode, holes=gen_holes(rng, mode, w, h)))
        for _ in range(2 if tier == "quick" else 12):   # random sizes
            w, h = rng.randint(1, 1100), rng.randint(1, 1100)
            if tier == "quick":
                w, h = rng.randint(1, 700), rng.randint(1, 700)
            cases.append(dict(w=w, h=h, sub=None, fmt=fmt, mode=mode, holes=gen_holes(rng, mode, w, h)))
        for _ in range(2 if tier == "quick" else 12):   # sub-images
            w, h = rng.choice(PIX_SIZES[2:9]), rng.choice(PIX_SIZES[2:9])
            cases.append(dict(w=w, h=h, sub=list(rand_sub(rng, w, h)), fmt=fmt, mode=mode,
                              holes=gen_holes(rng, mode, w, h)))
    # infinite sample values are data: a tile whose part of the image holds only +-inf (and NaN) is still written
    for c in cases:
        c["infs"] = []
        if c["mode"] in ("F32", "F64", "F16x3") and rng.random() < 0.5:
            W, H = c["w"], c["h"]
            p2 = smallest_square(W, H)
            gx0, gy0 = (p2 - W) // 2, (p2 - H) // 2
            tx = rng.randint(gx0 // 256, (gx0 + W - 1) // 256)
            ty = rng.randint(gy0 // 256, (gy0 + H - 1) // 256)
            x0, x1 = max(0, 256 * tx - gx0), min(W, 256 * tx + 256 - gx0)
            y0, y1 = max(0, 256 * ty - gy0), min(H, 256 * ty + 256 - gy0)
            c["infs"].append((y0, y1, x0, x1))           # the whole part of the image inside one tile
            if rng.random() < 0.5 and y1 - y0 > 1:
                c["holes"] = list(c["holes"]) + [(y0, (y0 + y1) // 2, x0, x1)]   # half of it NaN on top
            if rng.random() < 0.5:
                yy, xx = rng.randint(0, H - 1), rng.randint(0, W - 1)
                c["infs"].append((yy, rng.randint(yy + 1, H), xx, rng.randint(xx + 1, W)))
    # histories: every other case with undefined regions re-tiles a directory that already holds
    # an earlier, fully defined version of the same study
    k = 0
    for c in cases:
        if c["holes"]:
            c["prior"] = (k % 2 == 0)
            k += 1
    return cases


def pixel_case_json(c):
    return dict(kind="pixels", w=c["w"], h=c["h"], sub=c["sub"], fmt=c["fmt"], mode=c["mode"],
                holes=[list(hh) for hh in c["holes"]], prior=bool(c.get("prior")),
                infs=[list(hh) for hh in c.get("infs") or []])


def dtype_gate_checks(V, stats):
    """Arrays whose sample type is not one of the image modes (int8, uint16, uint32, 64-bit integers, 2-D
    float16, bool): the property speaks of images, so the implementation may refuse them up front; what it
    must not do is accept one and write tiles that do not reproduce it.  Also the modes' own extreme values."""
    from toasty.image import Image
    from toasty.pyramid import PyramidIO
    from toasty.study import StudyTiling
    base = str(common.workdir() / "c08_dtypes")
    H, W = 260, 300
    specs = [("int8", -128, 127), ("uint16", 0, 65535), ("uint32", 0, 2 ** 32 - 1), ("int64", -2 ** 40, 2 ** 40),
             ("uint64", 0, 2 ** 40), ("float16", -100, 100), ("bool", 0, 1),
             ("uint8", 0, 255), ("int16", -32768, 32767), ("int32", -2 ** 31, 2 ** 31 - 1)]
    for name, lo, hi in specs:
        dt = np.dtype(name)
        r, c = np.mgrid[0:H, 0:W]
        span = hi - lo
        vals = lo + ((r * 7919 + c * 104729) % (span + 1) if span < 2 ** 62 else 0)
        arr = vals.astype(dt)
        arr[0, 0], arr[-1, -1], arr[1, 1] = dt.type(lo), dt.type(hi), dt.type(hi)
        for fmt in ("npy", "fits"):
            stats["dtype_gate_cases"] = stats.get("dtype_gate_cases", 0) + 1
            shutil.rmtree(base, ignore_errors=True)
            try:
                with warnings.catch_warnings():
                    warnings.simplefilter("ignore")
                    img = Image.from_array(arr.copy())
                    pio = PyramidIO(base, default_format=fmt)
                    StudyTiling(W, H).tile_image(img, pio)
            except Exception:
                continue            # refused: fine
            files, _other = list_tile_files(base, fmt) if os.path.isdir(base) else (set(), [])
            p2 = smallest_square(W, H)
            gx0, gy0 = (p2 - W) // 2, (p2 - H) // 2
            got = np.zeros((p2, p2), dtype=np.float64)
            ok = True
            for pos in files:
                t = read_tile_direct(base, pos, fmt)
                if t.shape != (256, 256):
                    ok = False
                    break
                disp = t[::-1] if fmt in BOTTOM_UP else t
                got[256 * pos[2]:256 * pos[2] + 256, 256 * pos[1]:256 * pos[1] + 256] = np.nan_to_num(disp.astype(np.float64))
            back = got[gy0:gy0 + H, gx0:gx0 + W]
            if not ok or not np.array_equal(back, arr.astype(np.float64)):
                nbad = int(np.sum(back != arr.astype(np.float64))) if ok else -1
                V.disagreement("C08 reassembly predicate: an array that Image.from_array accepts is reproduced by its tiles",
                               dict(kind="dtype", dtype=name, fmt=fmt, w=W, h=H),
                               "refused up front, or reassembled exactly",
                               dict(differing_pixels=nbad, first_value=int(arr[0, 0]), stored=float(back[0, 0]) if ok else None), True)
    shutil.rmtree(base, ignore_errors=True)


def check_pixel_cases(cases, V, stats):
    keys = []
    index = {}
    for c in cases:
        k = (c["w"], c["h"], None if c["sub"] is None else tuple(c["sub"]), c["fmt"] in BOTTOM_UP)
        if k not in index:
            index[k] = len(keys)
            keys.append(k)
    placements = model_placements(keys)
    base = str(common.workdir() / "c08_tiles")
    for c in cases:
        k = (c["w"], c["h"], None if c["sub"] is None else tuple(c["sub"]), c["fmt"] in BOTTOM_UP)
        pls = placements[index[k]]
        mode = c["mode"]
        res = run_pixel_case(c, base)
        why = reassembly_predicate(c, res)
        stats["pixel_cases"] += 1
        stats["retiled_over_earlier_version"] = stats.get("retiled_over_earlier_version", 0) + int(bool(c.get("prior")))
        stats["tiles_compared"] += len(res["tiles"])
        stats["pixels_compared"] += 65536 * len(res["tiles"])
        stats["fmt_mode"][f"{c['fmt']}/{mode}"] = stats["fmt_mode"].get(f"{c['fmt']}/{mode}", 0) + 1
        problems = []
        if pls is None:
            if not res["raised"]:
                problems.append(("Study.v tile_image_placements (model reports a shape error)", "error", "tiles written"))
        elif res["raised"]:
            problems.append(("Study.v tile_image_placements ~ study.py tile_image (implementation raised)",
                             f"{len(pls)} fills", res["raised"]))
        else:
            exp_tiles = expand_placements(pls, to_buffer_mode(res["src"], mode), mode)
            maskable = mode in MASKABLE
            exp_files = set()
            for pos, t in exp_tiles.items():
                if maskable and not defined_mask(t, "RGBA" if mode in ("RGB", "RGBA") else mode).any():
                    stats["masked_tiles_skipped"] += 1
                    continue
                exp_files.add(pos)
            if exp_files != res["files"]:
                problems.append(("StudyP.tile_files_written ~ files on disk",
                                 sorted(exp_files)[:8], sorted(res["files"])[:8]))
            for pos in sorted(exp_files & res["files"]):
                if not same_pixels(res["tiles"][pos], exp_tiles[pos], mode):
                    problems.append(("Study.v tile_image_placements ~ tile content (storage orientation) at %s" % (pos,),
                                     "model rectangle %s" % ([p for p in pls if tuple(p[:3]) == pos][:1],),
                                     "different pixels"))
                    break
                pt = res["pio_tiles"].get(pos)
                if pt is None or not same_pixels(pt, res["tiles"][pos], mode):
                    problems.append(("PyramidIO.read_image ~ direct read of the tile file at %s" % (pos,), "same pixels", "differ"))
                    break
            if len(exp_tiles) > 1:
                stats["multi_tile_cases"] += 1
        if why and not problems:
            problems.append(("C08 reassembly predicate on implementation (model agrees with implementation!)", "image centred on undefined background", why))
        for rel, exp, obs in problems:
            V.disagreement(rel, pixel_case_json(c), exp, dict(observed=obs, predicate=why), bool(why))
        key = (c["w"], c["h"], None if c["sub"] is None else tuple(c["sub"]), c["fmt"], mode)
        if pls is not None and len(pls) > 1:
            stats["nontrivial"].add(key)


# ------------------------------------------------------------------ driver

def geom_case_json(case):
    w, h, sub, probes = case
    return dict(kind="geometry", w=w, h=h, sub=None if sub is None else list(sub), probes=[list(p) for p in probes])



# ------------------------------------------------------------------ ImageLoader.create_from_args (Model/LoaderArgs.v)

COQ_DEFS_L = r"""
Record lcase := mkLC { lc_b2t : bool; lc_csp : Z; lc_psd : bool; lc_crop : option (list Z);
                       lc_ok : bool; lc_new : loader_opts; lc_w : Z; lc_h : Z; lc_size : Z * Z }.
Definition optl_eqb (a b : option (list Z)) : bool :=
  match a, b with
  | None, None => true
  | Some x, Some y => (Nat.eqb (length x) (length y)) && forallb (fun p => Z.eqb (fst p) (snd p)) (combine x y)
  | _, _ => false
  end.
(* 0 agree; 1 accepted/rejected; 2 options of the new loader; 3 crop of the new loader; 4 size of the loaded image *)
Definition chk_loader (c : lcase) : nat :=
  match create_from_args class_defaults (lc_b2t c) (lc_csp c) (lc_psd c) (lc_crop c) with
  | None => if lc_ok c then 1%nat else 0%nat
  | Some (n, _) =>
      if negb (lc_ok c) then 1%nat
      else if negb (Bool.eqb (lo_b2t n) (lo_b2t (lc_new c)) && Z.eqb (lo_csp n) (lo_csp (lc_new c)) && Bool.eqb (lo_psd n) (lo_psd (lc_new c))) then 2%nat
      else if negb (optl_eqb (lo_crop n) (lo_crop (lc_new c))) then 3%nat
      else match lo_crop n with
           | Some cr => let '(a, b) := cropped_size (lc_w c) (lc_h c) cr in
                        if Z.eqb a (fst (lc_size c)) && Z.eqb b (snd (lc_size c)) then 0%nat else 4%nat
           | None => if Z.eqb (lc_w c) (fst (lc_size c)) && Z.eqb (lc_h c) (snd (lc_size c)) then 0%nat else 4%nat
           end
  end.
"""

CSP = ["srgb", "none"]


def loader_args_part(ctx, V):
    """The real ImageLoader.create_from_args on argparse namespaces (valid and malformed --crop), then
    load_pil on a small image: accepted/rejected, the new loader's options, the size of what was loaded,
    and the class attributes of ImageLoader before and after, against Model/LoaderArgs.v."""
    import argparse
    import numpy as np
    from PIL import Image as PILImage
    from toasty.image import ImageLoader
    rng = common.rng_for(ctx["seed"], "C08-loader")
    n = 150 if ctx["tier"] == "quick" else 800

    def g_z(z):
        return f"{z}" if z >= 0 else f"({z})"

    def class_state():
        return {k: getattr(ImageLoader, k) for k in ("black_to_transparent", "colorspace_processing", "crop", "psd_single_layer")}

    cases, terms, leaks = [], [], []
    fixed = [[3, 20], [20, 3], [0], [7], [1, 2, 3, 4], [1, 2, 3], [], [-1, 2], [5, 5], [0, 0, 0, 9]]
    for i in range(n):
        if i < len(fixed):
            crop = fixed[i]
        else:
            k = rng.choice([1, 1, 2, 2, 2, 4, 4, 3, 5, 0])
            crop = [rng.randint(0, 12) if rng.random() < 0.93 else -rng.randint(1, 5) for _ in range(k)]
        use_crop = rng.random() < 0.85 or i < len(fixed)
        b2t, psd, csp = rng.random() < 0.5, rng.random() < 0.5, rng.randint(0, 1)
        w, h = rng.randint(50, 90), rng.randint(50, 90)      # larger than twice any crop generated here
        text = ",".join(str(c) for c in crop) if use_crop else None
        if use_crop and not crop:
            text = ""
        before = class_state()
        ns = argparse.Namespace(black_to_transparent=b2t, colorspace_processing=CSP[csp], psd_single_layer=psd, crop=text)
        ok, new, size = True, None, (0, 0)
        try:
            ld = ImageLoader.create_from_args(ns)
            new = (bool(ld.black_to_transparent), CSP.index(ld.colorspace_processing), bool(ld.psd_single_layer),
                   None if ld.crop is None else [int(c) for c in ld.crop])
        except Exception:
            ok = False
        if ok:
            try:
                img = ld.load_pil(PILImage.fromarray(np.full((h, w, 3), 200, dtype=np.uint8)))
                size = (int(img.width), int(img.height))
            except Exception:
                size = (-1, -1)
        after = class_state()
        fresh = ImageLoader()
        fresh_state = {k: getattr(fresh, k) for k in before}
        case = dict(kind="loader-args", crop=text, b2t=b2t, psd=psd, csp=CSP[csp], w=w, h=h)
        if after != before or fresh_state != before:
            leaks.append((case, before, after))
            for k, v in before.items():
                setattr(ImageLoader, k, v)
        gcrop = "None" if text is None else "(Some " + g_list([g_z(c) for c in crop]) + ")"
        if new is None:
            gnew = "class_defaults"
        else:
            gnew = (f"(mkLO {g_bool(new[0])} {new[1]} {g_bool(new[2])} " +
                    ("None" if new[3] is None else "(Some " + g_list([g_z(c) for c in new[3]]) + ")") + ")")
        terms.append(f"(mkLC {g_bool(b2t)} {csp} {g_bool(psd)} {gcrop} {g_bool(ok)} {gnew} {w} {h} ({g_z(size[0])}, {g_z(size[1])}))")
        cases.append((case, ok, new, size))
    bad = common.coq_eval_sharded("Local Open Scope Z_scope.\n" + COQ_DEFS_L, terms, "chk_loader", ["Model.LoaderArgs"], shard=400, jobs=2, name="c08l")
    rel = {1: "--crop accepted / rejected", 2: "options of the new loader", 3: "crop of the new loader (top, right, bottom, left)",
           4: "size of the image load_pil returns"}
    for i, code in sorted(bad.items())[:3]:
        case, ok, new, size = cases[i]
        V.disagreement("LoaderArgs.v ~ ImageLoader.create_from_args / load_pil: " + rel.get(code, str(code)), case,
                       "the model's loader", dict(accepted=ok, new_loader=new, loaded_size=size), code in (3, 4))
    for case, before, after in leaks[:2]:
        V.disagreement("loader_options_do_not_touch_the_class (C08.v) on the implementation: ImageLoader.create_from_args changed the class attributes",
                       case, repr(before), repr(after), True)
    return dict(loader_args_cases=len(cases), loader_args_rejected=sum(1 for c in cases if not c[1]),
                loader_args_two_value=sum(1 for c in cases if c[0]["crop"] and c[0]["crop"].count(",") == 1),
                loader_args_disagreements=len(bad), loader_class_leaks=len(leaks))


def run(ctx, V):
    rng = common.rng_for(ctx["seed"], "C08")
    tier = ctx["tier"]
    gcases, n_exh = gen_geom_cases(rng, tier)
    pcases = gen_pixel_cases(rng, tier)
    rp = ctx.get("replay")
    if rp and isinstance(rp.get("case"), dict):
        c = rp["case"]
        if c.get("kind") == "geometry":
            gcases = [(c["w"], c["h"], None if c["sub"] is None else tuple(c["sub"]),
                       [tuple(p) for p in c["probes"]])] + gcases[:5]
            pcases = pcases[:3]
        elif c.get("kind") == "pixels":
            pcases = [dict(w=c["w"], h=c["h"], sub=c["sub"], fmt=c["fmt"], mode=c["mode"],
                           holes=[tuple(hh) for hh in c["holes"]], prior=bool(c.get("prior")),
                           infs=[tuple(hh) for hh in c.get("infs") or []])] + pcases[:3]
            gcases = gcases[:5]

    # geometry
    obs = [observe_geom(*c) for c in gcases]
    terms = [g_geom(c, o) for c, o in zip(gcases, obs)]
    bad = common.coq_eval_sharded(COQ_DEFS, terms, "chk", ["Model.Study"], shard=250, jobs=12, name="c08g")
    nontrivial = set()
    hist = {"plain": 0, "sub": 0, "rejected": 0, "huge(prefix only)": 0}
    for i, (c, o) in enumerate(zip(gcases, obs)):
        why = geom_property_fails(c, o)
        if o["fields"] is None:
            hist["rejected"] += 1
        elif not o["full"]:
            hist["huge(prefix only)"] += 1
        elif c[2] is not None:
            hist["sub"] += 1
        else:
            hist["plain"] += 1
        if o["fields"] is not None and len(o["tuples"]) > 1:
            nontrivial.add((c[0], c[1], c[2]))
        if i in bad or why:
            rel = RELNAMES.get(bad.get(i), "C08 geometric predicate on implementation (model agrees with implementation!)")
            V.disagreement(rel, geom_case_json(c), "model value / C08 predicate",
                           dict(fields=o["fields"], count=o["count"], tuples=o["tuples"][:4], probes=o["probes"], why=why),
                           bool(why))

    # pixels
    stats = dict(pixel_cases=0, tiles_compared=0, pixels_compared=0, masked_tiles_skipped=0, multi_tile_cases=0,
                 fmt_mode={}, nontrivial=set())
    check_pixel_cases(pcases, V, stats)
    dtype_gate_checks(V, stats)
    pix_nontrivial = stats.pop("nontrivial")

    samples = [geom_case_json(c) for c in (gcases[n_exh], gcases[-60], gcases[-1])] + [pixel_case_json(pcases[0])]
    loader = loader_args_part(ctx, V)
    return dict(evaluations=len(gcases) + len(pcases) + loader["loader_args_cases"], loader_args=loader,
                distinct_nontrivial=len(nontrivial) + len(pix_nontrivial),
                rule="geometry: all pairs of sizes around 128..4097 boundaries, every width 1..2100 x heights "
                     "{1,255,256,257,513,1025} and transposes (thorough; a random half-grid to 1100 in quick), random sizes to 2^40 "
                     "(tuple prefix via generate_nth), random legal sub-images incl. empty and tile-boundary-hugging ones, "
                     "illegal sizes/sub-images (each guard); pixels: real tile_image + read-back for 17 lossless "
                     "(format, mode) pairs, sizes from {1,2,255,256,257,511,512,513,1023,1024,1025}^2, random sizes and "
                     "sub-images, NaN / alpha-0 holes incl. a whole tile's worth; non-trivial = distinct case whose image "
                     "meets more than one tile",
                exhaustive_part=n_exh, geometry_cases=len(gcases), geometry_histogram=hist,
                pixel_stats=stats, samples=samples)
