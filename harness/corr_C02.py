"""C02 correspondence: cascade output = 2x2 downsample of the children mosaic.

Implementation side: the real toasty.merge.cascade_images (serial and real
parallel=2, without a tile filter and with a TOAST filter accepting every
populated tile) on generated pyramids of 256x256 tiles in npy / png / fits / jpg,
and the real toasty.merge.averaging_merger on small arrays.
Model side: Model/Merge.v.  The model's compact placement description
(Merge.placement, evaluated in Coq for k = 256) is expanded in numpy into the
expected pyramid (`mirror_*`), and every pixel of every produced tile is compared
with it; the numpy expansion itself is checked against the full Gallina model
(merge_tiles / cascade evaluated by vm_compute) on small tile sizes k = 1..4.
Independently, the property's own predicate (display-orientation mosaic, straight
from the statement) is evaluated on what the implementation wrote.
"""
import contextlib
import io
import os
import shutil
import warnings

import numpy as np

import common
from common import g_Z, g_bool, g_list, g_nat, g_opt, g_pos
from corr_C15 import MODES, FMTS, MASKABLE, INT_MODES, dtype_of, chans, holds, g_zlist, decode_file_independently, array_mode

TRUSTED = [
    "numpy expansion of the model (corr_C02.mirror_merge / mirror_pyramid), itself compared with the Gallina model on tile sizes 1-4",
    "np.nanmean / ndarray.astype / reshape as used by averaging_merger; PIL, numpy and astropy codecs",
    "test contents are integers scaled by 12^start so that every mean of 1-4 values is exact in float16/32/64",
]
ASSUMPTIONS = [
    "all tiles of a pyramid are 256x256 and share one maskable mode (RGB leaves give RGBA parents); no tile files exist above the start level before the cascade",
    "the callback sequence of Pyramid.walk is a duplicate-free children-first enumeration containing every position with a populated child (C01/C13); "
    "parallel walks are exercised here only through real parallel=2 runs",
    "a pixel that is undefined by its mode's own test (alpha 0, NaN, any NaN channel for F16x3) enters the mosaic as the mode's undefined value; "
    "in particular the colour channels of fully transparent pixels count as 0",
    "jpg is lossy: only the set of files is compared",
    "float rounding is outside the model: contents are chosen so that all means are exact",
]

FINDING_NEG = "C02-1:negative-integer-children-clamped-to-zero"
TILE = 256


# ------------------------------------------------------------------ packing (integers only)

def pack2(mode, arr):
    a = np.asarray(arr)
    h, w = a.shape[:2]
    out = []

    def pf(v):
        if np.isnan(v):
            return 1
        assert float(v) == int(v), v
        return 2 * int(v)

    def ph(v):
        if np.isnan(v):
            return 0
        assert float(v) == int(v) and abs(int(v)) < 2048, v
        return int(v) + 2048
    for r in range(h):
        for c in range(w):
            p = a[r, c]
            if mode == "RGB":
                out.append(int(p[0]) + 256 * int(p[1]) + 65536 * int(p[2]))
            elif mode == "RGBA":
                out.append(int(p[0]) + 256 * int(p[1]) + 65536 * int(p[2]) + 16777216 * int(p[3]))
            elif mode in ("F32", "F64"):
                out.append(pf(p))
            elif mode == "F16x3":
                out.append(ph(p[0]) + 4096 * ph(p[1]) + 16777216 * ph(p[2]))
            else:
                out.append(int(p))
    return out


COQ_DEFS = r"""
Local Open Scope Z_scope.
Definition mode_of (k : nat) : mode :=
  match k with 0%nat => RGB | 1%nat => RGBA | 2%nat => F32 | 3%nat => F64 | 4%nat => F16x3
             | 5%nat => U8 | 6%nat => I16 | _ => I32 end.
Definition fmt_of (k : nat) : fmt := match k with 0%nat => Png | 1%nat => Jpg | 2%nat => Npy | _ => Fits end.
Definition dec_f (z : Z) : fv := if z =? 1 then None else Some (inject_Z (z / 2)).
Definition dec_h (e : Z) : fv := if e =? 0 then None else Some (inject_Z (e - 2048)).
Definition dec (m : mode) (z : Z) : pixel :=
  match m with
  | RGB => PxC3 (z mod 256) ((z / 256) mod 256) ((z / 65536) mod 256)
  | RGBA => PxC (z mod 256) ((z / 256) mod 256) ((z / 65536) mod 256) (z / 16777216)
  | F32 | F64 => PxF (dec_f z)
  | F16x3 => PxF3 (dec_h (z mod 4096)) (dec_h ((z / 4096) mod 4096)) (dec_h (z / 16777216))
  | _ => PxI z
  end.
Definition img_of (m : mode) (h w : Z) (d : list Z) : img :=
  mkImg h w m (fun r c => dec m (nth (Z.to_nat (r * w + c)) d 0)).
Definition fv_eqq (a b : fv) : bool :=
  match a, b with Some x, Some y => Qeq_bool x y | None, None => true | _, _ => false end.
Definition pixel_eqq (a b : pixel) : bool :=
  match a, b with
  | PxF x, PxF y => fv_eqq x y
  | PxF3 a1 a2 a3, PxF3 b1 b2 b3 => fv_eqq a1 b1 && fv_eqq a2 b2 && fv_eqq a3 b3
  | _, _ => pixel_eqb a b
  end.
Definition img_eqq (a b : img) : bool :=
  Z.eqb (ih a) (ih b) && Z.eqb (iw a) (iw b) && mode_eqb (imode a) (imode b)
  && forallb (fun r => forallb (fun c => pixel_eqq (ipx a r c) (ipx b r c)) (zrange (iw a))) (zrange (ih a)).
Definition rule_of (fixed : bool) := if fixed then upd_px_fixed else upd_px.
Definition oimg (k : Z) (o : option (nat * list Z)) : option img :=
  match o with Some (m, d) => Some (img_of (mode_of m) k k d) | None => None end.

(* ---- one merge at a small tile size ---- *)
Record mcase := mkMC { mc_fmt : nat; mc_k : Z; mc_fixed : bool; mc_cs : list (option (nat * list Z));
                       mc_out : option (nat * list Z) }.
Definition chk_mc (c : mcase) : nat :=
  match merge_tiles_gen (rule_of (mc_fixed c)) (fmt_of (mc_fmt c)) (mc_k c) (map (oimg (mc_k c)) (mc_cs c)), mc_out c with
  | None, _ => 1%nat
  | Some None, None => 0%nat
  | Some (Some m), Some (mo, d) => if img_eqq m (img_of (mode_of mo) (mc_k c) (mc_k c) d) then 0%nat else 2%nat
  | _, _ => 3%nat
  end.

(* ---- a whole cascade at a small tile size ---- *)
Record ccase := mkCC { cc_fmt : nat; cc_k : Z; cc_fixed : bool; cc_leaves : list (pos * (nat * list Z));
                       cc_order : list pos; cc_files : list (pos * option (nat * list Z)) }.
Definition leaf_store (f : fmt) (k : Z) (l : list (pos * (nat * list Z))) : store :=
  fun p f' => if fmt_eqb f' f then
                match find (fun e => pos_eqb p (fst e)) l with
                | Some (_, (m, d)) => Some (FExact (img_of (mode_of m) k k d))
                | None => None end
              else None.
Definition same_file (k : Z) (d : option fdata) (o : option (nat * list Z)) : bool :=
  match d, o with
  | None, None => true
  | Some (FExact im), Some (m, dd) => img_eqq im (img_of (mode_of m) k k dd)
  | _, _ => false
  end.
Definition chk_cc (c : ccase) : nat :=
  let f := fmt_of (cc_fmt c) in
  match cascade_gen (rule_of (cc_fixed c)) f (cc_k c) (fun _ _ _ => PxC3 0 0 0) (leaf_store f (cc_k c) (cc_leaves c)) (cc_order c) with
  | None => 1%nat
  | Some st' => if forallb (fun e => same_file (cc_k c) (st' (fst e) f) (snd e)) (cc_files c) then 0%nat else 2%nat
  end.

(* ---- averaging_merger on an explicit small array ---- *)
Record acase := mkAC { ac_mode : nat; ac_h : Z; ac_w : Z; ac_in : list Z; ac_out : list Z }.
Definition chk_ac (c : acase) : bool :=
  let m := mode_of (ac_mode c) in
  img_eqq (averaging_merger (img_of m (ac_h c) (ac_w c) (ac_in c))) (img_of m (ac_h c / 2) (ac_w c / 2) (ac_out c)).
"""
IMPORTS = ["Model.Quadtree", "Model.Mask", "Model.Merge"]
COQ_HDR = "From Coq Require Import QArith.\n"


# ------------------------------------------------------------------ the model's placement description

_PLACEMENT = {}


def load_placement(ks=(1, 2, 3, 4, TILE)):
    """Evaluate Merge.placement in Coq for every format and the tile sizes used."""
    keys = [(f, k) for f in range(4) for k in ks]
    lst = "; ".join(f"({f}%nat, {k})" for f, k in keys)
    body = f"Eval vm_compute in (flat_map (fun fk => placement (fmt_of (fst fk)) (snd fk)) [{lst}])."
    out = common.coq_eval(COQ_HDR + COQ_DEFS + body, name="c02_place", imports=IMPORTS)
    vals = common.parse_evals(out)
    assert len(vals) == 1, out[-400:]
    import re
    nums = [int(x) for x in re.findall(r"-?\d+", vals[0].replace("%Z", ""))]
    assert len(nums) == 24 * len(keys), (len(nums), vals[0][:200])
    for j, (f, k) in enumerate(keys):
        ent = []
        for i in range(4):
            ent.append(tuple(nums[24 * j + 6 * i:24 * j + 6 * i + 6]))
        _PLACEMENT[(FMTS[f], k)] = ent
    return _PLACEMENT


def placement(fmt, k):
    if (fmt, k) not in _PLACEMENT:
        load_placement()
    return _PLACEMENT[(fmt, k)]


# ------------------------------------------------------------------ numpy expansion of the model

def work_dtype(mode):
    return np.float64 if mode in ("F32", "F64", "F16x3") else np.int64


def contrib(mode, arr, rule):
    """values a child contributes to the buffer and where (Merge.mosaic_val_gen)"""
    a = np.asarray(arr)
    if mode == "RGB":
        vals = np.concatenate([a.astype(np.int64), np.full(a.shape[:2] + (1,), 255, dtype=np.int64)], axis=2)
        return vals, np.ones(a.shape[:2], dtype=bool)
    if mode == "RGBA":
        return a.astype(np.int64), a[..., 3] != 0
    if mode in ("F32", "F64"):
        return a.astype(np.float64), ~np.isnan(a)
    if mode == "F16x3":
        return a.astype(np.float64), ~np.any(np.isnan(a), axis=2)
    v = a.astype(np.int64)
    if rule == "coded":
        v = np.maximum(v, 0)          # np.maximum against the cleared buffer
    return v, np.ones(a.shape[:2], dtype=bool)


def block_reduce(mode, buf):
    """Merge.averaging_merger in exact arithmetic"""
    h, w = buf.shape[:2]
    s = (h // 2, 2, w // 2, 2) + buf.shape[2:]
    b = buf.reshape(s)
    if mode in ("F32", "F64", "F16x3"):
        valid = ~np.isnan(b)
        cnt = valid.sum(axis=(1, 3))
        tot = np.where(valid, b, 0.0).sum(axis=(1, 3))
        with np.errstate(invalid="ignore", divide="ignore"):
            out = np.where(cnt > 0, tot / np.maximum(cnt, 1), np.nan)
        return out
    tot = b.sum(axis=(1, 3))
    return np.sign(tot) * (np.abs(tot) // 4)      # truncation toward zero


def mirror_merge(fmt, k, children, rule):
    """children: list of 4 (mode, array) or None.  Returns None (early return) or
    (mode, array in the mode's real dtype)."""
    first = next((c for c in children if c is not None), None)
    if first is None:
        return None
    bm = MASKABLE.get(first[0], first[0])
    nch = chans(bm)
    shape = (2 * k, 2 * k, nch) if nch else (2 * k, 2 * k)
    buf = np.full(shape, np.nan if work_dtype(bm) == np.float64 else 0, dtype=work_dtype(bm))
    pl = placement(fmt, k)
    for i, ch in enumerate(children):
        if ch is None:
            continue
        assert MASKABLE.get(ch[0], ch[0]) == bm
        fy, sy, ny, fx, sx, nx = pl[i]
        assert (sy, sx, ny, nx) == (1, 1, k, k), pl[i]
        vals, valid = contrib(ch[0], ch[1], rule)
        region = buf[fy:fy + k, fx:fx + k]
        m = valid if region.ndim == 2 else np.broadcast_to(valid[..., None], region.shape)
        np.copyto(region, vals, where=m)
    out = block_reduce(bm, buf)
    return (bm, out.astype(dtype_of(bm)))


def mirror_masked(tile):
    mode, a = tile
    if mode in ("RGB",) + INT_MODES:
        return False
    if mode == "RGBA":
        return bool(np.all(a[..., 3] == 0))
    return bool(np.all(np.isnan(a)))


def children_of(p):
    n, x, y = p
    return [(n + 1, 2 * x, 2 * y), (n + 1, 2 * x + 1, 2 * y), (n + 1, 2 * x, 2 * y + 1), (n + 1, 2 * x + 1, 2 * y + 1)]


def mirror_pyramid(fmt, k, start, leaves, rule):
    """Merge.pyramid_spec: dict pos -> (mode, array) of the files above the start level"""
    cur = dict(leaves)
    out = {}
    for n in range(start - 1, -1, -1):
        for y in range(2 ** n):
            for x in range(2 ** n):
                p = (n, x, y)
                m = mirror_merge(fmt, k, [cur.get(c) for c in children_of(p)], rule)
                if m is not None and not mirror_masked(m):
                    if fmt == "jpg":
                        m = ("RGB", m[1][..., :3])       # what a jpg decodes to; pixels not modelled
                    cur[p] = m
                    out[p] = m
    return out


def postfix_order(start):
    out = []

    def rec(p):
        if p[0] >= start:
            return
        for c in children_of(p):
            rec(c)
        out.append(p)
    rec((0, 0, 0))
    return out


def random_valid_order(rng, start):
    """another children-first enumeration of the positions above the start level"""
    pending = {p: 0 for p in postfix_order(start)}
    ready = [p for p in pending if p[0] == start - 1]
    done = []
    cnt = {}
    while ready:
        p = ready.pop(rng.randrange(len(ready)))
        done.append(p)
        if p[0] > 0:
            q = (p[0] - 1, p[1] // 2, p[2] // 2)
            cnt[q] = cnt.get(q, 0) + 1
            if cnt[q] == 4:
                ready.append(q)
    return done


# ------------------------------------------------------------------ the property's own predicate (display orientation)

def to_display(fmt, a):
    return a[::-1] if fmt == "fits" else a


def property_parent(fmt, k, children):
    """Expected parent in DISPLAY orientation straight from the statement: the
    2k x 2k mosaic with child (2x+i, 2y+j) in quadrant (i, j), missing children
    and undefined pixels undefined, 2x2 block reduction.  None when no child exists."""
    first = next((c for c in children if c is not None), None)
    if first is None:
        return None
    bm = MASKABLE.get(first[0], first[0])
    nch = chans(bm)
    is_f = bm in ("F32", "F64", "F16x3")
    mosaic = np.full((2 * k, 2 * k, nch) if nch else (2 * k, 2 * k), np.nan if is_f else 0, dtype=np.float64)
    for j in (0, 1):
        for i in (0, 1):
            ch = children[i + 2 * j]
            if ch is None:
                continue
            mode, a = ch
            d = to_display(fmt, np.asarray(a)).astype(np.float64)
            if mode == "RGB":
                d = np.concatenate([d, np.full(d.shape[:2] + (1,), 255.0)], axis=2)
            elif mode == "RGBA":
                d = np.where(d[..., 3:4] == 0, 0.0, d)
            elif mode == "F16x3":
                d = np.where(np.any(np.isnan(d), axis=2, keepdims=True), np.nan, d)
            mosaic[j * k:(j + 1) * k, i * k:(i + 1) * k] = d
    out = np.empty((k, k, nch) if nch else (k, k), dtype=np.float64)
    for a in range(k):
        for b in range(k):
            blk = mosaic[2 * a:2 * a + 2, 2 * b:2 * b + 2]
            if is_f:
                flat = blk.reshape(4, -1)
                with warnings.catch_warnings():
                    warnings.simplefilter("ignore")
                    out[a, b] = np.nanmean(flat, axis=0) if nch else np.nanmean(flat)
            else:
                out[a, b] = np.trunc(blk.reshape(4, -1).sum(axis=0) / 4.0) if nch else np.trunc(blk.sum() / 4.0)
    return bm, out


def property_parent_fast(fmt, k, children):
    """vectorised version of property_parent (same definition) for 256x256 tiles"""
    first = next((c for c in children if c is not None), None)
    if first is None:
        return None
    bm = MASKABLE.get(first[0], first[0])
    nch = chans(bm)
    is_f = bm in ("F32", "F64", "F16x3")
    mosaic = np.full((2 * k, 2 * k, nch) if nch else (2 * k, 2 * k), np.nan if is_f else 0, dtype=np.float64)
    for j in (0, 1):
        for i in (0, 1):
            ch = children[i + 2 * j]
            if ch is None:
                continue
            mode, a = ch
            d = to_display(fmt, np.asarray(a)).astype(np.float64)
            if mode == "RGB":
                d = np.concatenate([d, np.full(d.shape[:2] + (1,), 255.0)], axis=2)
            elif mode == "RGBA":
                d = np.where(d[..., 3:4] == 0, 0.0, d)
            elif mode == "F16x3":
                d = np.where(np.any(np.isnan(d), axis=2, keepdims=True), np.nan, d)
            mosaic[j * k:(j + 1) * k, i * k:(i + 1) * k] = d
    quads = np.stack([mosaic[0::2, 0::2], mosaic[0::2, 1::2], mosaic[1::2, 0::2], mosaic[1::2, 1::2]])
    if is_f:
        with warnings.catch_warnings():
            warnings.simplefilter("ignore")
            out = np.nanmean(quads, axis=0)
    else:
        out = np.trunc(quads.sum(axis=0) / 4.0)
    return bm, out


def same_pixels(a, b):
    a = np.asarray(a, dtype=np.float64)
    b = np.asarray(b, dtype=np.float64)
    return a.shape == b.shape and bool(np.all((a == b) | (np.isnan(a) & np.isnan(b))))


def property_pyramid(fmt, k, start, leaves, files):
    """Evaluate the statement on the files the implementation left: returns a list
    of reasons it fails.  `files`: dict pos -> (mode, array) of everything on disk
    above the start level; leaves: dict pos -> (mode, array)."""
    why = []
    allf = dict(leaves)
    allf.update(files)
    pp = property_parent if k <= 8 else property_parent_fast
    for n in range(start - 1, -1, -1):
        for y in range(2 ** n):
            for x in range(2 ** n):
                p = (n, x, y)
                ch = [allf.get(c) for c in children_of(p)]
                exp = pp(fmt, k, ch)
                got = files.get(p)
                if exp is None:
                    if got is not None:
                        why.append(f"{p} exists although none of its children exists")
                    continue
                bm, e = exp
                e_masked = mirror_masked((bm, e if bm != "RGBA" else e.astype(np.int64)))
                if got is None:
                    if not e_masked:
                        why.append(f"{p} is missing although a child exists and the reduction is not entirely undefined")
                    continue
                if e_masked:
                    why.append(f"{p} exists although the reduction is entirely undefined")
                    continue
                if fmt == "jpg":
                    continue
                if got[0] != bm:
                    why.append(f"{p} has mode {got[0]}, expected {bm}")
                elif not same_pixels(to_display(fmt, got[1]), e):
                    why.append(f"{p}: pixels are not the 2x2 reduction of the children mosaic")
                if len(why) > 6:
                    return why
    return why


# ------------------------------------------------------------------ generated pyramids (shared with C14)

def gen_leaf(nprng, mode, scale, pattern, k=TILE, amax=50, allow_neg=False):
    """k x k tile of `mode`; float/int values are integers times `scale`"""
    c = chans(mode)
    und = np.zeros((k, k), dtype=bool)
    if pattern == "all":
        und[:] = True
    elif pattern == "random":
        und = nprng.random_sample((k, k)) < nprng.choice([0.1, 0.5, 0.9])
    elif pattern == "blocks":
        for _ in range(nprng.randint(1, 4)):
            r0, r1 = sorted(nprng.randint(0, k + 1, 2))
            c0, c1 = sorted(nprng.randint(0, k + 1, 2))
            und[r0:r1, c0:c1] = True
    elif pattern == "odd":
        und[nprng.randint(0, 2)::2, :] = True          # alternating rows: every block half defined
    if mode in ("F32", "F64"):
        a = (nprng.randint(-amax, amax + 1, (k, k)) * scale).astype(np.float64)
        a[und] = np.nan
        return a.astype(dtype_of(mode))
    if mode == "F16x3":
        a = (nprng.randint(-amax, amax + 1, (k, k, 3)) * scale).astype(np.float64)
        partial = nprng.random_sample((k, k, 3)) < 0.4
        partial[..., 0] |= ~partial.any(axis=2)
        a[und[..., None] & partial] = np.nan
        if pattern == "all":
            a[...] = np.nan
        return a.astype(np.float16)
    if mode == "RGB":
        return nprng.randint(0, 256, (k, k, 3)).astype(np.uint8)
    if mode == "RGBA":
        a = nprng.randint(0, 256, (k, k, 4)).astype(np.uint8)
        a[..., 3] = nprng.choice([1, 2, 3, 64, 255, 255], (k, k))
        a[und, 3] = 0
        return a
    hi = {"U8": 255, "I16": 32767, "I32": 2 ** 31 - 1}[mode]
    lo = -hi if (allow_neg and mode != "U8") else 0
    a = nprng.randint(lo, hi + 1, (k, k), dtype=np.int64)
    a[und] = 0
    return a.astype(dtype_of(mode))


def gen_pyramid(rng, fmt, mode, start, k=TILE, allow_neg=False, shape=None):
    """random sparse leaf population at level `start`; returns dict pos -> (mode, array, how)
    where how = 'pio' (written through PyramidIO.write_image) or 'direct'
    (file put in place with Image.save, used for leaves that are entirely undefined)"""
    nprng = np.random.RandomState(rng.randrange(2 ** 32))
    n = 2 ** start
    allpos = [(start, x, y) for y in range(n) for x in range(n)]
    shape = shape or rng.choice(("sparse", "sparse", "single", "quadrant", "dense", "full"))
    if shape == "single":
        chosen = [rng.choice(allpos)]
    elif shape == "quadrant":
        qx, qy = rng.randrange(2), rng.randrange(2)
        chosen = [p for p in allpos if not (p[1] * 2 // n == qx and p[2] * 2 // n == qy) and rng.random() < 0.7] or [allpos[0]]
    elif shape == "full":
        chosen = list(allpos)
    else:
        dens = 0.3 if shape == "sparse" else 0.8
        chosen = [p for p in allpos if rng.random() < dens] or [rng.choice(allpos)]
    if start == 3 and len(chosen) > 28:
        chosen = rng.sample(chosen, 28)
    scale = 12 ** start if mode in ("F32", "F64", "F16x3") else 1
    amax = 50
    if mode == "F16x3":
        amax = {1: 100, 2: 14}.get(start, 1)
    leaves = {}
    for p in chosen:
        pat = rng.choice(("none", "random", "blocks", "odd", "blocks", "all"))
        a = gen_leaf(nprng, mode, scale, pat, k=k, amax=amax, allow_neg=allow_neg)
        how = "direct" if mirror_masked((mode, a)) else "pio"
        leaves[p] = (mode, a, how)
    return leaves


def _quiet():
    return contextlib.redirect_stdout(io.StringIO())


def write_leaves(base, fmt, leaves):
    from toasty.image import Image
    from toasty.pyramid import PyramidIO, Pos
    shutil.rmtree(base, ignore_errors=True)
    pio = PyramidIO(base, default_format=fmt)
    with warnings.catch_warnings():
        warnings.simplefilter("ignore")
        for p, (mode, a, how) in leaves.items():
            img = Image.from_array(a.copy())
            if how == "pio":
                pio.write_image(Pos(*p), img)
            else:
                img.save(pio.tile_path(Pos(*p)), format=fmt)
    return pio


def populated_ancestors(leaves):
    s = set()
    for p in leaves:
        q = p
        while True:
            s.add(q)
            if q[0] == 0:
                break
            q = (q[0] - 1, q[1] // 2, q[2] // 2)
    return s


def run_real_cascade(base, fmt, start, leaves, parallel, use_filter, stale=None):
    """write the leaves, run the real cascade, return dict pos -> (mode, array) of
    every tile file found above the start level (jpg: array None).
    [stale]: tiles put in place above the start level BEFORE the cascade (the directory
    holds the output of an earlier cascade); none of them may survive unless the cascade
    produces a tile there."""
    from toasty.merge import cascade_images, averaging_merger
    from toasty.image import Image
    from toasty.pyramid import Pos
    pio = write_leaves(base, fmt, leaves)
    for p, (_mode, a) in (stale or {}).items():
        with warnings.catch_warnings():
            warnings.simplefilter("ignore")
            Image.from_array(a.copy()).save(pio.tile_path(Pos(*p)), format=fmt)
    flt = None
    if use_filter:
        keep = populated_ancestors(leaves)
        flt = lambda t: (t.pos.n, t.pos.x, t.pos.y) in keep       # noqa: E731
    with warnings.catch_warnings(), _quiet():
        warnings.simplefilter("ignore")
        cascade_images(pio, start, averaging_merger, parallel=parallel, tile_filter=flt)
    return pio, scan_files(base, fmt, start)


def scan_files(base, fmt, start):
    files = {}
    for root, _dirs, names in os.walk(base):
        for nm in names:
            if not nm.endswith("." + fmt):
                continue
            rel = os.path.relpath(os.path.join(root, nm), base).split(os.sep)
            if len(rel) != 3:
                continue
            n = int(rel[0])
            y, x = rel[2].rsplit(".", 1)[0].split("_")
            p = (n, int(x), int(y))
            if n >= start:
                continue
            if fmt == "jpg":
                files[p] = ("RGB", np.zeros((TILE, TILE, 3), dtype=np.uint8))     # pixels not compared
            else:
                a = decode_file_independently(os.path.join(root, nm), fmt)
                files[p] = (array_mode(a), np.asarray(a))
    return files


# ------------------------------------------------------------------ Coq-side cases

def g_oimg(o):
    return "None" if o is None else f"(Some ({g_nat(MODES.index(o[0]))}, {g_zlist(pack2(o[0], o[1]))}))"


def small_scale(mode, levels):
    return 12 ** levels if mode in ("F32", "F64", "F16x3") else 1


def gen_small_tile(nprng, rng, mode, k, levels, allow_neg):
    pat = rng.choice(("none", "random", "random", "all", "odd"))
    amax = 10 if mode != "F16x3" else (14 if levels == 2 else 100)
    return gen_leaf(nprng, mode, small_scale(mode, levels), pat, k=k, amax=amax, allow_neg=allow_neg)


def gen_merge_cases(rng, n):
    cases = []
    nprng = np.random.RandomState(rng.randrange(2 ** 32))
    for i in range(n):
        fmt = rng.choice(FMTS)
        k = rng.choice((1, 2, 2, 3, 4))
        mode = MODES[i % 8]
        fixed = rng.random() < 0.5
        neg = rng.random() < 0.5
        pres = [rng.random() < 0.65 for _ in range(4)]
        if i % 17 == 0:
            pres = [False] * 4
        cs = []
        for pr in pres:
            if not pr:
                cs.append(None)
                continue
            m = mode
            if mode in ("RGB", "RGBA") and rng.random() < 0.3:
                m = rng.choice(("RGB", "RGBA"))         # mixed RGB / RGBA children share the RGBA buffer
            cs.append((m, gen_small_tile(nprng, rng, m, k, 1, neg)))
        cases.append(dict(type="merge", fmt=fmt, k=k, fixed=fixed, cs=cs))
    return cases


def g_mcase(c, exp):
    return "(mkMC %s %s %s %s %s)" % (g_nat(FMTS.index(c["fmt"])), g_Z(c["k"]), g_bool(c["fixed"]),
                                       g_list([g_oimg(x) for x in c["cs"]]), g_oimg(exp))


def gen_cascade_cases(rng, n):
    cases = []
    nprng = np.random.RandomState(rng.randrange(2 ** 32))
    for i in range(n):
        fmt = rng.choice(("npy", "npy", "fits", "png"))
        mode = MODES[i % 8]
        if fmt == "png" and mode not in ("RGB", "RGBA"):
            fmt = "npy"
        if fmt == "fits" and mode == "F16x3":
            fmt = "npy"
        k = rng.choice((1, 2, 2))
        start = rng.choice((1, 2, 2))
        fixed = rng.random() < 0.5
        neg = rng.random() < 0.4
        n_ = 2 ** start
        leaves = {}
        for y in range(n_):
            for x in range(n_):
                if rng.random() < 0.45:
                    leaves[(start, x, y)] = (mode, gen_small_tile(nprng, rng, mode, k, start, neg))
        order = postfix_order(start) if rng.random() < 0.5 else random_valid_order(rng, start)
        # half of the cases: tiles already lie above the start level (an earlier cascade's output)
        stale = {}
        if i % 2 == 1:
            for q in postfix_order(start):
                if rng.random() < 0.5:
                    stale[q] = (mode, gen_small_tile(nprng, rng, mode, k, start, neg))
        cases.append(dict(type="cascade", fmt=fmt, k=k, start=start, fixed=fixed, leaves=leaves, order=order, stale=stale))
    return cases


def g_ccase(c, files):
    leaves = g_list([f"({g_pos(p)}, ({g_nat(MODES.index(m))}, {g_zlist(pack2(m, a))}))"
                     for p, (m, a) in list(c["leaves"].items()) + list(c.get("stale", {}).items())])
    order = g_list([g_pos(p) for p in c["order"]])
    allpos = postfix_order(c["start"])
    fl = g_list([f"({g_pos(p)}, {g_oimg(files.get(p))})" for p in allpos])
    return "(mkCC %s %s %s %s %s %s)" % (g_nat(FMTS.index(c["fmt"])), g_Z(c["k"]), g_bool(c["fixed"]), leaves, order, fl)


def gen_avg_cases(rng, n):
    """small arrays for the real averaging_merger"""
    cases = []
    nprng = np.random.RandomState(rng.randrange(2 ** 32))
    for i in range(n):
        mode = MODES[i % 8]
        h, w = 2 * rng.randint(1, 4), 2 * rng.randint(1, 4)
        pat = rng.choice(("none", "random", "random", "all", "odd"))
        a = gen_leaf(nprng, mode, 12 if mode in ("F32", "F64", "F16x3") else 1, pat, k=max(h, w), amax=40, allow_neg=True)[:h, :w]
        cases.append(dict(type="avg", mode=mode, h=h, w=w, data=pack2(mode, a)))
    return cases


def unpack2(mode, h, w, data):
    c = chans(mode)
    a = np.zeros((h, w, c) if c else (h, w), dtype=dtype_of(mode))
    k = 0
    for r in range(h):
        for cc in range(w):
            z = data[k]
            k += 1
            if mode == "RGB":
                a[r, cc] = (z % 256, (z // 256) % 256, (z // 65536) % 256)
            elif mode == "RGBA":
                a[r, cc] = (z % 256, (z // 256) % 256, (z // 65536) % 256, z // 16777216)
            elif mode in ("F32", "F64"):
                a[r, cc] = np.nan if z == 1 else z // 2
            elif mode == "F16x3":
                es = (z % 4096, (z // 4096) % 4096, z // 16777216)
                a[r, cc] = [np.nan if e == 0 else e - 2048 for e in es]
            else:
                a[r, cc] = z
    return a


# ------------------------------------------------------------------ real pyramids

def pyramid_plan(rng, tier):
    """(fmt, mode, start, parallel, use_filter, allow_neg)"""
    plan = [
        ("npy", "F32", 2, 1, False, False), ("npy", "RGBA", 2, 2, False, False), ("npy", "F16x3", 2, 1, False, False),
        ("npy", "U8", 1, 1, False, False), ("npy", "I32", 2, 2, False, False), ("npy", "RGB", 1, 1, False, False),
        ("npy", "F64", 3, 2, False, False), ("npy", "I16", 2, 1, True, False),
        ("png", "RGB", 2, 1, False, False), ("png", "RGBA", 3, 2, False, False),
        ("fits", "F32", 3, 1, False, False), ("fits", "F64", 2, 2, False, False), ("fits", "I16", 2, 1, False, False),
        ("fits", "U8", 1, 2, False, False), ("fits", "F32", 2, 2, True, False),
        ("jpg", "RGB", 2, 1, False, False),
        # finding C02-1 witness family: signed integers with negative values
        ("npy", "I16", 1, 1, False, True), ("fits", "I32", 2, 1, False, True),
    ]
    combos = [(f, m) for f in ("npy", "png", "fits") for m in MODES if holds(f, m)]
    if tier == "quick":
        for i in range(8):
            f, m = rng.choice(combos)
            start = rng.choice((1, 2, 2, 3))
            if m == "F16x3":
                start = min(start, 2)
            plan.append((f, m, start, rng.choice((1, 2)), False, False))
    if tier != "quick":
        combos = [(f, m) for f in ("npy", "png", "fits") for m in MODES if holds(f, m)]
        for i in range(46):
            f, m = combos[i % len(combos)]
            start = rng.choice((1, 2, 2, 3))
            if m == "F16x3":
                start = min(start, 2)
            plan.append((f, m, start, rng.choice((1, 2)), rng.random() < 0.15, False))
        plan.append(("jpg", "RGB", 3, 2, False, False))
        plan.append(("npy", "I32", 2, 2, False, True))
    return plan


def jpg_parent_check(V, base, start, cfg, seedinfo):
    """jpg tiles are lossy, so the model only fixes which tiles exist.  The statement still says a parent is
    the reduction of its *stored* children: decode the stored children (PIL), reduce them with the numpy
    expansion of the model, encode the result the way any RGB tile is stored (PIL JPEG, default settings)
    and compare with the stored parent, exactly.  Returns the number of parents compared."""
    import io as _io
    from PIL import Image as PILImage
    dec = {}
    for root, _dirs, names in os.walk(base):
        for nm in names:
            if not nm.endswith(".jpg"):
                continue
            rel = os.path.relpath(os.path.join(root, nm), base).split(os.sep)
            if len(rel) != 3:
                continue
            y, x = rel[2].rsplit(".", 1)[0].split("_")
            dec[(int(rel[0]), int(x), int(y))] = np.asarray(PILImage.open(os.path.join(root, nm)).convert("RGB"))
    n = 0
    for p in sorted(dec, key=lambda q: -q[0]):
        if p[0] >= start:
            continue
        ch = [(("RGB", dec[c]) if c in dec else None) for c in children_of(p)]
        exp = mirror_merge("jpg", TILE, ch, "fixed")
        if exp is None:
            continue
        buf = _io.BytesIO()
        PILImage.fromarray(exp[1]).convert("RGB").save(buf, format="JPEG")
        want = np.asarray(PILImage.open(_io.BytesIO(buf.getvalue())).convert("RGB"))
        n += 1
        if want.shape != dec[p].shape or not np.array_equal(want, dec[p]):
            diff = int(np.abs(want.astype(int) - dec[p].astype(int)).max()) if want.shape == dec[p].shape else -1
            V.disagreement("C02 on jpg pyramids: a parent is the (re-encoded) 2x2 reduction of its stored children",
                           dict(type="pyramid", cfg=list(cfg), seed=seedinfo, parent=list(p)),
                           "JPEG(reduction of the decoded stored children)", dict(max_abs_difference=diff), True)
            break
    return n


def compare_pyramid(V, cfg, leaves, files, seedinfo, stale=None):
    """model (numpy expansion) vs implementation, plus the property predicate.
    Returns (n_tiles_compared, nontrivial?)"""
    fmt, mode, start, parallel, use_filter, allow_neg = cfg
    lv = {p: (m, a) for p, (m, a, _h) in leaves.items()}
    case = dict(type="pyramid", cfg=list(cfg), seed=seedinfo, leaves=sorted(map(list, leaves)),
                tiles_present_before_the_cascade=sorted(map(list, stale or {})))

    def diff(expf):
        bad = []
        for p in set(expf) | set(files):
            e, g = expf.get(p), files.get(p)
            if e is None or g is None:
                bad.append((p, "file set"))
            elif fmt != "jpg" and (e[0] != g[0] or not same_pixels(e[1], g[1])):
                bad.append((p, "pixels"))
        return bad

    exp_fixed = mirror_pyramid(fmt, TILE, start, lv, "fixed")
    bad = diff(exp_fixed)
    has_neg = mode in INT_MODES and any(np.any(np.asarray(a) < 0) for (m, a) in lv.values())
    why = property_pyramid(fmt, TILE, start, lv, files)
    if bad:
        exp_coded = mirror_pyramid(fmt, TILE, start, lv, "coded") if has_neg else None
        if exp_coded is not None and not diff(exp_coded):
            # the code as it is: the known finding
            V.disagreement("merge_pixel (all contents) fails on the code as it is: theorem merge_pixel_refuted; "
                           "implementation matches Merge.merge_tiles (np.maximum rule), not merge_tiles_fixed",
                           case, "parent = truncated mean of the stored values (merge_pixel_fixed)",
                           dict(differing=[list(p) for p, _ in bad[:5]], property=why[:3]), bool(why), finding_key=FINDING_NEG)
        else:
            V.disagreement("Merge.cascade / pyramid_spec ~ cascade_images (theorems merge_pixel, merge_exists, cascade_spec)",
                           case, dict(files=sorted(map(list, exp_fixed))[:12]),
                           dict(differing=[[list(p), w] for p, w in bad[:6]], files=sorted(map(list, files))[:12], property=why[:3]),
                           bool(why))
    elif why:
        V.disagreement("C02 predicate on implementation (model agrees with implementation!)", case, "statement holds", why[:4], True)
    return len(files), len(exp_fixed)


def run(ctx, V):
    rng = common.rng_for(ctx["seed"], "C02")
    tier = ctx["tier"]
    quick = tier == "quick"
    base = str(common.workdir() / "c02")
    os.makedirs(base, exist_ok=True)
    load_placement()
    defs = COQ_HDR + COQ_DEFS
    hist = {}

    # ---- (A) numpy expansion vs the Gallina model: single merges at k = 1..4
    mcs = gen_merge_cases(rng, 240 if quick else 2400)
    m_exp = [mirror_merge(c["fmt"], c["k"], c["cs"], "fixed" if c["fixed"] else "coded") for c in mcs]
    bad = common.coq_eval_sharded(defs, [g_mcase(c, e) for c, e in zip(mcs, m_exp)], "chk_mc", IMPORTS, shard=120, jobs=12, name="c02m")
    for j, code in bad.items():
        c = mcs[j]
        V.disagreement("numpy expansion (mirror_merge) ~ Merge.merge_tiles_gen", dict(type="merge", fmt=c["fmt"], k=c["k"], fixed=c["fixed"],
                       cs=[None if x is None else [x[0], pack2(x[0], x[1])] for x in c["cs"]]), f"code {code}", None, None)
    # the property predicate against the expansion on the same small cases (display orientation)
    for c, e in zip(mcs, m_exp):
        if not c["fixed"]:
            continue
        pe = property_parent(c["fmt"], c["k"], c["cs"])
        if (pe is None) != (e is None) or (e is not None and (pe[0] != e[0] or not same_pixels(to_display(c["fmt"], e[1]), pe[1]))):
            V.disagreement("display-orientation statement ~ Merge.merge_tiles_fixed (theorem merge_pixel_fixed)",
                           dict(type="merge", fmt=c["fmt"], k=c["k"]), "equal", "differ", None)

    # ---- (B) whole cascades at small k: numpy expansion vs Gallina cascade
    ccs = gen_cascade_cases(rng, 60 if quick else 500)
    c_exp = [mirror_pyramid(c["fmt"], c["k"], c["start"], c["leaves"], "fixed" if c["fixed"] else "coded") for c in ccs]
    bad = common.coq_eval_sharded(defs, [g_ccase(c, e) for c, e in zip(ccs, c_exp)], "chk_cc", IMPORTS, shard=20, jobs=12, name="c02c")
    for j, code in bad.items():
        c = ccs[j]
        V.disagreement("numpy expansion (mirror_pyramid) ~ Merge.cascade_gen", dict(type="cascade", fmt=c["fmt"], k=c["k"], start=c["start"],
                       fixed=c["fixed"], order=[list(p) for p in c["order"]]), f"code {code}", None, None)

    # ---- (C) the real averaging_merger on explicit small arrays
    from toasty.merge import averaging_merger
    acs = gen_avg_cases(rng, 400 if quick else 4000)
    terms = []
    for c in acs:
        a = unpack2(c["mode"], c["h"], c["w"], c["data"])
        o = averaging_merger(a.copy())
        if o.dtype != a.dtype or o.shape[:2] != (c["h"] // 2, c["w"] // 2):
            V.disagreement("averaging_merger shape/dtype", c, "same dtype, halved shape", [str(o.dtype), list(o.shape)], True)
            continue
        ok_int = True
        try:
            od = pack2(c["mode"], o)
        except AssertionError:
            ok_int = False
        if not ok_int:
            V.disagreement("Merge.averaging_merger ~ merge.py:50-69", c, "exact mean", "non-integer mean", None)
            continue
        terms.append("(mkAC %s %s %s %s %s)" % (g_nat(MODES.index(c["mode"])), g_Z(c["h"]), g_Z(c["w"]), g_zlist(c["data"]), g_zlist(od)))
        # the statement's averaging rule, directly
        pe = block_reduce(c["mode"], a.astype(work_dtype(c["mode"])))
        if not same_pixels(pe, o):
            V.disagreement("C02 averaging rule on implementation", c, "mean of non-NaN / truncated mean", "differs", True)
    bad = common.coq_eval_sharded(defs, terms, "chk_ac", IMPORTS, shard=400, jobs=8, name="c02a")
    for j in bad:
        V.disagreement("Merge.averaging_merger ~ merge.py:50-69 (theorems merge_avg_float / merge_avg_int)", acs[j], "model value", "differs", None)

    # ---- (D) real cascades on 256 x 256 tiles
    plan = pyramid_plan(rng, tier)
    rp = ctx.get("replay")
    if rp and isinstance(rp.get("case"), dict) and rp["case"].get("type") == "pyramid":
        c = rp["case"]
        plan = [tuple(c["cfg"]) + (c["seed"],)] + [p for p in plan[:3]]
    n_tiles = 0
    n_pyr = 0
    n_stale = 0
    n_jpg = 0
    nontrivial = set()
    samples = []
    for i, cfg in enumerate(plan):
        if len(cfg) == 7:
            seedinfo = cfg[6]
            cfg = cfg[:6]
        else:
            seedinfo = f"{ctx['seed']}/C02/pyr/{i}"
        prng = common.rng_for(seedinfo)
        fmt, mode, start, parallel, use_filter, allow_neg = cfg
        leaves = gen_pyramid(prng, fmt, mode, start, allow_neg=allow_neg)
        # every third unfiltered pyramid: the directory already holds tiles above the start
        # level (left by an earlier cascade of other data): above populated leaves, above
        # entirely undefined leaves, and where no leaf exists at all
        stale = None
        if i % 3 == 1 and not use_filter and fmt != "jpg":
            snp = np.random.RandomState(prng.randrange(1 << 30))
            upper = [(n, x, y) for n in range(start) for x in range(2 ** n) for y in range(2 ** n)]
            stale = {}
            for q in upper:
                if prng.random() < (0.7 if len(upper) <= 5 else 0.4):
                    stale[q] = (mode, gen_leaf(snp, mode, 1.0 if mode in ("F32", "F64", "F16x3") else 1, "none", amax=40))
            n_stale += len(stale)
        d = os.path.join(base, f"p{i}")
        try:
            _pio, files = run_real_cascade(d, fmt, start, leaves, parallel, use_filter, stale=stale)
        except Exception as e:  # noqa
            V.disagreement("cascade_images completes", dict(type="pyramid", cfg=list(cfg), seed=seedinfo), "returns", repr(e), True)
            shutil.rmtree(d, ignore_errors=True)
            continue
        nt, ne = compare_pyramid(V, cfg, leaves, files, seedinfo, stale=stale)
        if fmt == "jpg":
            n_jpg += jpg_parent_check(V, d, start, cfg, seedinfo)
        # serial and parallel runs give the same files (order independence): rerun the other way
        if not quick or i % 4 == 0:
            d2 = os.path.join(base, f"p{i}b")
            _pio2, files2 = run_real_cascade(d2, fmt, start, leaves, 2 if parallel == 1 else 1, use_filter, stale=stale)
            same = set(files) == set(files2) and all(fmt == "jpg" or same_pixels(files[p][1], files2[p][1]) for p in files)
            if not same:
                V.disagreement("cascade_order_independent: serial vs parallel=2 outputs", dict(type="pyramid", cfg=list(cfg), seed=seedinfo),
                               "identical file sets and pixels", "differ", True)
            shutil.rmtree(d2, ignore_errors=True)
        shutil.rmtree(d, ignore_errors=True)
        n_tiles += nt
        n_pyr += 1
        key = f"{fmt}/{mode}/start{start}/par{parallel}/filter{int(use_filter)}"
        hist[key] = hist.get(key, 0) + 1
        if 0 < len(leaves) < 4 ** start and ne > 0:
            nontrivial.add((cfg, tuple(sorted(leaves))))
        if len(samples) < 3:
            samples.append(dict(cfg=list(cfg), leaves=sorted(map(list, leaves)), produced=sorted(map(list, files))))

    return dict(
        evaluations=len(mcs) + len(ccs) + len(acs) + n_pyr,
        distinct_nontrivial=len(nontrivial) + len({(c["fmt"], c["k"], c["fixed"], str([None if x is None else x[0] for x in c["cs"]])) for c in mcs
                                                    if 0 < sum(x is not None for x in c["cs"]) < 4}),
        rule="real cascades: 256x256 tiles, start depth 1-3, sparse leaf sets (single leaf, empty quadrant, sparse, dense, full), "
             "undefined-pixel patterns (none/random/blocks/alternating rows/all; entirely undefined leaves put in place directly), "
             "npy x 8 modes, png RGB/RGBA, fits float+int, jpg existence; serial and real parallel=2, some with an accept-populated TOAST filter; "
             "every third unfiltered pyramid starts from a directory that already holds tiles above the start level (re-cascade); "
             "every pixel of every produced tile compared with the numpy expansion of the model and with the display-orientation statement; "
             "non-trivial = distinct pyramid with a proper sparse subset of leaves and at least one produced tile. "
             "Model-side: single merges (k=1..4, all modes/parities/sparsity, both integer rules) and whole cascades (k=1,2; start 1,2; "
             "postfix and random children-first orders) evaluated in Coq against the expansion; real averaging_merger on small arrays "
             "(all dtypes, negative ints, NaN) against Merge.averaging_merger; non-trivial merges = distinct (format,k,rule,presence pattern) with 1-3 children present.",
        real_pyramids=n_pyr, real_tiles_compared=n_tiles, tiles_present_before_the_cascade=n_stale, jpg_parents_compared=n_jpg, pixels_compared=n_tiles * TILE * TILE,
        small_merges=len(mcs), small_cascades=len(ccs), averaging_cases=len(acs),
        placement={f"{f}/{k}": v for (f, k), v in _PLACEMENT.items() if k == TILE},
        input_histogram=hist, samples=samples)
