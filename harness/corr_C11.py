"""C11 correspondence: plate-carree samplers return the containing source pixel.

Implementation side: the six sampler factories of toasty/samplers.py:167-436,
called on maps whose values encode the flat pixel index (so the returned values
say which element data[iy, ix] was read).
Model side: Model/Sampler.v evaluated by vm_compute on the exact rationals of
the doubles (pi := the double np.pi); `check_point` compares strictly when the
unrounded index is further than EPS from a rounding tie and accepts either
neighbour (columns: cyclically) inside EPS.
"""
import math

import numpy as np

import common
from common import g_Z, g_list

TRUSTED = [
    "astropy frame rotations ICRS->Galactic / ICRS->BarycentricTrueEcliptic are an oracle: the harness calls astropy "
    "the way the sampler does and feeds the rotated doubles to the model; astropy itself is only sanity-checked "
    "against the IAU 1958 Galactic matrix (1e-6 rad) and the J2000 mean obliquity (2e-4 rad)",
    "numpy integer-array indexing data[iy, ix] (result shape = index shape + trailing axes)",
    "float64 evaluation of the index expressions is within 1e-9 px of the exact value for |lon| <= 1e3, maps <= 40 px",
]
ASSUMPTIONS = [
    "latitudes lie in [-pi/2, pi/2] (doubles between -HALFPI and HALFPI)",
    "float rounding is outside the model: decisions closer than 1e-9 px to a rounding tie accept either adjacent cell",
    "the ecliptic variant is compared with the layout the code implements (lon mod 2pi - pi, i.e. ecliptic longitude 0 "
    "on the image seam); the property statement does not fix that variant's layout",
]

KEY_GALACTIC = "C11/samplers.py:plate_carree_galactic_sampler/transform_to-frame-class"

TWOPI = 2 * np.pi
HALFPI = 0.5 * np.pi
EPS = 1e-9

# name, factory, left edge E, leftward?, longitude shift applied by the normalisation, principal-range kind
VARIANTS = {
    "PlateCarree": ("plate_carree_sampler", np.pi, True, 0.0),
    "ZeroRight": ("plate_carree_zeroright_sampler", TWOPI, True, 0.0),
    "Planet": ("plate_carree_planet_sampler", -np.pi, False, 0.0),
    "PlanetZeroLeft": ("plate_carree_planet_zeroleft_sampler", 0.0, False, 0.0),
    "Galactic": ("plate_carree_galactic_sampler", np.pi, True, 0.0),
    "Ecliptic": ("plate_carree_ecliptic_sampler", np.pi, True, np.pi),
}
ORDER = ["PlateCarree", "ZeroRight", "Planet", "PlanetZeroLeft", "Galactic", "Ecliptic"]


def fl(x):
    """double -> (m, e) with x = m * 2^e exactly, m odd or 0."""
    n, d = float(x).as_integer_ratio()
    e = -(d.bit_length() - 1)
    if n == 0:
        return 0, 0
    while n % 2 == 0:
        n //= 2
        e += 1
    return n, e


def coq_defs():
    m, e = fl(np.pi)
    return rf"""
From Coq Require Import QArith.
Local Open Scope Z_scope.
Definition PI : Q := q_of_float {g_Z(m)} {g_Z(e)}.
Definition EPS : Q := (1 # 1000000000)%Q.
Record pt := mkPt {{ lm : Z; le : Z; bm : Z; be : Z; oy : Z; ox : Z }}.
Record batch := mkB {{ bv : variant; bnx : Z; bny : Z; bpts : list pt }}.
Fixpoint chk_pts (v : variant) (nx ny : Z) (i : nat) (l : list pt) : nat :=
  match l with
  | [] => 0%nat
  | p :: l' =>
      match check_point PI EPS v nx ny (q_of_float (lm p) (le p)) (q_of_float (bm p) (be p)) (oy p) (ox p) with
      | O => chk_pts v nx ny (S i) l'
      | c => (2 * i + c)%nat
      end
  end.
Definition chk_batch (b : batch) : nat := chk_pts (bv b) (bnx b) (bny b) 0 (bpts b).
"""


# ------------------------------------------------------------------ implementation side

def make_data(ny, nx, colour):
    flat = np.arange(ny * nx, dtype=np.int64).reshape(ny, nx)
    if not colour:
        return flat
    c = int(np.prod(colour))
    return (flat[..., None] * c + np.arange(c, dtype=np.int64)).reshape((ny, nx) + tuple(colour))


def rotate(variant, lon, lat):
    """The rotation oracle, called the way the samplers call it (samplers.py:243-244, 289-290)."""
    if variant not in ("Galactic", "Ecliptic"):
        return lon, lat
    import astropy.units as u
    from astropy.coordinates import ICRS, Galactic, BarycentricTrueEcliptic
    if variant == "Galactic":
        g = ICRS(lon * u.rad, lat * u.rad).transform_to(Galactic())
        return g.l.rad, g.b.rad
    e = ICRS(lon * u.rad, lat * u.rad).transform_to(BarycentricTrueEcliptic())
    return e.lon.rad, e.lat.rad


def unrotate(variant, l, b):
    import astropy.units as u
    from astropy.coordinates import ICRS, Galactic, BarycentricTrueEcliptic
    if variant == "Galactic":
        c = Galactic(l=l * u.rad, b=b * u.rad).transform_to(ICRS())
    else:
        c = BarycentricTrueEcliptic(lon=l * u.rad, lat=b * u.rad).transform_to(ICRS())
    return c.ra.rad, c.dec.rad


LAYOUTS = ("C", "F", "strided", "readonly")


def layout_of(variant, ny, nx):
    """the memory layout in which the map is handed to the sampler (same logical content):
    C order, Fortran order, a strided view of a larger array, a read-only array"""
    return LAYOUTS[(3 * ny + 5 * nx + len(variant)) % 4]


def observe(variant, ny, nx, colour, lon, lat):
    """Call the real sampler; decode which (iy, ix) each output element came from.
    Returns dict(oy, ox, shape_ok, decode_ok) or dict(error=...)."""
    from toasty import samplers
    data = make_data(ny, nx, colour)
    lay = layout_of(variant, ny, nx)
    if lay == "F":
        data = np.asfortranarray(data)
    elif lay == "strided":
        big = np.zeros((2 * ny, 2 * nx) + data.shape[2:], dtype=data.dtype)
        big[::2, ::2] = data
        data = big[::2, ::2]
    elif lay == "readonly":
        data.setflags(write=False)
    try:
        s = getattr(samplers, VARIANTS[variant][0])(data)
        out = s(lon, lat)
    except Exception as e:  # IndexError = out of range; anything else = the sampler does not return
        return dict(error=f"{type(e).__name__}: {e}", etype=type(e).__name__)
    out = np.asarray(out)
    want_shape = np.shape(lon) + tuple(colour)
    res = dict(shape=tuple(out.shape), want_shape=tuple(want_shape), shape_ok=tuple(out.shape) == tuple(want_shape), layout=lay)
    if not res["shape_ok"]:
        return res
    c = int(np.prod(colour)) if colour else 1
    o = out.reshape(np.shape(lon) + (c,))
    flat = o[..., 0] // c
    res["decode_ok"] = bool(np.all(o == flat[..., None] * c + np.arange(c)))
    res["oy"], res["ox"] = flat // nx, flat % nx
    return res


# ------------------------------------------------------------------ property predicate (Python, float + tolerance)

def predicate(variant, nx, ny, l, b, oy, ox, tol=EPS):
    """C11 straight from the statement: (oy, ox) in range and its closed cell,
    measured from the documented left edge in the documented direction (rows
    from +pi/2 downwards), contains the point; tolerance `tol` pixels; columns
    cyclically (the two seam columns are neighbours on the sphere)."""
    _f, E, leftward, shift = VARIANTS[variant]
    ll = l - shift
    d = (E - ll) if leftward else (ll - E)
    u = np.mod(d, TWOPI) * (nx / TWOPI)
    du = np.mod(u - ox, nx)
    col_ok = (ox >= 0) & (ox < nx) & ((du <= 1 + tol) | (du >= nx - tol))
    v = (HALFPI - b) * (ny / np.pi)
    row_ok = (oy >= 0) & (oy < ny) & (oy - tol <= v) & (v <= oy + 1 + tol)
    return row_ok & col_ok


def margins(variant, nx, ny, l, b):
    """float estimate of the distance to the nearest rounding tie (stats only)."""
    _f, E, leftward, shift = VARIANTS[variant]
    ll = l - shift
    d = (E - ll) if leftward else (ll - E)
    u = np.mod(d, TWOPI) * (nx / TWOPI)
    v = (HALFPI - b) * (ny / np.pi)
    mu = np.abs(u - np.round(u))
    mv = np.abs(v - np.round(v))
    return mu, mv


# ------------------------------------------------------------------ generation

def ulps(x):
    x = float(x)
    return [x, float(np.nextafter(x, np.inf)), float(np.nextafter(x, -np.inf))]


def gen_points(rng, variant, nx, ny, n_rand):
    """Pre-rotation (lon, lat) arrays for one map."""
    _f, E, leftward, shift = VARIANTS[variant]
    w = TWOPI / nx
    h = np.pi / ny
    lons = []
    for s in (0.0, np.pi, -np.pi, TWOPI, -TWOPI, HALFPI, -HALFPI, 3 * np.pi, -3 * np.pi):
        lons += ulps(s) if s else [0.0, -0.0]
    if rng.random() < 0.15:   # denormals / tiny values (costly in exact arithmetic: 2^-1074 denominators)
        lons += [5e-324, -5e-324, 1e-17, -1e-17, 2.2250738585072014e-308]
    ks = list(range(nx + 1)) if nx <= 5 else sorted({0, 1, nx - 1, nx, nx // 2} | {rng.randint(0, nx) for _ in range(3)})
    for k in ks:
        base = (E - k * w if leftward else E + k * w) + shift
        j = rng.choice((0, 0, 1, -1, rng.randint(-150, 150)))
        lons += ulps(base + j * TWOPI)
        lons.append(base + (-0.5 * w if leftward else 0.5 * w) + rng.randint(-100, 100) * TWOPI)
    for _ in range(n_rand):
        lons.append(rng.uniform(-np.pi, np.pi))
        lons.append(rng.uniform(-1000.0, 1000.0))
    lats = []
    for s in (0.0, HALFPI, -HALFPI):
        lats += [s, float(np.nextafter(s, 0.0))]
    kys = list(range(ny + 1)) if ny <= 5 else sorted({0, 1, ny - 1, ny, ny // 2} | {rng.randint(0, ny) for _ in range(3)})
    for k in kys:
        lats += ulps(HALFPI - k * h)
        lats.append(HALFPI - (min(k, ny - 1) + 0.5) * h)
    for _ in range(n_rand):
        lats.append(rng.uniform(-HALFPI, HALFPI))
    lats = [min(max(x, -HALFPI), HALFPI) for x in lats]
    n = len(lons)
    lat_arr = np.array(lats[:n] if len(lats) >= n else lats + [rng.choice(lats) for _ in range(n - len(lats))])
    idx = list(range(n))
    rng.shuffle(idx)
    lon_arr = np.array(lons)[idx]
    if variant in ("Galactic", "Ecliptic"):
        # half of the points are placed relative to the rotated frame's cells
        half = n // 2
        ra, dec = unrotate(variant, lon_arr[:half], lat_arr[:half])
        turns = np.array([rng.choice((0, 0, 1, -1, rng.randint(-150, 150))) for _ in range(half)])
        lon_arr = np.concatenate([ra + turns * TWOPI, lon_arr[half:]])
        lat_arr = np.concatenate([np.clip(dec, -HALFPI, HALFPI), lat_arr[half:]])
    return lon_arr, lat_arr


def request_shape(rng, n):
    kind = rng.choice(("1d", "2d", "2d", "3d"))
    if kind == "1d" or n < 8:
        return (n,), n
    if kind == "2d":
        a = rng.choice((2, 3, 4, 5))
        return (a, n // a), a * (n // a)
    a, b = rng.choice(((2, 2), (2, 3), (3, 2)))
    return (a, b, n // (a * b)), a * b * (n // (a * b))


def gen_maps(rng, tier):
    maps = []
    sizes = list(range(1, 41))
    per_nx = 1 if tier == "quick" else 3
    for variant in ORDER:
        for nx in sizes:
            nys = {rng.choice(sizes) for _ in range(per_nx)}
            if tier != "quick":
                nys |= {1, max(1, nx // 2)}
            for ny in sorted(nys):
                colour = rng.choice(((), (), (3,), (4,), (2, 2)))
                maps.append((variant, ny, nx, colour))
        # the smallest shapes in every tier
        for ny, nx in ((1, 1), (1, 2), (2, 1), (3, 3), (1, 40), (40, 1)):
            maps.append((variant, ny, nx, ()))
    return maps


# ------------------------------------------------------------------ rotation sanity (astropy vs fixed matrices)

def rotation_sanity(rng, V):
    n = 200
    lon = np.array([rng.uniform(-np.pi, np.pi) for _ in range(n)])
    lat = np.array([math.asin(rng.uniform(-1, 1)) for _ in range(n)])
    xyz = np.array([np.cos(lat) * np.cos(lon), np.cos(lat) * np.sin(lon), np.sin(lat)])
    AG = np.array([[-0.0548755604, -0.8734370902, -0.4838350155],
                   [+0.4941094279, -0.4448296300, +0.7469822445],
                   [-0.8676661490, -0.1980763734, +0.4559837762]])
    eps0 = math.radians(23.4392911)
    AE = np.array([[1, 0, 0], [0, math.cos(eps0), math.sin(eps0)], [0, -math.sin(eps0), math.cos(eps0)]])
    worst = {}
    for variant, A, tol in (("Galactic", AG, 1e-6), ("Ecliptic", AE, 2e-4)):
        l, b = rotate(variant, lon, lat)
        got = np.array([np.cos(b) * np.cos(l), np.cos(b) * np.sin(l), np.sin(b)])
        want = A @ xyz
        sep = np.linalg.norm(np.cross(got.T, want.T), axis=1)  # sin of the separation (arccos is ill-conditioned here)
        worst[variant] = float(sep.max())
        if sep.max() > tol:
            V.disagreement("rotation oracle sanity: astropy vs fixed IAU matrix", dict(variant=variant, worst_sep_rad=float(sep.max())),
                           f"< {tol} rad", float(sep.max()), None)
    return worst


# ------------------------------------------------------------------ run

def point_case(variant, ny, nx, colour, lon, lat):
    return dict(layout=layout_of(variant, ny, nx), variant=variant, ny=ny, nx=nx, colour=list(colour), lon_hex=float(lon).hex(), lat_hex=float(lat).hex(),
                lon=float(lon), lat=float(lat))


def run(ctx, V):
    rng = common.rng_for(ctx["seed"], "C11")
    tier = ctx["tier"]
    maps = gen_maps(rng, tier)
    n_rand = 20 if tier == "quick" else 30

    batches = []      # (variant, ny, nx, colour, lon, lat (pre-rot, flat), l, b (post-rot, flat), oy, ox)
    evaluations = 0
    hist = {}
    raised = {}
    shape_checks = 0

    work = []
    rep = ctx.get("replay")
    if rep and isinstance(rep.get("case"), dict) and "lon_hex" in rep["case"]:
        c = rep["case"]
        work.append((c["variant"], c["ny"], c["nx"], tuple(c["colour"]),
                     np.array([float.fromhex(c["lon_hex"])]), np.array([float.fromhex(c["lat_hex"])]), (1,)))
        maps = maps[:12]
    for (variant, ny, nx, colour) in maps:
        lon, lat = gen_points(rng, variant, nx, ny, n_rand)
        shape, n = request_shape(rng, len(lon))
        work.append((variant, ny, nx, colour, lon[:n], lat[:n], shape))

    for (variant, ny, nx, colour, lon, lat, shape) in work:
        lon_s, lat_s = lon.reshape(shape), lat.reshape(shape)
        obs = observe(variant, ny, nx, colour, lon_s, lat_s)
        shape_checks += 1
        key = f"{variant}"
        hist[key] = hist.get(key, 0) + lon.size
        if "error" in obs:
            raised[variant] = raised.get(variant, 0) + 1
            fk = None
            if variant == "Galactic" and obs["etype"] == "ConvertError" and "ABCMeta" in obs["error"]:
                fk = KEY_GALACTIC
            if raised[variant] <= 3:
                V.disagreement("repaired_total / index_in_range: the sampler returns (model: Some (iy, ix)); implementation raised",
                               point_case(variant, ny, nx, colour, lon[0], lat[0]),
                               "a value for every point", obs["error"], True, finding_key=fk)
            continue
        if not obs["shape_ok"]:
            V.disagreement("shape = request shape + colour axes", point_case(variant, ny, nx, colour, lon[0], lat[0]),
                           list(obs["want_shape"]), list(obs["shape"]), True)
            continue
        if not obs["decode_ok"]:
            V.disagreement("colour axes of one output element come from one map pixel", point_case(variant, ny, nx, colour, lon[0], lat[0]),
                           "consistent channels", "mixed", True)
            continue
        l, b = rotate(variant, lon, lat)
        l, b = np.asarray(l, dtype=float), np.asarray(b, dtype=float)
        oy, ox = obs["oy"].reshape(-1), obs["ox"].reshape(-1)
        ok = predicate(variant, nx, ny, l, b, oy, ox)
        for i in np.nonzero(~ok)[0][:3]:
            V.disagreement("C11 predicate on implementation: returned pixel's cell contains the point",
                           point_case(variant, ny, nx, colour, lon[i], lat[i]),
                           "cell contains point", dict(iy=int(oy[i]), ix=int(ox[i]), rotated=[float(l[i]), float(b[i])]), True)
        batches.append((variant, ny, nx, colour, lon, lat, l, b, oy, ox))
        evaluations += lon.size

    # model comparison inside Coq
    terms = []
    for (variant, ny, nx, colour, lon, lat, l, b, oy, ox) in batches:
        pts = []
        for i in range(len(l)):
            lm, le = fl(l[i])
            bm, be = fl(b[i])
            pts.append(f"mkPt {g_Z(lm)} {g_Z(le)} {g_Z(bm)} {g_Z(be)} {int(oy[i])} {int(ox[i])}")
        terms.append(f"(mkB {variant} {nx} {ny} {g_list(pts)})")
    bad = common.coq_eval_sharded(coq_defs(), terms, "chk_batch", ["Model.Sampler"], shard=24, jobs=12, name="c11") if terms else {}
    for bi, code in sorted(bad.items()):
        variant, ny, nx, colour, lon, lat, l, b, oy, ox = batches[bi]
        i = (code - 1) // 2
        which = "row" if code - 2 * i == 1 else "col"
        pf = not bool(predicate(variant, nx, ny, l[i:i + 1], b[i:i + 1], oy[i:i + 1], ox[i:i + 1])[0])
        V.disagreement(f"Sampler.v sample ~ samplers.py ({which} index, margin > 1e-9 px or outside widened cell)",
                       point_case(variant, ny, nx, colour, lon[i], lat[i]),
                       "model index (see Model/Sampler.v check_point)",
                       dict(iy=int(oy[i]), ix=int(ox[i]), rotated=[float(l[i]), float(b[i])]), pf)

    # periodicity on the implementation itself (points well inside a cell)
    n_per = 0
    for (variant, ny, nx, colour, lon, lat, l, b, oy, ox) in batches[:: max(1, len(batches) // (40 if tier == "quick" else 200))]:
        mu, mv = margins(variant, nx, ny, l, b)
        sel = (mu > 1e-6) & (mv > 1e-6) & (np.abs(lon) < 500)
        if not sel.any():
            continue
        from toasty import samplers
        s = getattr(samplers, VARIANTS[variant][0])(make_data(ny, nx, ()))
        for j in (1, -1, rng.randint(-70, 70)):
            try:
                a = s(lon[sel] + j * TWOPI, lat[sel])
            except Exception as e:
                V.disagreement("periodic", point_case(variant, ny, nx, (), lon[sel][0], lat[sel][0]), "a value", repr(e), True)
                break
            n_per += int(sel.sum())
            ref = oy[sel] * nx + ox[sel]
            neq = np.nonzero(a != ref)[0]
            if len(neq):
                k = neq[0]
                V.disagreement("periodic: sample(lon + 2 pi j) = sample(lon)",
                               dict(point_case(variant, ny, nx, (), lon[sel][k], lat[sel][k]), turns=j),
                               int(ref[k]), int(a[k]), True)
                break

    # scalar requests: shape ()
    n_scalar = 0
    for variant in ORDER:
        if raised.get(variant):
            continue
        obs = observe(variant, 3, 5, (3,), np.float64(0.3), np.float64(-0.2))
        n_scalar += 1
        if "error" in obs or not obs.get("shape_ok"):
            V.disagreement("shape = request shape + colour axes (scalar request)", point_case(variant, 3, 5, (3,), 0.3, -0.2),
                           [3], obs.get("shape", obs.get("error")), True)

    worst = rotation_sanity(rng, V)

    # coverage numbers
    cells, strict, lenient, seam, far = set(), 0, 0, 0, 0
    for (variant, ny, nx, colour, lon, lat, l, b, oy, ox) in batches:
        mu, mv = margins(variant, nx, ny, l, b)
        st = (mu > EPS) & (mv > EPS)
        strict += int(st.sum())
        lenient += int((~st).sum())
        far += int((np.abs(lon) > 50).sum())
        _f, E, leftward, shift = VARIANTS[variant]
        d = (E - (l - shift)) if leftward else ((l - shift) - E)
        u = np.mod(d, TWOPI) * (nx / TWOPI)
        seam += int(((u < 1e-6) | (u > nx - 1e-6)).sum())
        for i in np.nonzero(st)[0]:
            cells.add((variant, ny, nx, int(oy[i]), int(ox[i])))
    samples = []
    for (variant, ny, nx, colour, lon, lat, l, b, oy, ox) in batches[:: max(1, len(batches) // 4)][:4]:
        samples.append(dict(variant=variant, ny=ny, nx=nx, colour=list(colour), lon=float(lon[0]), lat=float(lat[0]),
                            iy=int(oy[0]), ix=int(ox[0])))
    return dict(
        evaluations=evaluations, distinct_nontrivial=len(cells),
        rule="maps: every nx in 1..40 per variant with random ny in 1..40 (plus 1x1, 1x2, 2x1, 3x3, 1x40, 40x1), colour axes "
             "(), (3,), (4,), (2,2); points: 0, +-pi/2, +-pi, +-2pi, +-3pi each +-1 ulp, denormals in 15% of the maps; column/row boundaries "
             "+-1 ulp shifted by up to 150 turns; cell centres; uniform in [-pi,pi] and [-1000,1000]; for Galactic/ecliptic half "
             "of the points are placed in the rotated frame and mapped back through astropy. non-trivial = distinct "
             "(variant, ny, nx, iy, ix) reached by a strictly compared point (margin > 1e-9 px)",
        maps=len(batches), strict_points=strict, lenient_points=lenient, seam_points=seam, points_beyond_50rad=far,
        shape_checks=shape_checks + n_scalar, periodicity_checks=n_per, sampler_raised=raised,
        rotation_sanity_worst_sep_rad=worst, input_histogram=hist, samples=samples)
