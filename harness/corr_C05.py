"""C05 correspondence: a tile's pixel grid is the centres of the tiles k levels deeper.

Implementation side:
  * toasty/_libtoasty.pyx `_subsample`/`_mid` -- read as *source* by toast_terms.PyxModel
    (fail-closed parser + generic interpreter); the compiled .so must agree with it
    bit-for-bit (the .so cannot be rebuilt here, so this is how a .pyx edit is seen);
  * toasty.toast.toast_tile_get_coords, create_single_tile, _div4 (real code).
Model side: Model/ToastTerm.v `subsample`, `tile_coords` by vm_compute on the hash image
(Properties.C05.subsample_hash_image).
Property predicates (tests on the implementation, not proof): pixel (i, j) = centre of the
tile at (n+k, 2^k x + j, 2^k y + i) within 1e-12 (chord); every pixel centre inside its
tile and within the corners' latitude range, exhaustively to a depth bound.
"""
import math

import numpy as np

import common
import toast_terms as TT

TRUSTED = [
    "harness/toast_terms.py: PyxModel (regex front end for exactly the statement shapes of _mid/_subsample, libm via ctypes) "
    "and the recording mid; hash collisions (63-bit) neglected",
    "numeric tests only (not proof): pixel = centre of the deeper tile (chord < 1e-12), pixel centre inside its tile "
    "(half-space margin >= -1e-12) and inside the corners' latitude range (1e-12), exhaustively to the stated depth",
]
ASSUMPTIONS = [
    "npix is a power of two (subsample() raises otherwise)",
    "the poleward latitude bound of pixel centres is validated numerically only (Properties/C05.v: lat_range_partial)",
]
IMPORTS = ["Model.Quadtree", "Model.ToastTerm"]

COQ_DEFS = TT.COQ_DIGEST_DEFS + TT.COQ_SUB_DIGEST_DEFS + r"""
Inductive c5case :=
| KSub (k : nat) (ul ur lr ll : int) (inc : bool) (digest : int)
| KCoords (t : htile) (a b c d : int) (k : nat) (inc : bool).
Definition chk5 (c : c5case) : nat :=
  match c with
  | KSub k ul ur lr ll inc digest => if ieq (sub_digest k ul ur lr ll inc) digest then 0%nat else 1%nat
  | KCoords t a b c d k inc =>
      if forallb (fun ij => ieq (tile_coords hmid t (fst ij) (snd ij)) (subsample hmid k a b c d inc (fst ij) (snd ij)))
                 [(0,0); (0,255); (255,0); (255,255); (127,128); (128,127); (3,200); (77,5)]
      then 0%nat else 2%nat
  end.
"""
REL = {1: "subsample (Model/ToastTerm.v) ~ _libtoasty.pyx _subsample (source semantics, hash run)",
       2: "tile_coords ~ toast_tile_get_coords: arguments handed to subsample"}


def g_bool(b):
    return "true" if b else "false"


def centre_of(T, tile):
    ul, ur, lr, ll = tile.corners
    return T.mid(ll, ur) if tile.increasing else T.mid(ul, lr)


def grid_vs_centres(T, Pos, cs, tile, k, lon, lat, pixels):
    """max chord distance between grid entries and the centres of the tiles k levels deeper."""
    worst, arg = 0.0, None
    n, x, y = tile.pos.n, tile.pos.x, tile.pos.y
    for (i, j) in pixels:
        d = T.create_single_tile(Pos(n + k, (x << k) + j, (y << k) + i), cs)
        c = centre_of(T, d)
        e = TT.chord((float(lon[i, j]), float(lat[i, j])), (float(c[0]), float(c[1])))
        if e > worst:
            worst, arg = e, (i, j)
    return worst, arg


def inside_and_lat(tile, lon, lat):
    """(min half-space margin over all pixels, max excess of latitude outside the corners' range)."""
    c = [np.array(TT.xyz(float(q[0]), float(q[1]))) for q in tile.corners]
    cl = np.cos(lat)
    P = np.stack([np.cos(lon) * cl, np.sin(lat), np.sin(lon) * cl], axis=-1)
    m = np.inf
    for e in range(4):
        nrm = np.cross(c[e], c[(e + 1) % 4])
        m = min(m, float((P @ nrm).min()))
    lats = [float(q[1]) for q in tile.corners]
    exc = max(float(lat.max()) - max(lats), min(lats) - float(lat.min()))
    return m, exc


def run(ctx, V):
    import toasty.toast as T
    from toasty.pyramid import Pos
    from toasty._libtoasty import mid as so_mid, subsample as so_subsample

    rng = common.rng_for(ctx["seed"], "C05")
    quick = ctx["tier"] == "quick"
    # bin/check installs the transpiled (pure Python, slow) .pyx functions when the compiled .so no longer
    # agrees with the source (harness/pyx2py.py); the predicates then run on the source semantics, on fewer tiles
    slow = getattr(T.subsample, "__module__", "") == "_libtoasty_transpiled"
    systems = TT.coordsystems()
    fails = []            # property predicate failures (strings), with a replayable case each
    numeric = {}
    hist = {}

    # ---- A. source front end
    pm = None
    try:
        pm = TT.PyxModel(common.REPO)
    except TT.PyxParseError as e:
        V.disagreement("_libtoasty.pyx no longer has the statement shapes the model was written against",
                       dict(route="pyx-parse", error=str(e)), "parsable _mid/_subsample", str(e), None)

    # ---- B. model vs source semantics (hash run), C. source vs compiled extension (bit-identical)
    terms, meta = [], []
    tiles = []
    replay = (ctx.get("replay") or {}).get("case") or {}
    if replay.get("pos"):
        tiles.append((bool(replay.get("planet")), tuple(replay["pos"])))
    for n in (1, 1, 2, 2, 3, 4, 5, 7, 9, 12) if quick else (1, 1, 1, 1, 2, 2, 2, 3, 3, 4, 4, 5, 5, 6, 7, 8, 9, 10, 12, 14):
        for planet in (False, True):
            tiles.append((planet, (n, rng.randrange(2 ** n), rng.randrange(2 ** n))))
    real_tiles = []
    with TT.recording():
        for planet, p in tiles:
            t = T.create_single_tile(Pos(*p), systems[planet])
            real_tiles.append((planet, p, TT.tile_row(t), TT.tile_floats(t), bool(t.increasing)))
    so_vs_src = dict(mid_samples=0, mid_mismatch=0, grids=0, grid_mismatch=0)
    if pm is not None:
        for idx, (planet, p, row, fl, inc) in enumerate(real_tiles):
            for k in ((0, 1, 2, 3, 5) if quick else (0, 1, 2, 3, 4, 5, 6)):
                hs = row[3] if rng.random() < 0.7 else tuple(rng.randrange(TT.HASH_M) for _ in range(4))
                for incv in ((inc,) if k > 3 else (True, False)):
                    terms.append("(KSub %d %s %s %s %s %s %s)" % (k, *(TT.g_i(h) for h in hs), g_bool(incv), TT.g_i(pm.hash_grid_digest(k, hs, incv))))
                    meta.append(dict(route="subsample-hash", k=k, planet=planet, pos=list(p), inc=incv))
                    hist[f"hash/k{k}"] = hist.get(f"hash/k{k}", 0) + 1
        hs = real_tiles[0][2][3]
        for incv in ((True,) if quick else (True, False)):
            terms.append("(KSub 8 %s %s %s %s %s %s)" % (*(TT.g_i(h) for h in hs), g_bool(incv), TT.g_i(pm.hash_grid_digest(8, hs, incv))))
            meta.append(dict(route="subsample-hash", k=8, planet=real_tiles[0][0], pos=list(real_tiles[0][1]), inc=incv))
            hist["hash/k8"] = hist.get("hash/k8", 0) + 1
        # C: mid and grids, source semantics vs .so
        for _ in range(3000 if quick else 30000):
            a = (rng.uniform(-7, 7), rng.uniform(-1.5707, 1.5707))
            b = (rng.uniform(-7, 7), rng.uniform(-1.5707, 1.5707))
            so_vs_src["mid_samples"] += 1
            if tuple(so_mid(a, b)) != pm.mid(a, b):
                so_vs_src["mid_mismatch"] += 1
                if so_vs_src["mid_mismatch"] == 1:
                    V.disagreement("compiled _libtoasty.mid != _mid source semantics (the .so is stale or the .pyx was edited)",
                                   dict(route="mid-source-vs-so", a=a, b=b), list(pm.mid(a, b)), list(so_mid(a, b)), None)
        for idx, (planet, p, row, fl, inc) in enumerate(real_tiles):
            for npix in ((1, 2, 8, 32) if quick else (1, 2, 4, 16, 64)) + ((256,) if idx < (1 if quick else 5) and not slow else ()):
                for incv in (inc, not inc) if npix <= 8 else (inc,):
                    xs, ys = pm.subsample(fl[0], fl[1], fl[2], fl[3], npix, incv)
                    xo, yo = so_subsample(fl[0], fl[1], fl[2], fl[3], npix, incv)
                    so_vs_src["grids"] += 1
                    hist[f"float/npix{npix}"] = hist.get(f"float/npix{npix}", 0) + 1
                    if not (np.array_equal(xs, xo) and np.array_equal(ys, yo)):
                        so_vs_src["grid_mismatch"] += 1
                        # property predicate on the *source* semantics
                        k = int(math.log2(npix))
                        tile = T.Tile(Pos(*p), fl, incv)
                        pf = None
                        if incv == inc and so_vs_src["grid_mismatch"] <= 3:
                            allpx = [(i, j) for i in range(npix) for j in range(npix)]
                            w, arg = grid_vs_centres(T, Pos, systems[planet], tile, k, xs, ys,
                                                     allpx if len(allpx) <= 64 else rng.sample(allpx, 64))
                            pf = w > 1e-12
                        if so_vs_src["grid_mismatch"] <= 3:
                            V.disagreement("compiled subsample != _subsample source semantics (the .so is stale or the .pyx was edited)",
                                           dict(route="subsample-source-vs-so", planet=planet, pos=list(p), npix=npix, inc=incv),
                                           "bit-identical grids", "grids differ", pf)
    numeric["source_vs_compiled"] = so_vs_src

    # ---- D. toast_tile_get_coords: which arguments reach subsample
    old = T.subsample
    T.subsample = lambda a, b, c, d, npix, inc: ("SUB", a, b, c, d, npix, inc)
    try:
        for planet, p, row, fl, inc in real_tiles:
            fake = T.Tile(Pos(*p), row[3], inc)
            r = T.toast_tile_get_coords(fake)
            if not (isinstance(r, tuple) and r and r[0] == "SUB"):
                V.disagreement(REL[2], dict(route="get_coords-args", pos=list(p)), "one call of subsample", repr(r)[:200], None)
                continue
            _tag, a, b, c, d, npix, inc2 = r
            k = int(round(math.log2(npix))) if npix and npix > 0 else 0
            terms.append("(KCoords %s %s %s %s %s %d %s)" % (TT.g_htile(row), TT.g_i(a), TT.g_i(b), TT.g_i(c), TT.g_i(d), k, g_bool(bool(inc2))))
            meta.append(dict(route="get_coords-args", planet=planet, pos=list(p)))
    finally:
        T.subsample = old

    bad = common.coq_eval_sharded(COQ_DEFS, terms, "chk5", IMPORTS, shard=40, jobs=12, name="c05")

    # ---- E1. property predicate: pixel (i, j) of toast_tile_get_coords = centre of (n+8, 256x+j, 256y+i)
    worst = 0.0
    n_px = 0
    special = [(0, 0), (0, 255), (255, 0), (255, 255), (127, 127), (127, 128), (128, 127), (128, 128), (0, 128), (64, 191)]
    for planet, p, row, fl, inc in (real_tiles[:4] if slow else real_tiles):
        tile = T.create_single_tile(Pos(*p), systems[planet])
        lon, lat = T.toast_tile_get_coords(tile)
        px = special + [(rng.randrange(256), rng.randrange(256)) for _ in range(12 if quick else 60)]
        w, arg = grid_vs_centres(T, Pos, systems[planet], tile, 8, lon, lat, px)
        n_px += len(px)
        worst = max(worst, w)
        if w > 1e-12:
            fails.append((f"pixel {arg} of tile {p} is {w:.3g} (chord) away from the centre of the tile 8 levels deeper",
                          dict(route="pixel-vs-centre", planet=planet, pos=list(p), pixel=list(arg))))
    numeric["pixel_vs_centre"] = dict(pixels=n_px, worst_chord=worst, tolerance=1e-12)

    # ---- E2. every pixel centre inside its tile and inside the corners' latitude range: exhaustive to depth DL
    DL = 1 if slow else (3 if quick else 5)
    n_tiles = 0
    min_margin, max_exc = np.inf, -np.inf
    for planet, cs in enumerate(systems):
        for tile in T.generate_tiles(DL, bottom_only=False, coordsys=cs):
            lon, lat = T.toast_tile_get_coords(tile)
            m, exc = inside_and_lat(tile, lon, lat)
            n_tiles += 1
            min_margin, max_exc = min(min_margin, m), max(max_exc, exc)
            if m < -1e-12 and len(fails) < 20:
                fails.append((f"a pixel centre of tile {tuple(tile.pos)} lies outside the tile (margin {m:.3g})",
                              dict(route="pixel-inside", planet=bool(planet), pos=list(tile.pos))))
            if exc > 1e-12 and len(fails) < 20:
                fails.append((f"a pixel centre of tile {tuple(tile.pos)} lies {exc:.3g} rad outside the corners' latitude range",
                              dict(route="pixel-latitude", planet=bool(planet), pos=list(tile.pos))))
    numeric["inside_and_latitude_range"] = dict(tiles=n_tiles, pixels=n_tiles * 65536, depth=DL, min_margin=min_margin,
                                                max_latitude_excess=max_exc, exhaustive_to_depth=DL)
    if not quick:   # sampled deeper
        for _ in range(10 if slow else 300):
            n = rng.randint(6, 12)
            planet = rng.random() < 0.5
            tile = T.create_single_tile(Pos(n, rng.randrange(2 ** n), rng.randrange(2 ** n)), systems[planet])
            lon, lat = T.toast_tile_get_coords(tile)
            m, exc = inside_and_lat(tile, lon, lat)
            if m < -1e-12 or exc > 1e-12:
                fails.append((f"tile {tuple(tile.pos)}: pixel centre outside tile/latitude range (margin {m:.3g}, excess {exc:.3g})",
                              dict(route="pixel-inside", planet=planet, pos=list(tile.pos))))

    # ---- E3. the grids the layer sampler hands to a sampling callback (sampling "a layer directly"):
    #          the level-0 tile (no Tile object: ToastSampler builds its grid itself) and the leaves of
    #          sub-pyramids, in both systems, must be the same global pixelisation
    import contextlib
    import io as _io
    import shutil
    from toasty.pyramid import PyramidIO, Pyramid
    n_route = 0
    if not slow:
        for planet, cs in enumerate(systems):
            seen = []

            def rec_sampler(lon, lat, seen=seen):
                seen.append((np.array(lon, dtype=np.float64), np.array(lat, dtype=np.float64)))
                return np.zeros(np.shape(lon), dtype=np.float32)
            d0 = str(common.workdir() / f"c05_l0_{planet}")
            shutil.rmtree(d0, ignore_errors=True)
            try:
                with contextlib.redirect_stdout(_io.StringIO()):
                    T.sample_layer(PyramidIO(d0, default_format="npy"), rec_sampler, 0, coordsys=cs, parallel=1)
            except Exception as e:  # noqa
                fails.append((f"sample_layer at depth 0 raised {e!r}", dict(route="level0-grid", planet=bool(planet))))
            shutil.rmtree(d0, ignore_errors=True)
            if len(seen) == 1 and seen[0][0].shape == (256, 256):
                lon, lat = seen[0]
                px = special + [(rng.randrange(256), rng.randrange(256)) for _ in range(20 if quick else 200)]
                w, arg = 0.0, None
                for (i, j) in px:
                    c = centre_of(T, T.create_single_tile(Pos(8, j, i), cs))
                    e = TT.chord((float(lon[i, j]), float(lat[i, j])), (float(c[0]), float(c[1])))
                    if e > w:
                        w, arg = e, (i, j)
                n_route += len(px)
                if w > 1e-12:
                    fails.append((f"pixel {arg} of the level-0 tile handed to the sampler is {w:.3g} (chord) away from the centre "
                                  f"of tile (8, {arg[1]}, {arg[0]})", dict(route="level0-grid", planet=bool(planet), pixel=list(arg))))
            elif not any(c.get("route") == "level0-grid" for _w, c in fails):
                fails.append((f"sample_layer at depth 0 called the sampler {len(seen)} times", dict(route="level0-grid", planet=bool(planet))))
            # leaves delivered by (sub-)pyramids of this system
            for apex in (None, (1, rng.randrange(2), rng.randrange(2)), (2, rng.randrange(4), rng.randrange(4))):
                pyr = Pyramid.new_toast(2, coordsys=cs)
                if apex is not None:
                    pyr = pyr.subpyramid(Pos(*apex))
                got = []
                with contextlib.redirect_stdout(_io.StringIO()):
                    pyr.visit_leaves(lambda pos, tile, got=got: got.append((pos, tile)), parallel=1)
                for pos, tile in rng.sample(got, min(len(got), 3)):
                    lon, lat = T.toast_tile_get_coords(tile)
                    px = [(0, 0), (255, 255), (rng.randrange(256), rng.randrange(256))]
                    tt = T.Tile(Pos(*pos), tile.corners, tile.increasing)
                    w, arg = grid_vs_centres(T, Pos, cs, tt, 8, lon, lat, px)
                    n_route += len(px)
                    if w > 1e-12:
                        fails.append((f"pixel {arg} of leaf {tuple(pos)} delivered by a {'planetary' if planet else 'astronomical'} pyramid "
                                      f"(apex {apex}) is {w:.3g} (chord) away from the centre of the tile 8 levels deeper",
                                      dict(route="pyramid-leaf-grid", planet=bool(planet), pos=list(pos), apex=apex)))
                        break
    numeric["sampler_route_pixels"] = n_route

    # ---- verdicts
    for i, code in sorted(bad.items()):
        V.disagreement("ToastTerm.v ~ implementation: " + REL.get(code, str(code)), meta[i], "model value (vm_compute)",
                       terms[i][:300], True if fails else None)
    for why, case in fails[:5]:
        V.disagreement("C05 predicate on implementation" + ("" if bad else " (model agrees with implementation)"),
                       case, "property holds", why, True)
    nontrivial = {(m["route"], m.get("k"), m["planet"], tuple(m["pos"]), m.get("inc")) for m in meta if m.get("k", 8) >= 1}
    return dict(evaluations=len(terms) + so_vs_src["grids"] + so_vs_src["mid_samples"] + n_px + n_tiles,
                distinct_nontrivial=len(nontrivial),
                rule="tiles at random positions depth 1-14, both systems; model vs .pyx source semantics on the hash image for "
                     "npix 1..64 (all pixels) and 256; source semantics vs compiled .so bit-identical (all pixels); "
                     "toast_tile_get_coords argument wiring; non-trivial = distinct (route, k >= 1, system, position, orientation)",
                numeric_validation_tests=numeric, input_histogram=hist, transpiled_source_installed=slow,
                property_predicate_failures=[w for w, _c in fails[:5]],
                samples=meta[:2] + meta[-2:])
