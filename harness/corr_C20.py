"""C20 correspondence: which HDU and which WCS solution each input file contributes.

Implementation side: toasty.collection (load, SimpleFitsCollection,
CollectionLoader.create_from_args/load_paths), toasty.tile_fits, and the real
command line (`toasty view`, `toasty tile-multi-tan` through
toasty.cli.entrypoint) on generated multi-extension FITS files; observed are
export_simple(), descriptions() and images() of the collection each entry point
builds (the tilers behind tile_fits / the CLI are replaced by a recorder so that
only option handling and loading run), plus a few complete tile_fits runs.
Model side: Model/Collection.v evaluated by vm_compute, in both variants
(collection.py:152 as found / one-token repair); the check decides which one the
implementation matches.
"""
import argparse
import contextlib
import io
import itertools
import os
import warnings

import common
from common import g_list, g_Z, g_N, g_nat, g_bool, g_opt

TRUSTED = ["astropy.io.fits / astropy.wcs (HDUList indexing, WCS(header, key=...), header I/O) as used by collection.py",
           "HDU abstraction of the model: class (image-like / BinTableHDU / TableHDU), numpy shape, WCS keys present; "
           "CRVAL1 of each generated WCS solution is a distinct integer tag, every pixel of an HDU equals its uid",
           "recorder classes standing in for FitsTiler / MultiTanProcessor when tile_fits and the CLI are driven"]
ASSUMPTIONS = ["HDU indices are Python ints and WCS keys Python strs (numpy integers fall into the list branch; not modelled)",
               "HDUs are data-less, 1-D or 2-D images, binary or ASCII tables; data cubes (collection.py:228-247), "
               "CompImageHDU, the DASCH PV1_5 hack (191-208) and blankval are outside the model",
               "command-line texts are ASCII",
               "`toasty tile-multi-tan` declares --hdu-index default=0 itself (cli.py:473-478); that explicit default is "
               "modelled as the scalar selection 0, not as 'no selection'"]

F1_KEY = "C20/collection.py:_scan_hdus/list-hdu-index"

ERR_NAMES = ["EIndex", "EKey", "ENoImage", "EValue", "ENot2D", "ENoShape", "ENoData", "EUnbound", "EParse", "EOther"]

COQ_DEFS = r"""
From Coq Require Import Ascii.
Local Open Scope Z_scope.
Definition S_ (l : list N) : str := map ascii_of_N l.
Definition K_ (l : list (N * Z)) : list (ascii * Z) := map (fun p => (ascii_of_N (fst p), snd p)) l.
Definition H_ (k : nat) (sh : list N) (w : list (N * Z)) (u : Z) : hdu :=
  mkHdu (match k with 0%nat => KImage | 1%nat => KBinTable | _ => KAsciiTable end) sh (K_ w) u.
Inductive entry :=
| EApi (hs : hdu_sel) (ws : option wcs_sel)
| EView (h w : option str)
| EMtan (h w : option str).
Definition resolve (e : entry) : res (hdu_sel * wcs_sel) :=
  match e with
  | EApi hs ws => Ok (api_load hs ws)
  | EView h w => cli_view h w
  | EMtan h w => cli_mtan h w
  end.
Definition err_eqb (a b : err) : bool :=
  match a, b with
  | EIndex, EIndex | EKey, EKey | ENoImage, ENoImage | EValue, EValue | ENot2D, ENot2D
  | ENoShape, ENoShape | ENoData, ENoData | EUnbound, EUnbound | EParse, EParse | EOther, EOther => true
  | _, _ => false
  end.
Definition oerr_eqb (a b : option err) : bool :=
  match a, b with Some x, Some y => err_eqb x y | None, None => true | _, _ => false end.
Fixpoint list_eqb {A} (eq : A -> A -> bool) (a b : list A) : bool :=
  match a, b with
  | [], [] => true
  | x :: a', y :: b' => eq x y && list_eqb eq a' b'
  | _, _ => false
  end.
Definition shape_eqb := list_eqb N.eqb.
Record ccase := mkC {
  c_files : list fitsfile; c_entry : entry;
  o_exp : list (nat * Z) * option err;
  o_desc : list (nat * list N * Z) * option err;
  o_img : list (nat * list N * Z * Z) * option err }.
Definition exp_eqb (a b : nat * Z) := Nat.eqb (fst a) (fst b) && Z.eqb (snd a) (snd b).
Definition desc_eqb (a b : nat * list N * Z) :=
  let '(f, s, t) := a in let '(f', s', t') := b in Nat.eqb f f' && shape_eqb s s' && Z.eqb t t'.
Definition img_eqb (a b : nat * list N * Z * Z) :=
  let '(f, s, t, u) := a in let '(f', s', t', u') := b in Nat.eqb f f' && shape_eqb s s' && Z.eqb t t' && Z.eqb u u'.
(* 0 agree; 1 option parsing; 2 export_simple; 3 descriptions; 4 images *)
Definition chk (old : bool) (c : ccase) : nat :=
  match resolve (c_entry c) with
  | Err e =>
      if oerr_eqb (snd (o_exp c)) (Some e) && oerr_eqb (snd (o_desc c)) (Some e) && oerr_eqb (snd (o_img c)) (Some e)
      then 0%nat else 1%nat
  | Ok (hs, ws) =>
      let ex := export_simple old hs ws (c_files c) in
      let de := descriptions old hs ws (c_files c) in
      let im := images old hs ws (c_files c) in
      if negb (oerr_eqb (snd ex) (snd (o_exp c)) &&
               match snd ex with None => list_eqb exp_eqb (fst ex) (fst (o_exp c)) | Some _ => true end) then 2%nat
      else if negb (oerr_eqb (snd de) (snd (o_desc c)) &&
               list_eqb desc_eqb (map (fun it => (it_file it, it_shape it, it_tag it)) (fst de)) (fst (o_desc c))) then 3%nat
      else if negb (oerr_eqb (snd im) (snd (o_img c)) &&
               list_eqb img_eqb (map (fun it => (it_file it, it_shape it, it_tag it, it_uid it)) (fst im)) (fst (o_img c))) then 4%nat
      else 0%nat
  end.
Definition chk_new := chk false.
Definition chk_old := chk true.
"""

RELNAMES = {1: "cli_view/cli_mtan/api_load ~ option parsing (create_from_args, argparse, load)",
            2: "export_simple ~ SimpleFitsCollection.export_simple",
            3: "descriptions ~ SimpleFitsCollection.descriptions (_scan_hdus + _load)",
            4: "images ~ SimpleFitsCollection.images (_scan_hdus + _load)"}

KEYS = " ABC"


# ------------------------------------------------------------------ FITS generation

def gen_file_spec(rng, fidx, tagger):
    """A file = list of HDU specs dict(kind, shape, wcs={key: tag}, uid)."""
    n = rng.choice((1, 2, 2, 3, 3, 4, 5))
    hdus = []
    for j in range(n):
        if j == 0:
            kind = rng.choice(("empty", "empty", "img", "img", "img1"))
        else:
            kind = rng.choice(("img", "img", "img", "img", "empty", "img1", "bintable", "ascii"))
        uid = 100 * (fidx + 1) + j
        if kind == "img":
            shape = [rng.randint(2, 5), rng.randint(2, 5)]
            wcs = {}
            if rng.random() < 0.9:
                wcs[" "] = tagger()
            for k in "ABC":
                if rng.random() < 0.35:
                    wcs[k] = tagger()
        elif kind == "img1":
            shape, wcs = [rng.randint(2, 6)], {}
        else:
            shape, wcs = [], {}
        hdu = dict(kind=kind, shape=shape, wcs=wcs, uid=uid)
        if kind == "img" and set(wcs) == {" "} and rng.random() < 0.3:
            hdu["cube"] = True          # stored as (1, 1, ny, nx) with FREQ and STOKES axes: the celestial plane is the image
        elif kind == "img" and j > 0 and rng.random() < 0.3:
            hdu["comp"] = True          # a tile-compressed image extension (astropy CompImageHDU): image data like any other
        hdus.append(hdu)
    return hdus


def make_tagger():
    state = [0]

    def t():
        state[0] += 1
        return state[0]
    return t


def write_fits(path, spec):
    import numpy as np
    from astropy.io import fits
    hdus = []
    for j, h in enumerate(spec):
        kind = h["kind"]
        if kind in ("img", "img1"):
            hd = fits.Header()
            for k, tag in h["wcs"].items():
                s = k.strip()
                hd["CTYPE1" + s] = "RA---TAN"
                hd["CTYPE2" + s] = "DEC--TAN"
                hd["CRVAL1" + s] = float(tag)
                hd["CRVAL2" + s] = float(tag % 60)
                hd["CRPIX1" + s] = 1.0
                hd["CRPIX2" + s] = 1.0
                hd["CDELT1" + s] = -0.01
                hd["CDELT2" + s] = 0.01
            data = np.full(tuple(h["shape"]), float(h["uid"]), dtype=np.float32)
            if h.get("cube"):
                data = data.reshape((1, 1) + data.shape)
                hd["CTYPE3"], hd["CRVAL3"], hd["CRPIX3"], hd["CDELT3"] = "FREQ", 1.0e9, 1.0, 1.0e6
                hd["CTYPE4"], hd["CRVAL4"], hd["CRPIX4"], hd["CDELT4"] = "STOKES", 1.0, 1.0, 1.0
            if h.get("comp") and j > 0:
                hdus.append(fits.CompImageHDU(data, header=hd, compression_type="GZIP_1", quantize_level=0.0))
            else:
                hdus.append(fits.PrimaryHDU(data, header=hd) if j == 0 else fits.ImageHDU(data, header=hd))
        elif kind == "empty":
            hdus.append(fits.PrimaryHDU() if j == 0 else fits.ImageHDU())
        elif kind == "bintable":
            hdus.append(fits.BinTableHDU.from_columns([fits.Column(name="a", format="E", array=np.zeros(2))]))
        elif kind == "ascii":
            hdus.append(fits.TableHDU.from_columns([fits.Column(name="a", format="E15.7", array=np.zeros(2))]))
        else:
            raise ValueError(kind)
    fits.HDUList(hdus).writeto(path, overwrite=True)


def g_str(s):
    return "(S_ " + g_list([g_N(ord(c)) for c in s]) + ")"


def g_hdu(h):
    k = {"img": 0, "img1": 0, "empty": 0, "bintable": 1, "ascii": 2}[h["kind"]]
    w = g_list([f"({g_N(ord(key))}, {g_Z(tag)})" for key, tag in h["wcs"].items()])
    return f"(H_ {k} {g_list([g_N(x) for x in h['shape']])} {w} {g_Z(h['uid'])})"


def g_files(specs):
    return g_list([g_list([g_hdu(h) for h in f]) for f in specs])


# ------------------------------------------------------------------ implementation side

class Captured(Exception):
    def __init__(self, coll):
        self.coll = coll


class _RecorderTiler(object):
    def __init__(self, coll, *a, **kw):
        raise Captured(coll)


def classify(e):
    msg = str(e)
    if isinstance(e, IndexError):
        return "EIndex"
    if isinstance(e, KeyError):
        return "EKey"
    if isinstance(e, UnboundLocalError):
        return "EUnbound"
    if isinstance(e, ValueError):
        return "EValue"
    if isinstance(e, AttributeError):
        if "no attribute 'shape'" in msg:
            return "ENoShape"
        if "NoneType" in msg:
            return "ENoData"
        return "EOther"
    if type(e) is Exception:
        if "Did not find any HDU with image data" in msg:
            return "ENoImage"
        if "cannot be reduced to 2D celestial" in msg:
            return "ENot2D"
        if "cannot parse" in msg:
            return "EParse"
    return "EOther"


def build_collection(route, paths, hs, ws, workdir):
    """Run the entry point; returns (collection or None, error-name or None).
    hs/ws are Python values for API routes and option strings (or None) for CLI routes;
    ws == 'OMIT' leaves the keyword out."""
    import toasty
    from toasty import collection, cli, fits_tiler, multi_tan
    sink = io.StringIO()
    try:
        with contextlib.redirect_stdout(sink), contextlib.redirect_stderr(sink):
            if route in ("load", "load_str", "simple", "tile_fits"):
                kw = {} if hs is None and route != "tile_fits" else dict(hdu_index=hs)
                if ws != "OMIT":
                    kw["wcs_key"] = ws
                if route == "load":
                    return collection.load(list(paths), **kw), None
                if route == "load_str":
                    return collection.load(paths[0], **kw), None
                if route == "simple":
                    return collection.SimpleFitsCollection(list(paths), **kw), None
                saved = fits_tiler.FitsTiler
                fits_tiler.FitsTiler = _RecorderTiler
                try:
                    toasty.tile_fits(list(paths) if len(paths) > 1 else paths[0], out_dir=str(workdir / "tf_out"), **kw)
                except Captured as c:
                    return c.coll, None
                finally:
                    fits_tiler.FitsTiler = saved
                raise RuntimeError("tile_fits did not build a FitsTiler")
            if route == "loader":
                ns = argparse.Namespace(hdu_index=hs, wcs_key=ws, blankval=None)
                return collection.CollectionLoader.create_from_args(ns).load_paths(paths), None
            if route == "view":
                argv = ["view", "--tile-only"]
                if hs is not None:
                    argv.append("--hdu-index=" + hs)
                if ws is not None:
                    argv.append("--wcs-key=" + ws)
                argv += list(paths)
                saved = fits_tiler.FitsTiler
                fits_tiler.FitsTiler = _RecorderTiler
                try:
                    cli.entrypoint(argv)
                except Captured as c:
                    return c.coll, None
                finally:
                    fits_tiler.FitsTiler = saved
                raise RuntimeError("view did not build a FitsTiler")
            if route == "mtan":
                argv = ["tile-multi-tan", "--outdir", str(workdir / "mtan_out")]
                if hs is not None:
                    argv.append("--hdu-index=" + hs)
                if ws is not None:
                    argv.append("--wcs-key=" + ws)
                argv += list(paths)
                saved = multi_tan.MultiTanProcessor
                multi_tan.MultiTanProcessor = _RecorderTiler
                try:
                    cli.entrypoint(argv)
                except Captured as c:
                    return c.coll, None
                finally:
                    multi_tan.MultiTanProcessor = saved
                raise RuntimeError("tile-multi-tan did not build a MultiTanProcessor")
            raise ValueError(route)
    except SystemExit:
        return None, "EParse"
    except Captured:
        raise
    except RuntimeError:
        raise
    except Exception as e:
        return None, classify(e)


def observe(coll, paths):
    """export_simple / descriptions / images of one collection: (items, error)."""
    pidx = {p: i for i, p in enumerate(paths)}

    def positions():
        """file index of successive items: a path listed several times is told apart by its position
        (items come in input order, one per file)"""
        last = [-1]

        def at(p):
            for i in range(last[0] + 1, len(paths)):
                if paths[i] == p:
                    last[0] = i
                    return i
            return pidx[p]
        return at
    out = {}
    with warnings.catch_warnings():
        warnings.simplefilter("ignore")
        try:
            at = positions()
            out["exp"] = ([(at(p), int(i)) for p, i in coll.export_simple()], None)
        except Exception as e:
            out["exp"] = ([], classify(e))
        for name, full in (("desc", False), ("img", True)):
            items, err = [], None
            at = positions()
            try:
                for it in (coll.images() if full else coll.descriptions()):
                    crval = it.wcs.wcs.crval
                    tag = int(round(float(crval[0])))
                    if float(crval[0]) != tag or float(crval[1]) != tag % 60:
                        tag = -1
                    rec = [at(it.collection_id), [int(x) for x in it.shape], tag]
                    if full:
                        arr = it.asarray()
                        vals = set(float(v) for v in arr.ravel())
                        rec.append(int(arr.ravel()[0]) if len(vals) == 1 else -1)
                        if list(arr.shape) != rec[1]:
                            rec[1] = [int(x) for x in arr.shape] + [-1]
                    items.append(rec)
            except Exception as e:
                err = classify(e)
            out[name] = (items, err)
    return out


# ------------------------------------------------------------------ the property's own predicate

def py_index(seq, i):
    n = len(seq)
    j = n + i if i < 0 else i
    return seq[j] if 0 <= j < n else None


def expected_items(specs, hs, ws):
    """Straight from the statement: scalar -> every file; list -> same position;
    none -> first HDU holding image data.  Per file: (file, reported index, shape,
    tag, uid) when the selection is a loadable image, "absent" when there is no
    such selection (index / list position / key does not exist), "unjudged"
    when the selected HDU exists but holds no 2-D image (the statement is silent)."""
    out = []
    for k, f in enumerate(specs):
        if hs is None:
            cand = [j for j, h in enumerate(f) if h["kind"] == "img"]
            if not cand:
                out.append("unjudged")
                continue
            j = cand[0]
            idx = j
        else:
            if isinstance(hs, list):
                if k >= len(hs):
                    out.append("absent")
                    continue
                idx = hs[k]
            else:
                idx = hs
            n = len(f)
            j = n + idx if idx < 0 else idx
            if not (0 <= j < n):
                out.append("absent")
                continue
        h = f[j]
        if isinstance(ws, list):
            if k >= len(ws):
                out.append("absent")
                continue
            key = ws[k]
        elif ws is None or ws == "OMIT":
            key = " "
        else:
            key = ws
        if h["kind"] != "img":
            out.append("unjudged")
        elif key in h["wcs"]:
            out.append((k, idx, h["shape"], h["wcs"][key], h["uid"]))
        elif key == " " and not h["wcs"]:
            # an image HDU without any WCS keywords has the default WCS (tag 0) under " "
            out.append((k, idx, h["shape"], 0, h["uid"]))
        else:
            out.append("absent")
    return out


def property_fails(specs, hs, ws, obs, parse_err):
    """Reasons why what the implementation did contradicts C20's statement
    (empty list = holds).  Judged file by file in input order, as far as the
    statement speaks."""
    exp = expected_items(specs, hs, ws)
    why = []
    all_ok = all(isinstance(x, tuple) for x in exp)
    if parse_err:
        return ["valid selection rejected by option parsing"] if all_ok else []
    for name, width in (("desc", 3), ("img", 4)):
        items, err = obs[name]
        for k, e in enumerate(exp):
            if isinstance(e, tuple):
                want = [e[0], e[2], e[3]] + ([e[4]] if width == 4 else [])
                if k < len(items):
                    if items[k] != want:
                        why.append(f"{name}: file {k} contributed {items[k]}, selected {want}")
                        break
                else:
                    why.append(f"{name}: raised {err} at file {k} whose selection {want} is valid")
                    break
            elif e == "absent":
                if k < len(items):
                    why.append(f"{name}: file {k} contributed {items[k]} although no such selection exists")
                break
            else:
                break
        else:
            if err is not None or len(items) != len(exp):
                why.append(f"{name}: {len(items)} items / {err} for {len(exp)} valid selections")
    e_items, e_err = obs["exp"]
    if all_ok:
        want_e = [(e[0], e[1]) for e in exp]
        if e_err or [tuple(x) for x in e_items] != want_e:
            why.append(f"export_simple {e_items} / {e_err} != selected {want_e}")
    d_items, d_err = obs["desc"]
    i_items, i_err = obs["img"]
    if [x[:3] for x in i_items] != d_items[:len(i_items)]:
        why.append("descriptions() and images() differ on the items both yielded")
    if i_err is None and d_err is not None:
        why.append("images() completed but descriptions() raised")
    return why


# ------------------------------------------------------------------ case generation

def render_hs(hs):
    if hs is None:
        return None
    if isinstance(hs, list):
        return ",".join(str(i) for i in hs)
    return str(hs)


def render_ws(ws):
    if ws is None or ws == "OMIT":
        return None
    if isinstance(ws, list):
        return ",".join(ws)
    return ws


def rand_hs(rng, specs):
    r = rng.random()
    nf = len(specs)
    if r < 0.2:
        return None
    if r < 0.5:
        m = max(len(f) for f in specs)
        return rng.randint(-m - 1, m)
    # list: mostly the right length with mostly loadable entries
    ln = nf if rng.random() < 0.8 else rng.choice((max(nf - 1, 1), nf + 1))
    out = []
    for k in range(ln):
        f = specs[k] if k < nf else specs[-1]
        good = [j for j, h in enumerate(f) if h["kind"] == "img"]
        if good and rng.random() < 0.8:
            j = rng.choice(good)
            out.append(j - len(f) if rng.random() < 0.15 else j)
        else:
            out.append(rng.randint(-len(f) - 1, len(f)))
    return out


def rand_ws(rng, specs, hs):
    r = rng.random()
    nf = len(specs)
    if r < 0.3:
        return "OMIT"
    if r < 0.4:
        return None
    if r < 0.65:
        return rng.choice((" ", " ", "A", "B", "C", "A", "a", "AB", ""))
    ln = nf if rng.random() < 0.85 else rng.choice((max(nf - 1, 1), nf + 1))
    out = []
    for k in range(ln):
        keys = [" "]
        if k < nf:
            f = specs[k]
            if hs is None:
                cand = [j for j, h in enumerate(f) if h["kind"] == "img"]
                hpos = cand[0] if cand else None
            else:
                idx = hs[k] if isinstance(hs, list) and k < len(hs) else hs if not isinstance(hs, list) else None
                hpos = None if idx is None else (len(f) + idx if idx < 0 else idx)
            if hpos is not None and 0 <= hpos < len(f):
                keys = list(f[hpos]["wcs"].keys()) or [" "]
        out.append(rng.choice(keys) if rng.random() < 0.85 else rng.choice(KEYS))
    return out


CLI_H_ALPHA = "0123456789,,-+ _a"
CLI_W_ALPHA = "ABCZ ,,a1"


def gen_cases(rng, tier, wd):
    """Returns list of case dicts: files (index into pool), route, hs, ws."""
    pool = []
    n_pool = 30 if tier == "quick" else 120
    for p in range(n_pool):
        tagger = make_tagger()
        nf = rng.choice((1, 2, 2, 3, 3, 4))
        specs = [gen_file_spec(rng, k, tagger) for k in range(nf)]
        if p % 4 == 3:
            # the same file listed twice (an input is identified by its position, not by its path)
            j = rng.randrange(len(specs))
            dup = [dict(h) for h in specs[j]]
            dup[0]["dup_of"] = j          # marker on the first HDU spec: this list entry is file j again
            specs.insert(rng.randint(j + 1, len(specs)), dup)
        pool.append(specs)
    # a fixed pair used for the exhaustive part: every HDU kind, alternate keys
    fixed = [
        [dict(kind="empty", shape=[], wcs={}, uid=100), dict(kind="img", shape=[3, 4], wcs={" ": 1, "A": 2}, uid=101),
         dict(kind="bintable", shape=[], wcs={}, uid=102), dict(kind="img", shape=[5, 2], wcs={" ": 3}, uid=103)],
        [dict(kind="img", shape=[2, 3], wcs={" ": 4, "A": 5}, uid=200), dict(kind="ascii", shape=[], wcs={}, uid=201),
         dict(kind="img", shape=[4, 4], wcs={"A": 6}, uid=202)],
    ]
    pool.append(fixed)
    fx = len(pool) - 1
    cases = []
    # exhaustive: every scalar in [-5, 4], every list over [0..3]^<=2 (+ one too long), x a set of key selections
    hss = [None] + list(range(-5, 5)) + [[a] for a in range(4)] + [[a, b] for a in range(4) for b in range(-1, 3)] + [[1, 0, 0]]
    wss = ["OMIT", None, " ", "A", [" ", " "], ["A", "A"], [" ", "A"], ["A"]]
    for hs in hss:
        for ws in wss:
            cases.append(dict(pool=fx, route="load", hs=hs, ws=ws))
    n_exh = len(cases)
    n_rand = 500 if tier == "quick" else 5000
    for i in range(n_rand):
        p = rng.randrange(len(pool))
        specs = pool[p]
        hs = rand_hs(rng, specs)
        ws = rand_ws(rng, specs, hs)
        route = rng.choice(("load", "load", "simple", "tile_fits", "tile_fits", "loader", "loader", "view", "view", "mtan"))
        if route == "load" and len(specs) == 1 and rng.random() < 0.5:
            route = "load_str"
        if route in ("loader", "view", "mtan"):
            # CLI routes take text.  Intent -> canonical text (the documented form);
            # intents the text cannot express are adjusted the way the CLI reads them.
            if route == "mtan" and isinstance(hs, list):
                hs = hs[0]
            if route == "mtan" and isinstance(ws, list):
                ws = ws[0]
            if isinstance(ws, str) and ws != "OMIT" and (len(ws) != 1):
                ws = "A"
            cases.append(dict(pool=p, route=route, hs=hs, ws=ws, hs_text=render_hs(hs), ws_text=render_ws(ws), cli=True))
        else:
            cases.append(dict(pool=p, route=route, hs=hs, ws=ws))
    # malformed / unusual command-line texts
    n_mal = 150 if tier == "quick" else 1500
    for i in range(n_mal):
        p = rng.randrange(len(pool))
        route = rng.choice(("loader", "loader", "loader", "view", "mtan"))
        ht = "".join(rng.choice(CLI_H_ALPHA) for _ in range(rng.randint(0, 5))) if rng.random() < 0.7 else None
        wt = "".join(rng.choice(CLI_W_ALPHA) for _ in range(rng.randint(0, 4))) if rng.random() < 0.5 else None
        if route != "loader" and ht is not None and ht.startswith("-") and False:
            pass
        cases.append(dict(pool=p, route=route, hs=None, ws=None, hs_text=ht, ws_text=wt, cli=True, raw=True))
    return pool, cases, n_exh


def g_hs(hs):
    if hs is None:
        return "HNone"
    if isinstance(hs, list):
        return "(HList " + g_list([g_Z(i) for i in hs]) + ")"
    return f"(HScalar {g_Z(hs)})"


def g_ws(ws):
    if ws is None:
        return "WNone"
    if isinstance(ws, list):
        return "(WList " + g_list([g_str(k) for k in ws]) + ")"
    return f"(WScalar {g_str(ws)})"


def g_entry(c):
    if c.get("cli"):
        h = "None" if c["hs_text"] is None else f"(Some {g_str(c['hs_text'])})"
        w = "None" if c["ws_text"] is None else f"(Some {g_str(c['ws_text'])})"
        return f"({'EMtan' if c['route'] == 'mtan' else 'EView'} {h} {w})"
    ws = "None" if c["ws"] == "OMIT" else f"(Some {g_ws(c['ws'])})"
    return f"(EApi {g_hs(c['hs'])} {ws})"


def g_oerr(e):
    return "None" if e is None else f"(Some {e})"


def g_case(specs, c, obs):
    exp = g_list([f"({g_nat(k)}, {g_Z(i)})" for k, i in obs["exp"][0]])
    desc = g_list([f"({g_nat(k)}, {g_list([g_N(x) if x >= 0 else g_N(999) for x in sh])}, {g_Z(t)})"
                   for k, sh, t in obs["desc"][0]])
    img = g_list([f"({g_nat(k)}, {g_list([g_N(x) if x >= 0 else g_N(999) for x in sh])}, {g_Z(t)}, {g_Z(u)})"
                  for k, sh, t, u in obs["img"][0]])
    return (f"(mkC {g_files(specs)} {g_entry(c)} ({exp}, {g_oerr(obs['exp'][1])}) "
            f"({desc}, {g_oerr(obs['desc'][1])}) ({img}, {g_oerr(obs['img'][1])}))")


def run_case(c, specs, paths, wd):
    if c.get("cli"):
        coll, perr = build_collection(c["route"], paths, c["hs_text"], c["ws_text"], wd)
    else:
        coll, perr = build_collection(c["route"], paths, c["hs"], c["ws"], wd)
    if coll is None:
        obs = dict(exp=([], perr), desc=([], perr), img=([], perr))
    else:
        obs = observe(coll, paths)
    return obs, perr


# ------------------------------------------------------------------ complete tile_fits runs

def end_to_end(rng, wd, V, tier, forced="NO"):
    """A few complete toasty.tile_fits runs (no recorder): two files on a common
    TAN grid whose HDUs hold distinct constant values; the finite pixel values
    found in the deepest tiles must be exactly the values of the selected HDUs."""
    import numpy as np
    from astropy.io import fits
    import toasty
    from toasty import TilingMethod
    n = 5 if tier == "quick" else 12
    done = 0
    samples = []
    for t in range(n):
        d = wd / f"e2e_{t}"
        d.mkdir()
        paths, vals = [], []
        for k in range(2):
            hdus = [fits.PrimaryHDU()]
            fv = []
            for j in range(1, 4):
                hd = fits.Header()
                hd["CTYPE1"], hd["CTYPE2"] = "RA---TAN", "DEC--TAN"
                hd["CRVAL1"], hd["CRVAL2"] = 10.0, 20.0
                hd["CDELT1"], hd["CDELT2"] = -0.01, 0.01
                hd["CRPIX1"], hd["CRPIX2"] = 8.0 - 16 * k, 8.0
                v = float(10 * (k + 1) + j)
                fv.append(v)
                hdus.append(fits.ImageHDU(np.full((16, 16), v, dtype=np.float32), header=hd))
            p = str(d / f"in{k}.fits")
            fits.HDUList(hdus).writeto(p)
            paths.append(p)
            vals.append(fv)
        mode = rng.choice(("list", "list", "scalar", "none"))
        if t == 0 and forced != "NO":
            mode = "list" if isinstance(forced, list) else "none" if forced is None else "scalar"
        # several workers: each worker must get the image of the input it was handed, with that input's own selection
        par = 1 if t == 0 else rng.choice((1, 2, 3))
        if t in (1, 2):
            mode, par = "list", 2 + (t - 1)
        if mode == "list":
            sel = [rng.randint(1, 3), rng.randint(1, 3)]
            if t in (1, 2) and sel[0] == sel[1]:
                sel[1] = sel[0] % 3 + 1
            if t == 0 and forced != "NO":
                sel = list(forced)
            want = {vals[0][sel[0] - 1], vals[1][sel[1] - 1]}
        elif mode == "scalar":
            sel = forced if (t == 0 and forced != "NO") else rng.randint(1, 3)
            want = {vals[0][sel - 1], vals[1][sel - 1]}
        else:
            sel = None
            want = {vals[0][0], vals[1][0]}
        out = str(d / "out")
        got, err = None, None
        sink = io.StringIO()
        try:
            with warnings.catch_warnings(), contextlib.redirect_stdout(sink), contextlib.redirect_stderr(sink):
                warnings.simplefilter("ignore")
                _o, bld = toasty.tile_fits(paths, out_dir=out, hdu_index=sel, tiling_method=TilingMethod.TAN, parallel=par)
                lv = bld.imgset.tile_levels
            got = set()
            for root, _dirs, files in os.walk(os.path.join(out, str(lv))):
                for fn in files:
                    if fn.endswith(".fits"):
                        arr = fits.getdata(os.path.join(root, fn))
                        got |= set(float(x) for x in np.unique(arr[np.isfinite(arr)]))
        except Exception as e:
            err = classify(e) + ": " + str(e)[:80]
        done += 1
        samples.append(dict(hdu_index=sel, parallel=par, want=sorted(want), got=None if got is None else sorted(got), err=err))
        if got != want:
            is_f1 = isinstance(sel, list) and err is not None and err.startswith("EKey")
            V.disagreement("tile_fits end to end: pixel values in the tiles are those of the selected HDUs",
                           dict(e2e=dict(hdu_index=sel, values=vals, parallel=par)), sorted(want),
                           dict(got=None if got is None else sorted(got), err=err), True,
                           finding_key=F1_KEY if is_f1 else None)
    return done, samples


# ------------------------------------------------------------------ run

def run(ctx, V):
    rng = common.rng_for(ctx["seed"], "C20")
    tier = ctx["tier"]
    wd = common.workdir() / "c20"
    wd.mkdir(parents=True, exist_ok=True)
    warnings.simplefilter("ignore")
    pool, cases, n_exh = gen_cases(rng, tier, wd)
    rp = ctx.get("replay")
    if rp and isinstance(rp.get("case"), dict) and "files" in rp["case"]:
        rc = rp["case"]
        pool.append(rc["files"])
        c0 = dict(rc["sel"])
        c0["pool"] = len(pool) - 1
        cases = [c0] + cases[:20]
    pool_paths = []
    for p, specs in enumerate(pool):
        paths = []
        for k, spec in enumerate(specs):
            if spec and spec[0].get("dup_of") is not None:
                paths.append(paths[spec[0]["dup_of"]])
                continue
            path = str(wd / f"c{p}_{k}.fits")
            write_fits(path, spec)
            paths.append(path)
        pool_paths.append(paths)

    observed = []
    for c in cases:
        observed.append(run_case(c, pool[c["pool"]], pool_paths[c["pool"]], wd))
    terms = [g_case(pool[c["pool"]], c, o) for c, (o, _pe) in zip(cases, observed)]
    imports = ["Model.Collection"]
    bad_new = common.coq_eval_sharded(COQ_DEFS, terms, "chk_new", imports, shard=120, jobs=12, name="c20n")
    idx = sorted(bad_new)
    bad_old = {}
    if idx:
        r = common.coq_eval_sharded(COQ_DEFS, [terms[i] for i in idx], "chk_old", imports, shard=120, jobs=12, name="c20o")
        bad_old = {idx[j]: code for j, code in r.items()}

    nontrivial = set()
    hist = {}
    n_pred = 0
    n_f1 = 0
    f1_hits = []
    for i, (c, (obs, perr)) in enumerate(zip(cases, observed)):
        specs = pool[c["pool"]]
        route = c["route"]
        hist[route] = hist.get(route, 0) + 1
        shape_key = ("none" if c["hs"] is None else "list" if isinstance(c["hs"], list) else "scalar") + "/" + \
                    ("omit" if c["ws"] == "OMIT" else "none" if c["ws"] is None else "list" if isinstance(c["ws"], list) else "scalar")
        if c.get("raw"):
            shape_key = "raw-text"
        hist["sel:" + shape_key] = hist.get("sel:" + shape_key, 0) + 1
        why = None
        if not c.get("raw"):
            hs, ws = c["hs"], c["ws"]
            if route == "mtan" and hs is None:
                hs = 0          # the command's declared default
            if c.get("cli") and isinstance(hs, list) and len(hs) == 1:
                hs = hs[0]      # documented ambiguity: one-element text means every file
            if c.get("cli") and isinstance(ws, list) and len(ws) == 1:
                ws = ws[0]
            why = property_fails(specs, hs, ws, obs, perr)
            n_pred += 1
            exp = expected_items(specs, hs, ws)
            if any(len(f) > 1 for f in specs) and any(isinstance(e, tuple) and (e[1] != 0 or e[3] not in (0,) and
                                                        (isinstance(ws, list) or ws not in ("OMIT", None, " "))) for e in exp):
                nontrivial.add((c["pool"], route, repr(c["hs"]), repr(c["ws"])))
        else:
            nontrivial.add((route, c["hs_text"], c["ws_text"]))
        if i in bad_new or why:
            is_list = False
            if c.get("cli"):
                t = c["hs_text"]
                is_list = t is not None and "," in t and route != "mtan"
            else:
                is_list = isinstance(c["hs"], list)
            matches_old = i in bad_new and i not in bad_old
            key = F1_KEY if (is_list and matches_old and obs["desc"][1] == "EKey") else None
            if i in bad_new:
                rel = "Collection.v ~ collection.py: " + RELNAMES.get(bad_new[i], str(bad_new[i]))
                if key:
                    rel = ("list_is_positional (C20.v): implementation matches the model of collection.py:152 as found "
                           "(`hdul[self._hdu_index]`), not the repaired model; " + RELNAMES.get(bad_new[i], ""))
            else:
                rel = "C20 predicate on the implementation (model agrees with the implementation)"
            case = dict(files=specs, sel={k: v for k, v in c.items() if k != "pool"})
            if key:
                # one defect: a few witnesses are enough (failing ones first), the count goes into the evidence
                n_f1 += 1
                f1_hits.append(((not why, not all(isinstance(e, tuple) for e in expected_items(specs, c["hs"], c["ws"]))), len(f1_hits), (rel, case,
                                dict(selected=[list(e) if isinstance(e, tuple) else e for e in expected_items(specs, c["hs"], c["ws"])]),
                                dict(export_simple=obs["exp"], descriptions=obs["desc"], images=obs["img"], why=why),
                                bool(why) if why is not None else None)))
                continue
            V.disagreement(rel, case,
                           dict(selected=None if c.get("raw") else [list(e) if isinstance(e, tuple) else e for e in expected_items(specs, c["hs"], c["ws"])]),
                           dict(export_simple=obs["exp"], descriptions=obs["desc"], images=obs["img"], why=why),
                           bool(why) if why is not None else None, finding_key=key)
    for _nf, _k, args in sorted(f1_hits, key=lambda t: t[:2])[:3]:
        V.disagreement(*args, finding_key=F1_KEY)
    forced = rp["case"]["e2e"]["hdu_index"] if rp and isinstance(rp.get("case"), dict) and "e2e" in rp["case"] else "NO"
    n_e2e, e2e_samples = end_to_end(rng, wd, V, tier, forced)
    samples = []
    for c, (obs, _pe) in list(zip(cases, observed))[n_exh:n_exh + 3]:
        samples.append(dict(files=[[dict(kind=h["kind"], shape=h["shape"], wcs=h["wcs"]) for h in f] for f in pool[c["pool"]]],
                            sel={k: v for k, v in c.items() if k != "pool"}, descriptions=obs["desc"]))
    return dict(evaluations=len(cases) + n_e2e, distinct_nontrivial=len(nontrivial),
                rule="collections of 1-4 generated FITS files with 1-5 HDUs (data-less primary, 2-D images of distinct shapes with "
                     "WCS keys ' ',A,B,C carrying distinct CRVAL tags, 1-D arrays, binary/ASCII tables); selections none/scalar/"
                     "list (right, short and long lists, negative and out-of-range entries, invalid keys) through load, "
                     "SimpleFitsCollection, tile_fits, CollectionLoader.create_from_args, `toasty view`, `toasty tile-multi-tan`; "
                     "exhaustive over scalars -5..4 x lists over 0..3 x 8 key selections on a fixed 2-file collection; raw "
                     "command-line texts over a small alphabet; non-trivial = distinct case on a multi-HDU collection whose "
                     "selection picks an HDU other than 0 or an alternate WCS key, or a distinct raw text",
                exhaustive_part=n_exh, predicate_evaluations=n_pred, end_to_end_tile_fits=n_e2e,
                end_to_end_samples=e2e_samples[:3], input_histogram=hist, samples=samples,
                model_disagreements=len(bad_new), cases_hitting_list_hdu_index_defect=n_f1, matching_model_of_code_as_found=len([i for i in bad_new if i not in bad_old]))
