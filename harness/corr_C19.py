"""C19 correspondence: an error while processing any item is reported, never
swallowed by parallelism.

The five real parallel stages run under harness/detsched.py with a callback that
raises at a chosen item; every trace is replayed on the LTS models (VisitPar.v /
WalkPar.v with a `bad` item set) inside Coq, and the property predicate (the
operation must fail visibly: neither a normal return nor a hang) is evaluated on
the implementation's outcome.  Serial mode is checked directly.
"""
import os
import contextlib
import signal
import io

import common
import detsched
import corr_C01
import corr_C03
import corr_C13

TRUSTED = corr_C03.TRUSTED
ASSUMPTIONS = [
    "a hang is recognised as STUCK by the scheduler: only polling moves enabled for two full rounds, or no move at all",
    "a worker whose callback raises dies with a non-zero exit status (as multiprocessing.Process does)",
]


def classify(outcome):
    if outcome == "raised":
        return "raised"
    if outcome == "returned":
        return "returned-normally"
    return "hang"


class _SerialCallHung(BaseException):
    pass


def _on_alarm(_sig, _frm):
    raise _SerialCallHung()


EXC_KINDS = (lambda: RuntimeError("boom"), lambda: OSError(28, "No space left on device"), lambda: FileNotFoundError("gone"),
             lambda: ValueError("bad tile"), lambda: MemoryError())


def serial_checks(V):
    """parallel=1: the exception must propagate to the caller (host-language semantics)."""
    from toasty.pyramid import Pyramid
    from toasty import transform
    import os
    n = 0
    sink = io.StringIO()
    saved_jpy = os.environ.pop("JPY_PARENT_PID", None)      # progress bars behave differently under Jupyter
    try:
      for jupyter in (False, True):                          # outside and inside a Jupyter kernel (JPY_PARENT_PID)
        if jupyter:
            os.environ["JPY_PARENT_PID"] = "1"
        else:
            os.environ.pop("JPY_PARENT_PID", None)
        for what in ("walk", "visit_leaves", "transform", "transform2", "multi_tan", "multi_wcs"):
            for progress in (False, True):                   # with and without the progress bar (stdout is not a tty here)
              for mk_exc in EXC_KINDS:                       # whatever the kind of error
                for when in (1, 3):                          # failing at the first / a later item
                    raised = False
                    calls = [0]

                    def boom():
                        calls[0] += 1
                        if calls[0] >= when:
                            raise mk_exc()
                    hung = False
                    signal.signal(signal.SIGALRM, _on_alarm)
                    signal.alarm(25)          # a serial call that does not come back is a failure too
                    try:
                        with contextlib.redirect_stdout(sink), contextlib.redirect_stderr(sink):
                            if what == "walk":
                                Pyramid.new_generic(2).walk(lambda pos: boom(), parallel=1, cli_progress=progress)
                            elif what == "visit_leaves":
                                Pyramid.new_generic(1).visit_leaves(lambda pos, tile: boom(), parallel=1, cli_progress=progress)
                            elif what in ("multi_tan", "multi_wcs"):
                                # the public tile(parallel=1) of the multi-image tilers: the k-th input fails
                                from toasty.multi_tan import MultiTanProcessor
                                from toasty.multi_wcs import MultiWcsProcessor
                                rec0 = corr_C03.Rec([None])
                                rec0.worker = lambda: -1
                                coll = corr_C03._FakeColl(4, rec0, set())

                                class _Img(corr_C03._FakeImage):
                                    def _hit(self_inner):
                                        boom()
                                orig_images = coll.images

                                def images():
                                    for im in orig_images():
                                        yield _Img(im.i, rec0, set())
                                coll.images = images
                                if what == "multi_tan":
                                    proc = MultiTanProcessor(coll)
                                    proc._descs = [corr_C03._FakeDesc(i) for i in range(4)]
                                    proc._n_todo = 4
                                    proc._tiling = type("T", (), {"_tile_levels": 0})()
                                    proc.tile(corr_C03._FakePio(), parallel=1, cli_progress=progress)
                                else:
                                    proc = MultiWcsProcessor(coll)
                                    proc._descs = [corr_C03._FakeDesc(i) for i in range(4)]
                                    proc._n_todo = 4
                                    proc._combined_shape = (8, 8)
                                    proc._combined_wcs = None
                                    proc.tile(corr_C03._FakePio(), None, parallel=1, cli_progress=progress)
                            else:
                                transform._do_a_transform(None, 2 if what == "transform2" else 1, lambda: None,
                                                          lambda buf, pos, a, b: boom(), parallel=1, cli_progress=progress)
                    except _SerialCallHung:
                        hung = True
                    except Exception as e:  # noqa
                        raised = type(e) is type(mk_exc())
                    finally:
                        signal.alarm(0)
                    n += 1
                    if hung:
                        V.disagreement("serial mode propagates callback errors",
                                       dict(stage=what, parallel=1, cli_progress=progress, fails_at_call=when,
                                            JPY_PARENT_PID_set=jupyter, error=type(mk_exc()).__name__),
                                       f"{type(mk_exc()).__name__} reaches the caller", "the call did not return within 25 s", True)
                        import multiprocessing as _mp
                        for ch in _mp.active_children():
                            ch.terminate()
                        return n
                    if not raised:
                        V.disagreement("serial mode propagates callback errors",
                                       dict(stage=what, parallel=1, cli_progress=progress, fails_at_call=when,
                                            JPY_PARENT_PID_set=jupyter, error=type(mk_exc()).__name__),
                                       f"{type(mk_exc()).__name__} reaches the caller", "no exception (or another one)", True)
    finally:
        os.environ.pop("JPY_PARENT_PID", None)
        if saved_jpy is not None:
            os.environ["JPY_PARENT_PID"] = saved_jpy
    return n


class _FailingColl(corr_C03._FakeColl):
    """input collection whose k-th image cannot be loaded (the error is raised in the
    PARENT, inside the dispatch loop, not in a worker)"""

    def __init__(self, n, rec, k):
        super().__init__(n, rec, set())
        self.k = k

    def images(self):
        for i in range(self.n):
            if i == self.k:
                raise IOError(f"cannot load input image {i}")
            yield corr_C03._FakeImage(i, self.rec, self.bad)


def producer_fault_cases(rng, V, n_cases):
    """An error raised on the producer side of a parallel stage (loading an input image,
    evaluating the tile filter while enumerating leaves) must reach the caller as well."""
    from toasty.multi_tan import MultiTanProcessor
    from toasty.multi_wcs import MultiWcsProcessor
    from toasty.pyramid import Pyramid
    done = 0
    hist = {}
    for k in range(n_cases):
        srng = common.rng_for(rng.randrange(1 << 30), "C19p")
        which = ("multi_tan", "multi_wcs", "visit_leaves")[k % 3]
        par = srng.choice((2, 3))
        n = srng.choice((3, 5, 8))
        at = srng.randrange(n)
        sref = [None]
        rec = corr_C03.Rec(sref)

        def fn():
            if which == "multi_tan":
                proc = MultiTanProcessor(_FailingColl(n, rec, at))
                proc._descs = [corr_C03._FakeDesc(i) for i in range(n)]
                proc._tile_parallel(corr_C03._FakePio(), False, par)
            elif which == "multi_wcs":
                proc = MultiWcsProcessor(_FailingColl(n, rec, at))
                proc._descs = [corr_C03._FakeDesc(i) for i in range(n)]
                proc._combined_wcs = None
                proc._tile_parallel(corr_C03._FakePio(), None, False, par)
            else:
                calls = [0]

                def flt(tile):
                    calls[0] += 1
                    # the counting pass evaluates the filter 20 times at depth 2; fail during dispatch
                    if calls[0] == 20 + 4 + at:
                        raise IOError("tile filter failed")
                    return True

                Pyramid.new_toast_filtered(2, flt).visit_leaves(lambda pos, tile: None, parallel=par)

        orig_init = detsched.Scheduler.__init__

        def hooked(self, *a, **kw):
            orig_init(self, *a, **kw)
            sref[0] = self

        detsched.Scheduler.__init__ = hooked
        sink = io.StringIO()
        try:
            with contextlib.redirect_stdout(sink), contextlib.redirect_stderr(sink):
                outcome, val, S = detsched.run_under((), fn, pipe_cap=srng.choice((1, 4, 1 << 20)),
                                                     chooser=corr_C03.make_chooser(srng, srng.choice(corr_C03.MODES), 200))
        finally:
            detsched.Scheduler.__init__ = orig_init
        cls = classify(outcome)
        hist[f"{which}/producer-side/{cls}"] = hist.get(f"{which}/producer-side/{cls}", 0) + 1
        done += 1
        if cls != "raised" or not isinstance(val, IOError):
            V.disagreement("C19: an error raised on the producer side of a parallel stage must reach the caller",
                           dict(stage=which, par=par, n=n, fails_at=at, chosen=[list(ch) for _e, ch in S.trace][:200]),
                           "IOError reaches the caller", f"{cls} ({outcome}: {val!r})", True)
    return done, hist


def run_all_bad(srng, stage_fn):
    """A run in which the first `par` items all raise, so that every worker dies."""
    import random
    probe = random.Random(srng.random())
    desc, items, cap_mult, call = stage_fn(random.Random(probe.random()), None, True)
    state = srng.getstate()
    # re-draw until the item set is large enough to fill the queue after the workers are gone
    r = corr_C03.run_case(srng, stage_fn, with_faults=False)
    if r["n"] < r["par"] + r["cap"] + 1:
        return None
    srng.setstate(state)
    r = corr_C03.run_case(srng, stage_fn, with_faults=False, forced_bad=set(range(r["par"])))
    return r


# ---------------------------------------------------------------------------------------------
# par_util.resolve_parallelism: how a requested worker count reaches the stages (Model/ParUtil.v)

PARUTIL_DEFS = """
From Coq Require Import ZArith List Bool.
Import ListNotations.
Local Open Scope Z_scope.
Record pcase := mkPC { pc_fork : bool; pc_slurm : option (option Z); pc_cpus : Z; pc_req : option Z; pc_obs : Z }.
Definition chk_pc (c : pcase) : bool :=
  resolve_parallelism (pc_fork c) (pc_slurm c) (pc_cpus c) (pc_req c) =? pc_obs c.
"""


def parutil_cases(V, rng, n):
    """the real resolve_parallelism under patched start method / environment / CPU count vs the model;
    the statement's own clause (a serial request is honoured whatever the environment says) checked directly"""
    import multiprocessing as mp
    from unittest import mock
    from toasty import par_util

    def gz(v):
        return f"({v})%Z" if v < 0 else f"{v}%Z"

    terms, metas = [], []
    slurms = [None, "", "4", "1", "0", "-3", "12", "x", "3.5", " 7 ", "0x10"]
    reqs = [None, 1, 0, -2, 2, 3, 16]
    combos = [(f, sl, c, r) for f in (True, False) for sl in slurms for c in (1, 2, 16) for r in reqs]
    rng.shuffle(combos)
    for fork, sl, cpus, req in combos[:n]:
        env = dict(os.environ)
        env.pop("SLURM_NPROCS", None)
        if sl is not None:
            env["SLURM_NPROCS"] = sl
        with mock.patch.object(mp, "get_start_method", lambda *a, **k: "fork" if fork else "spawn"), \
                mock.patch.object(os, "cpu_count", lambda: cpus), mock.patch.dict(os.environ, env, clear=True), \
                mock.patch.object(par_util, "SHOW_INFORMATIONAL_MESSAGES", False), \
                contextlib.redirect_stderr(io.StringIO()), contextlib.redirect_stdout(io.StringIO()):
            try:
                got = par_util.resolve_parallelism(req)
            except Exception as e:  # noqa
                V.disagreement("par_util.resolve_parallelism returns", dict(fork=fork, SLURM_NPROCS=sl, cpus=cpus, parallel=req),
                               "an integer", repr(e), True)
                continue
        case = dict(fork=fork, SLURM_NPROCS=sl, cpus=cpus, parallel=req)
        if req is not None and req <= 1 and got != 1:
            V.disagreement("C19 (serial mode): parallel=1 must reach the stages as 1 in every environment "
                           "(theorem serial_request_is_honoured)", case, 1, got, True)
        if req is not None and req >= 1 and fork and got != req:
            V.disagreement("an explicit worker count reaches the stages unchanged (theorem explicit_request_is_honoured)",
                           case, req, got, True)
        if sl is None or sl == "":
            g_sl = "None"
        else:
            try:
                g_sl = f"(Some (Some {gz(int(sl))}))"
            except ValueError:
                g_sl = "(Some None)"
        g_req = "None" if req is None else f"(Some {gz(req)})"
        terms.append(f"(mkPC {'true' if fork else 'false'} {g_sl} {gz(cpus)} {g_req} {gz(int(got))})")
        metas.append((case, got))
    bad = common.coq_eval_sharded(PARUTIL_DEFS, terms, "chk_pc", ["Model.ParUtil"], shard=500, jobs=2, name="c19p")
    for i in bad:
        case, got = metas[i]
        V.disagreement("ParUtil.resolve_parallelism ~ par_util.resolve_parallelism", case, "model value (vm_compute)", got, None)
    return len(terms)


def run(ctx, V):
    rng = common.rng_for(ctx["seed"], "C19")
    quick = ctx["tier"] == "quick"
    n_visit = 150 if quick else 1500
    n_walk = 100 if quick else 1000
    n_serial = serial_checks(V)
    n_prod, prod_hist = producer_fault_cases(rng, V, 30 if quick else 300)
    n_parutil = parutil_cases(V, common.rng_for(ctx["seed"], "C19parutil"), 200 if quick else 10000)
    # --- producer/worker stages -------------------------------------------------
    vres = []
    for k in range(n_visit):
        srng = common.rng_for(rng.randrange(1 << 30), "C19v")
        r = corr_C03.run_case(srng, corr_C03.STAGES[k % len(corr_C03.STAGES)], with_faults=True, quick=quick)
        vres.append(r)
    # targeted: every worker dies while the bounded queue is full -> producer stuck in put()
    for stage_fn, n_items in ((corr_C03.stage_visit, None), (corr_C03.stage_multi_tan, 8), (corr_C03.stage_multi_wcs, 7),
                              (corr_C03.stage_transform_deep, 85)):
        for attempt in range(400):
            srng = common.rng_for(rng.randrange(1 << 30), "C19hang")
            r = run_all_bad(srng, stage_fn)
            if r is not None:
                vres.append(r)
                if r["outcome"] != "returned":
                    break
    vterms, vidx = [], []
    for j, r in enumerate(vres):
        if r["spawned"]:
            vterms.append(corr_C03.g_case(r))
            vidx.append(j)
    vbad = common.coq_eval_sharded(corr_C03.COQ_DEFS, vterms, "chk", ["Model.VisitPar"], shard=40, jobs=14, name="c19v")
    outcomes = {}
    for t_i, j in enumerate(vidx):
        r = vres[j]
        stage = r["desc"]["stage"]
        if t_i in vbad:
            code = vbad[t_i]
            V.disagreement(f"VisitPar.v (with raising callbacks) ~ {stage}: " +
                           (f"trace step {code - 1000}" if code >= 1000 else f"final observable {code}"),
                           dict(desc=r["desc"], par=r["par"], pcap=r["pcap"], bad=r["bad"],
                                chosen=[list(ch) for _e, ch in r["trace"]]),
                           "model replay", dict(outcome=r["outcome"], started=r["started"][:10]), None)
        hit = any(i in r["bad"] for i, _w in r["started"])
        if not hit:
            continue
        cls = classify(r["outcome"])
        outcomes[(stage, cls)] = outcomes.get((stage, cls), 0) + 1
        if cls != "raised":
            V.disagreement("C19: a raising callback must make the stage fail visibly (theorem c19_visit_reported)",
                           dict(desc=r["desc"], par=r["par"], pcap=r["pcap"], bad=r["bad"],
                                chosen=[list(ch) for _e, ch in r["trace"]]),
                           "exception reaches the caller", f"{cls} ({r['outcome']})", True,
                           finding_key=f"C19/{stage}/{cls}")
    # --- walk ---------------------------------------------------------------------
    wres, wcases, wbads = [], [], []
    for k in range(n_walk):
        srng = common.rng_for(rng.randrange(1 << 30), "C19w")
        case = corr_C01.gen_case(srng)
        kind, depth, table, apex, sub, par, pcap = case
        _t, _l, _lv, ops = corr_C13.ref_sets(kind, depth, table, apex, sub)
        if not ops:
            continue
        badp = (srng.choice(sorted(ops)),)
        mode = srng.choice(corr_C03.MODES)
        r = corr_C01.run_walk(case, corr_C03.make_chooser(srng, mode, srng.choice((60, 200, 600))), bad=badp)
        wres.append(r)
        wcases.append(case)
        wbads.append(badp)
    wterms = [corr_C01.g_case(c, r, bad=b) for c, r, b in zip(wcases, wres, wbads)]
    wbad = common.coq_eval_sharded(corr_C01.COQ_DEFS, wterms, "chk",
                                   ["Model.Quadtree", "Model.Reducer", "Model.WalkPar"], shard=24, jobs=14, name="c19w")
    for i, (case, r, b) in enumerate(zip(wcases, wres, wbads)):
        kind, depth, table, apex, sub, par, pcap = case
        cdesc = dict(kind=kind, depth=depth, table=[list(p) for p in table], apex=list(apex), sub=sub, par=par,
                     pcap=pcap, bad=[list(p) for p in b], chosen=[list(ch) for _e, ch in r["trace"]])
        if i in wbad:
            code = wbad[i]
            V.disagreement("WalkPar.v (with raising callbacks) ~ pyramid.py walk: " +
                           (f"trace step {code - 1000}" if code >= 1000 else f"final observable {code}"),
                           cdesc, "model replay", dict(outcome=r["outcome"]), None)
        cls = classify(r["outcome"])
        outcomes[("walk", cls)] = outcomes.get(("walk", cls), 0) + 1
        if cls != "raised":
            V.disagreement("C19: a raising callback must make the walk fail visibly (theorem c19_walk_reported)",
                           cdesc, "exception reaches the caller", f"{cls} ({r['outcome']})", True,
                           finding_key=f"C19/walk/{cls}")
    samples = [dict(desc=r["desc"], par=r["par"], bad=r["bad"], outcome=r["outcome"]) for r in vres[:3]]
    outcomes.update({tuple(k.rsplit("/", 1)): v for k, v in prod_hist.items()})
    return dict(evaluations=n_serial + n_prod + n_parutil + len(vres) + len(wres), resolve_parallelism_cases=n_parutil, distinct_nontrivial=len(vterms) + len(wterms),
                traces_validated_against_impl=len(vterms) + len(wterms),
                outcome_histogram={f"{s}/{c}": n for (s, c), n in sorted(outcomes.items())},
                rule="every case: one stage, one raising item, random worker count / pipe capacity / biased schedule; "
                     "non-trivial = a run in which a worker actually received the raising item; serial mode checked for "
                     "walk, leaf visit and transform",
                samples=samples)
