"""C13 correspondence: quadtree enumeration, relations and counts.

Implementation side: toasty.pyramid (generate_pos, pos_parent, pos_children,
is_subtile, Pyramid.{new_generic,new_toast,new_toast_filtered,subpyramid},
_make_iter_reducer, count_*, walk(parallel=1), visit_leaves(parallel=1)).
Model side: Model/Quadtree.v, Model/Reducer.v evaluated by vm_compute.
"""
import contextlib
import io
import itertools

import common
from common import g_pos, g_list, g_N, g_nat, g_bool, g_opt, g_pair

TRUSTED = ["table-driven tile filters (lambda t: t.pos in table) stand for arbitrary pure filters"]
ASSUMPTIONS = ["tile filters are pure functions of the tile position",
               "apex positions are valid (coordinates < 2^n) and apex.n <= depth, as subpyramid() requires"]

PRIME = 1000003


def code(p):
    return p[0] * 10007 + p[1] * 101 + p[2] * 13 + 1


def probe(p, leaf, data):
    a, b, c, d = data
    return (a + 3 * b + 5 * c + 7 * d + code(p) + (500 if leaf else 0)) % PRIME


COQ_DEFS = r"""
Local Open Scope N_scope.
Definition code (p : pos) : N := N.of_nat (pn p) * 10007 + px p * 101 + py p * 13 + 1.
Definition probe (p : pos) (leaf : bool) (t : N*N*N*N) : N :=
  let '(a,b,c,e) := t in (a + 3*b + 5*c + 7*e + code p + (if leaf then 500 else 0)) mod 1000003.
Definition tbl (l : list pos) : pos -> bool := fun p => existsb (pos_eqb p) l.
Definition kind_of (k : nat) : kind := match k with 0%nat => Generic | 1%nat => Toast | _ => ToastFiltered end.
Definition eq_posl (a b : list pos) : bool :=
  Nat.eqb (length a) (length b) && forallb (fun ab => pos_eqb (fst ab) (snd ab)) (combine a b).
Definition eq_opt_posl (a b : option (list pos)) : bool :=
  match a, b with Some x, Some y => eq_posl x y | None, None => true | _, _ => false end.
Definition eq_optN (a b : option N) : bool :=
  match a, b with Some x, Some y => N.eqb x y | None, None => true | _, _ => false end.
Definition log_pos {A} (r : @rres A) : option (list pos) :=
  match r with RErr => None | ROk log _ => Some (map (fun e => fst (fst e)) log) end.
Definition log_res {A} (r : @rres A) : option A :=
  match r with RErr => None | ROk _ v => Some v end.
Record pcase := mkCase {
  c_kind : nat; c_depth : nat; c_tbl : list pos; c_apex : pos; c_sub : bool;
  o_gen : list pos; o_rlog : option (list pos); o_rres : option N;
  o_leaf : option N; o_live : option N; o_ops : option N;
  o_walk : option (list pos); o_visit : option (list pos) }.
Definition pyr_of (c : pcase) : pyr := mkPyr (kind_of (c_kind c)) (c_depth c) (tbl (c_tbl c)) (c_apex c) (c_sub c).
(* which relation fails first: 0 = none *)
Definition chk_pyr (c : pcase) : nat :=
  let P := pyr_of c in
  let r := riter_run probe 0 P in
  if negb (eq_posl (gen_seq P) (o_gen c)) then 1%nat
  else if negb (eq_opt_posl (log_pos r) (o_rlog c)) then 2%nat
  else if negb (eq_optN (log_res r) (o_rres c)) then 3%nat
  else if negb (eq_optN (count_leaf_tiles P) (o_leaf c)) then 4%nat
  else if negb (eq_optN (count_live_tiles P) (o_live c)) then 5%nat
  else if negb (eq_optN (count_operations P) (o_ops c)) then 6%nat
  else if negb (eq_opt_posl (walk_serial P) (o_walk c)) then 7%nat
  else if negb (eq_opt_posl (visit_serial P) (o_visit c)) then 8%nat
  else 0%nat.
Definition chk_pyr_b (c : pcase) : bool := Nat.eqb (chk_pyr c) 0.
(* position algebra: (op, p, q, observed) *)
Inductive acase :=
| AParent (p : pos) (o : option (pos * N * N))
| AChildren (p : pos) (o : list pos)
| ASub (a b : pos) (o : option bool)
| AGen (d : nat) (o : list pos).
Definition chk_alg (c : acase) : bool :=
  match c with
  | AParent p o => match parent p, o with
                   | Some (q, ix, iy), Some (q', ix', iy') => pos_eqb q q' && N.eqb ix ix' && N.eqb iy iy'
                   | None, None => true | _, _ => false end
  | AChildren p o => eq_posl (children p) o
  | ASub a b o => match is_subtile a b, o with
                  | Some x, Some y => Bool.eqb x y | None, None => true | _, _ => false end
  | AGen d o => eq_posl (generate_pos d) o
  end.
"""

RELNAMES = {1: "gen_seq (Pyramid._generator order)", 2: "riter log (positions)", 3: "riter result (child-data wiring)",
            4: "count_leaf_tiles", 5: "count_live_tiles", 6: "count_operations",
            7: "walk_serial callbacks", 8: "visit_serial callbacks"}


# ------------------------------------------------------------------ impl side

def build_pyramid(kind, depth, table, apex, sub):
    from toasty.pyramid import Pyramid, Pos
    if kind == 0:
        p = Pyramid.new_generic(depth)
    elif kind == 1:
        p = Pyramid.new_toast(depth)
    else:
        tset = set(table)
        p = Pyramid.new_toast_filtered(depth, lambda t: tuple(t.pos) in tset)
    if sub:
        p.subpyramid(Pos(*apex))
    return p


def observe(kind, depth, table, apex, sub):
    """Run the real code; every observable is None when the code raised."""
    def mk():
        return build_pyramid(kind, depth, table, apex, sub)

    sink = io.StringIO()
    obs = {}
    with contextlib.redirect_stdout(sink):
        obs["gen"] = [tuple(pos) for pos, _t in mk()._generator()]
        try:
            r = mk()._make_iter_reducer(default_value=0)
            lg = []
            for pos, _t, leaf, data in r:
                lg.append(tuple(pos))
                r.set_data(probe(tuple(pos), leaf, data))
            obs["rlog"], obs["rres"] = lg, r.result()
        except (AssertionError, ValueError, IndexError) as e:
            obs["rlog"], obs["rres"] = None, None
        for k, fn in (("leaf", "count_leaf_tiles"), ("live", "count_live_tiles"), ("ops", "count_operations")):
            try:
                obs[k] = getattr(mk(), fn)()
            except (AssertionError, ValueError, IndexError):
                obs[k] = None
        try:
            w = []
            mk().walk(lambda pos: w.append(tuple(pos)), parallel=1)
            obs["walk"] = w
        except (AssertionError, ValueError, IndexError):
            obs["walk"] = None
        try:
            v = []
            vt = []
            mk().visit_leaves(lambda pos, tile: (v.append(tuple(pos)), vt.append(tile)), parallel=1)
            obs["visit"] = v
            obs["visit_tiles"] = vt
        except (AssertionError, ValueError, IndexError):
            obs["visit"] = None
            obs["visit_tiles"] = None
    return obs


# ------------------------------------------------------------------ property predicate (Python reference)

def children(p):
    n, x, y = p
    return [(n + 1, 2 * x, 2 * y), (n + 1, 2 * x + 1, 2 * y), (n + 1, 2 * x, 2 * y + 1), (n + 1, 2 * x + 1, 2 * y + 1)]


def is_below(c, p):
    if c[0] < p[0]:
        return False
    s = c[0] - p[0]
    return (c[1] >> s, c[2] >> s) == (p[1], p[2])


def ref_sets(kind, depth, table, apex, sub):
    """In-scope accepted tree under the apex, live set, leaves, ops — straight
    from the property text."""
    tset = set(table)

    def acc(p):
        if kind != 2 or p[0] == 0:
            return True
        return p in tset

    ap = apex if sub else (0, 0, 0)
    # ancestors of the apex must be accepted
    q = ap
    while q[0] > 0:
        q = (q[0] - 1, q[1] // 2, q[2] // 2)
        if not acc(q):
            return set(), set(), set(), set()
    tree, live = set(), set()

    def rec(p):
        if p[0] > depth or not acc(p):
            return False
        tree.add(p)
        if p[0] == depth:
            live.add(p)
            return True
        lv = False
        for c in children(p):
            lv = rec(c) or lv
        if lv:
            live.add(p)
        return lv

    rec(ap)
    leaves = {p for p in live if p[0] == depth}
    return tree, live, leaves, live - leaves


def property_fails(case, obs):
    """True when the behaviour observed on the implementation violates C13's
    statement (independently of the Gallina model)."""
    kind, depth, table, apex, sub = case
    tree, live, leaves, ops = ref_sets(kind, depth, table, apex, sub)
    why = []
    rlog = obs["rlog"]
    if rlog is None:
        why.append("reduction raised")
    else:
        if len(set(rlog)) != len(rlog):
            why.append("position enumerated twice")
        if set(rlog) != tree:
            why.append("enumerated set != in-scope accepted tree")
        seen = set()
        for p in rlog:
            for c in children(p):
                if c in tree and c not in seen:
                    why.append(f"child {c} after parent {p}")
            seen.add(p)
    if obs["leaf"] != len(leaves):
        why.append(f"count_leaf {obs['leaf']} != {len(leaves)}")
    if obs["live"] != len(live):
        why.append(f"count_live {obs['live']} != {len(live)}")
    if obs["ops"] != len(ops):
        why.append(f"count_ops {obs['ops']} != {len(ops)}")
    if obs["visit"] is None or sorted(obs["visit"]) != sorted(leaves):
        why.append("leaf visits != leaves")
    if obs["walk"] is None or sorted(obs["walk"]) != sorted(ops):
        why.append("walk callbacks != operations")
    if None not in (obs["leaf"], obs["live"], obs["ops"]) and obs["ops"] + obs["leaf"] != obs["live"]:
        why.append("ops + leaves != live")
    return why


# ------------------------------------------------------------------ generation

def gen_table(rng, depth, density, childless_p=0.1, noise=2):
    """Accepted set for a filtered pyramid: walk the tree from level 1, accepting
    with probability `density`; sometimes accept a tile but none of its children."""
    table = []

    def rec(p):
        if p[0] > depth:
            return
        if rng.random() >= density:
            return
        table.append(p)
        if p[0] < depth and rng.random() < childless_p:
            return
        for c in children(p):
            rec(c)

    for c in children((0, 0, 0)):
        rec(c)
    for _ in range(noise):
        n = rng.randint(1, max(1, depth))
        table.append((n, rng.randrange(2 ** n), rng.randrange(2 ** n)))
    return sorted(set(table))


def rand_apex(rng, depth, table=None):
    if table and rng.random() < 0.7:
        cand = [p for p in table if p[0] <= depth]
        if cand:
            return rng.choice(cand)
    n = rng.randint(0, depth)
    return (n, rng.randrange(2 ** n), rng.randrange(2 ** n))


def gen_cases(rng, tier):
    cases = []
    # exhaustive small part: depth <= 1, every filter table over levels 1..depth, every apex
    for depth in (0, 1):
        tiles = [(1, x, y) for y in range(2) for x in range(2)] if depth == 1 else []
        apexes = [(0, 0, 0)] + tiles
        for kind in (0, 1):
            for ap in apexes:
                for sub in ((False, True) if ap == (0, 0, 0) else (True,)):
                    cases.append((kind, depth, (), ap, sub))
        for r in range(len(tiles) + 1):
            for tb in itertools.combinations(tiles, r):
                for ap in apexes:
                    for sub in ((False, True) if ap == (0, 0, 0) else (True,)):
                        cases.append((2, depth, tuple(tb), ap, sub))
    n_exh = len(cases)
    n_rand = 260 if tier == "quick" else 3000
    for i in range(n_rand):
        kind = rng.choice((0, 1, 2, 2, 2))
        depth = rng.choice((2, 2, 3, 3, 3, 4, 4, 5)) if kind == 2 else rng.choice((1, 2, 3, 4))
        if kind == 2:
            dens = rng.choice((0.3, 0.5, 0.7, 0.85, 0.95, 1.0))
            if depth == 5:
                dens = min(dens, 0.6)
            table = tuple(gen_table(rng, depth, dens, childless_p=rng.choice((0.0, 0.1, 0.3))))
        else:
            table = ()
        sub = rng.random() < 0.6
        ap = rand_apex(rng, depth, table) if sub else (0, 0, 0)
        cases.append((kind, depth, table, ap, sub))
    return cases, n_exh


def g_case(case, obs):
    kind, depth, table, apex, sub = case

    def posl(l):
        return g_list([g_pos(p) for p in l])

    def optposl(l):
        return "None" if l is None else f"(Some {posl(l)})"

    def optN(v):
        return "None" if v is None else f"(Some {g_N(v)})"

    return ("(mkCase %d %d %s %s %s %s %s %s %s %s %s %s %s)" % (
        kind, depth, posl(table), g_pos(apex), g_bool(sub), posl(obs["gen"]),
        optposl(obs["rlog"]), optN(obs["rres"]), optN(obs["leaf"]), optN(obs["live"]), optN(obs["ops"]),
        optposl(obs["walk"]), optposl(obs["visit"])))


def alg_cases(rng, tier):
    from toasty import pyramid as P
    out = []
    n = 400 if tier == "quick" else 4000
    for i in range(n):
        depth = rng.choice((0, 1, 2, 3, 7, 20, 40, 60))
        p = (depth, rng.randrange(2 ** depth), rng.randrange(2 ** depth))
        try:
            q, ix, iy = P.pos_parent(P.Pos(*p))
            o = f"(Some ({g_pos(tuple(q))}, {g_N(ix)}, {g_N(iy)}))"
            pobs = (tuple(q), ix, iy)
        except ValueError:
            o, pobs = "None", None
        out.append((f"(AParent {g_pos(p)} {o})", ("parent", p, pobs)))
        ch = [tuple(c) for c in P.pos_children(P.Pos(*p))]
        out.append((f"(AChildren {g_pos(p)} {g_list([g_pos(c) for c in ch])})", ("children", p, ch)))
        # is_subtile: related, unrelated, and wrong-order pairs
        k = rng.randint(0, depth)
        mode = rng.choice(("anc", "rand", "swap", "near"))
        if mode == "anc":
            b = (depth - k, p[1] >> k, p[2] >> k)
            a = p
        elif mode == "near":
            b = (depth - k, (p[1] >> k) ^ rng.choice((0, 1)), (p[2] >> k) ^ rng.choice((0, 1)))
            a = p
        elif mode == "swap":
            a = (depth - k, p[1] >> k, p[2] >> k)
            b = p
        else:
            d2 = rng.randint(0, depth)
            b = (d2, rng.randrange(2 ** d2), rng.randrange(2 ** d2))
            a = p
        try:
            r = bool(P.is_subtile(P.Pos(*a), P.Pos(*b)))
            o = f"(Some {g_bool(r)})"
        except ValueError:
            r, o = None, "None"
        out.append((f"(ASub {g_pos(a)} {g_pos(b)} {o})", ("is_subtile", a, b, r)))
    for d in range(0, 5 if tier == "quick" else 7):
        l = [tuple(p) for p in P.generate_pos(d)]
        out.append((f"(AGen {d} {g_list([g_pos(p) for p in l])})", ("generate_pos", d, len(l))))
    return out


def alg_property_fails(rec):
    """parent/children/is_subtile agree with one another; generate_pos is a
    duplicate-free children-first enumeration of the right size."""
    from toasty import pyramid as P
    if rec[0] == "parent":
        _, p, o = rec
        if p[0] == 0:
            return o is not None
        if o is None:
            return True
        # parent and children agree: the reported child indices (ix, iy) name the slot of pos_children(parent)
        # (order top-left, top-right, bottom-left, bottom-right) that holds p
        ch = [tuple(c) for c in P.pos_children(P.Pos(*o[0]))]
        return o[1] not in (0, 1) or o[2] not in (0, 1) or ch[2 * o[2] + o[1]] != tuple(p)
    if rec[0] == "children":
        _, p, ch = rec
        return any(tuple(P.pos_parent(P.Pos(*c))[0]) != p for c in ch) or len(set(ch)) != 4
    if rec[0] == "is_subtile":
        _, a, b, r = rec
        if a[0] < b[0]:
            return r is not None
        return r != is_below(a, b)
    if rec[0] == "generate_pos":
        _, d, _n = rec
        l = [tuple(p) for p in P.generate_pos(d)]
        ok = len(l) == (4 ** (d + 1) - 1) // 3 == len(set(l))
        seen = set()
        for p in l:
            if p[0] < d and not all(c in seen for c in children(p)):
                ok = False
            seen.add(p)
        return not ok
    return None


def run(ctx, V):
    rng = common.rng_for(ctx["seed"], "C13")
    tier = ctx["tier"]
    cases, n_exh = gen_cases(rng, tier)
    if ctx.get("replay") and ctx["replay"].get("case", {}).get("pyramid"):
        c = ctx["replay"]["case"]["pyramid"]
        cases = [(c[0], c[1], tuple(tuple(p) for p in c[2]), tuple(c[3]), c[4])] + cases[:5]
    obs = [observe(*c) for c in cases]
    terms = [g_case(c, o) for c, o in zip(cases, obs)]
    bad = common.coq_eval_sharded(COQ_DEFS, terms, "chk_pyr", ["Model.Quadtree", "Model.Reducer"],
                                  shard=60, jobs=12, name="c13p")
    # property-level predicate on every case (cheap), not only on disagreements
    nontrivial = set()
    hist = {}
    for i, (c, o) in enumerate(zip(cases, obs)):
        why = property_fails(c, o)
        kind, depth, table, apex, sub = c
        tree, live, leaves, ops = ref_sets(*c)
        pruned = kind == 2 and len(tree) < (4 ** (depth - (apex[0] if sub else 0) + 1) - 1) // 3
        if pruned or sub:
            nontrivial.add(c)
        key = f"kind{kind}/depth{depth}/sub{int(sub)}"
        hist[key] = hist.get(key, 0) + 1
        if i in bad or why:
            # which relation?
            if i in bad:
                rel = "Reducer.v ~ pyramid.py: " + RELNAMES.get(bad[i], str(bad[i]))
            else:
                rel = "C13 predicate on implementation (model agrees with implementation!)"
            V.disagreement(rel, dict(pyramid=[kind, depth, [list(p) for p in table], list(apex), sub]),
                           "model value / property predicate", dict(why=why, ops=o["ops"], leaf=o["leaf"], live=o["live"]),
                           bool(why))
    # sub-pyramid restriction, judged on the implementation directly
    n_sub = 0
    for c, o in zip(cases, obs):
        kind, depth, table, apex, sub = c
        if not sub or o["visit"] is None:
            continue
        full = observe(kind, depth, table, (0, 0, 0), False)
        n_sub += 1
        want_v = sorted(p for p in full["visit"] if is_below(p, apex))
        want_w = sorted(p for p in full["walk"] if is_below(p, apex))
        if sorted(o["visit"]) != want_v or sorted(o["walk"]) != want_w:
            V.disagreement("subpyramid_restriction", dict(pyramid=[kind, depth, [list(p) for p in table], list(apex), sub]),
                           dict(visit=want_v[:8], walk=want_w[:8]), dict(visit=sorted(o["visit"])[:8], walk=sorted(o["walk"])[:8]), True)
    # one Pyramid instance used across a sequence of calls: counting / visiting before
    # subpyramid() (or before changing the documented-mutable `depth`) must not leak into later answers
    n_reuse = 0
    from toasty.pyramid import Pos as _Pos
    for c, o in list(zip(cases, obs)):
        kind, depth, table, apex, sub = c
        if not sub or kind == 0 and False:
            continue
        if n_reuse >= (25 if tier == "quick" else 200):
            break
        n_reuse += 1
        sink = io.StringIO()
        with contextlib.redirect_stdout(sink):
            p = build_pyramid(kind, depth, table, (0, 0, 0), False)
            p.count_leaf_tiles(), p.count_live_tiles(), p.count_operations()
            p.visit_leaves(lambda pos, tile: None, parallel=1)
            p.walk(lambda pos: None, parallel=1)
            try:
                p.subpyramid(_Pos(*apex))
                got = dict(leaf=p.count_leaf_tiles(), live=p.count_live_tiles(), ops=p.count_operations())
                v, w = [], []
                p.visit_leaves(lambda pos, tile: v.append(tuple(pos)), parallel=1)
                p.walk(lambda pos: w.append(tuple(pos)), parallel=1)
                got["visit"], got["walk"] = v, w
            except (AssertionError, ValueError, IndexError):
                got = None
        want = {k: o[k] for k in ("leaf", "live", "ops", "visit", "walk")}
        if got != want:
            V.disagreement("a Pyramid counted/visited before subpyramid() answers like a fresh sub-pyramid",
                           dict(pyramid=[kind, depth, [list(q) for q in table], list(apex), sub], sequence="count, visit, walk, subpyramid, count, visit, walk"),
                           {k: (want[k] if not isinstance(want[k], list) else len(want[k])) for k in want},
                           None if got is None else {k: (got[k] if not isinstance(got[k], list) else len(got[k])) for k in got}, True)
        if depth >= 2 and kind == 2:
            with contextlib.redirect_stdout(sink):
                q = build_pyramid(kind, depth, table, (0, 0, 0), False)
                q.count_leaf_tiles(), q.count_live_tiles(), q.count_operations()
                q.depth = depth - 1
                got2 = (q.count_leaf_tiles(), q.count_live_tiles(), q.count_operations())
                f = build_pyramid(kind, depth - 1, table, (0, 0, 0), False)
                want2 = (f.count_leaf_tiles(), f.count_live_tiles(), f.count_operations())
            if got2 != want2:
                V.disagreement("counts after changing Pyramid.depth equal those of a fresh pyramid of that depth",
                               dict(pyramid=[kind, depth, [list(q_) for q_ in table], [0, 0, 0], False], new_depth=depth - 1),
                               list(want2), list(got2), True)
    # the public tile counter of toast.py: count_tiles_matching_filter(depth, filter, bottom_only) equals the
    # enumeration it stands for (seeded change C13-n dropped bottom_only on the way to the generator)
    n_ctm = 0
    from toasty import toast as _T
    for c in cases:
        kind, depth, table, apex, sub = c
        if kind == 0 or sub or depth < 1 or n_ctm >= (60 if tier == "quick" else 600):
            continue
        tset = set(table)
        flt = (lambda t: True) if kind == 1 else (lambda t, tset=tset: tuple(t.pos) in tset)
        tree, _live, _leaves, _ops = ref_sets(*c)
        for bottom_only in (True, False):
            want = sum(1 for p in tree if p[0] == depth) if bottom_only else sum(1 for p in tree if p[0] >= 1)
            try:
                got = _T.count_tiles_matching_filter(depth, flt, bottom_only=bottom_only)
            except Exception as e:  # noqa: BLE001
                got = repr(e)
            n_ctm += 1
            if got != want:
                V.disagreement("count_tiles_matching_filter = number of tiles the filtered enumeration yields",
                               dict(pyramid=[kind, depth, [list(p) for p in table], [0, 0, 0], False], bottom_only=bottom_only),
                               want, got, True)
    # the reported counts must also equal what PARALLEL walks and leaf visits touch
    n_par = 0
    import os
    par_cases = [c for c in cases if c[0] == 2 and c[1] >= 2][: (6 if tier == "quick" else 40)]
    # make sure an accept-but-childless tile one level above the leaves is among them
    par_cases.append((2, 3, ((1, 0, 0), (2, 0, 0), (2, 1, 1), (3, 0, 0), (3, 1, 1)), (0, 0, 0), False))
    # generic pyramids (their leaves carry no Tile object), a generic sub-pyramid, and the one-tile TOAST
    # pyramid of depth 0: seeded change C13-o queued a leaf for the workers only when it had a Tile
    par_cases += [(0, 2, (), (0, 0, 0), False), (0, 3, (), (1, 1, 0), True), (0, 0, (), (0, 0, 0), False),
                  (1, 0, (), (0, 0, 0), False), (1, 2, (), (0, 0, 0), False)]
    for c in par_cases:
        kind, depth, table, apex, sub = c
        d = common.workdir() / f"c13par{n_par}"
        d.mkdir(exist_ok=True)

        def note(name, pos, d=d):
            fd = os.open(str(d / name), os.O_WRONLY | os.O_APPEND | os.O_CREAT)
            os.write(fd, f"{pos.n} {pos.x} {pos.y}\n".encode())
            os.close(fd)

        sink = io.StringIO()
        with contextlib.redirect_stdout(sink):
            build_pyramid(*c).walk(lambda pos: note("walk", pos), parallel=2)
            build_pyramid(*c).visit_leaves(lambda pos, tile: note("visit", pos), parallel=2)
            n_ops = build_pyramid(*c).count_operations()
            n_leaf = build_pyramid(*c).count_leaf_tiles()
        got_w = sorted(tuple(map(int, l.split())) for l in open(d / "walk")) if (d / "walk").exists() else []
        got_v = sorted(tuple(map(int, l.split())) for l in open(d / "visit")) if (d / "visit").exists() else []
        n_par += 1
        if len(got_w) != n_ops or len(got_v) != n_leaf or len(set(got_w)) != len(got_w):
            V.disagreement("counts = tiles visited by parallel walk / leaf visit",
                           dict(pyramid=[kind, depth, [list(p) for p in table], list(apex), sub], parallel=2),
                           dict(count_operations=n_ops, count_leaf_tiles=n_leaf),
                           dict(walk_callbacks=len(got_w), leaf_callbacks=len(got_v)), True)
    # position algebra
    alg = alg_cases(rng, tier)
    bad_a = common.coq_eval_sharded(COQ_DEFS, [t for t, _ in alg], "chk_alg", ["Model.Quadtree", "Model.Reducer"],
                                    shard=700, jobs=8, name="c13a")
    for i, (t, rec) in enumerate(alg):
        pf = alg_property_fails(rec)
        if i in bad_a or pf:
            V.disagreement("Quadtree.v ~ pyramid.py position algebra", dict(algebra=list(map(str, rec))),
                           "model value", t, bool(pf))
    samples = [dict(pyramid=[c[0], c[1], [list(p) for p in c[2]][:12], list(c[3]), c[4]],
                    counts=[o["leaf"], o["live"], o["ops"]]) for c, o in list(zip(cases, obs))[n_exh:n_exh + 3]]
    return dict(evaluations=len(cases) + len(alg), distinct_nontrivial=len(nontrivial),
                rule="pyramids: exhaustive over all filter tables x apexes for depth<=1, then random tables "
                     "(density 0.3-1.0, accept-but-childless shapes) depth 1-5 with random apexes; non-trivial = "
                     "distinct (kind,depth,table,apex,sub) with a pruned subtree or an active sub-pyramid; "
                     "algebra: random positions to depth 60 incl. error branches",
                exhaustive_part=n_exh, count_tiles_matching_filter_checks=n_ctm, subpyramid_restriction_checks=n_sub, parallel_count_checks=n_par, instance_reuse_checks=n_reuse,
                input_histogram=hist, samples=samples)
