"""C03 correspondence: parallel stages hand every item to exactly one worker and
then terminate.

The four real entry points (Pyramid.visit_leaves, transform._do_a_transform,
MultiTanProcessor._tile_parallel, MultiWcsProcessor._tile_parallel) run
unmodified under the deterministic scheduler (harness/detsched.py); the recorded
trace (enabled-action set and chosen action at every step) is replayed on the
Gallina LTS Model/VisitPar.v inside Coq, which must agree step by step and on
the final observables.
"""
import contextlib
import io

import common
import detsched
from common import g_nat, g_bool, g_list

TRUSTED = [
    "harness/detsched.py: cooperative fakes of multiprocessing.Queue/Event/Process (mirrors CPython 3.12 queues.py: "
    "semaphore released by get, unbounded buffer, one-item feeder flushes, FIFO pipe, Empty on an empty pipe or (contention runs) "
    "while another worker is inside get() on the same queue, "
    "join_thread after the buffer is flushed)",
    "callbacks are atomic between two sync points (they touch no scheduler-visible state)",
]
ASSUMPTIONS = [
    "get(timeout) raises Empty while the pipe is empty, or (one third of the cases, model flag v_cont) while another worker "
    "is inside get() on the same queue and may hold its reader lock; 'is inside get()' over-approximates 'holds the lock'",
    "termination is judged under any schedule that does not poll forever while a non-polling action stays enabled (fairness)",
]

COQ_DEFS = r"""
Definition in_tbl (l : list nat) (i : nat) : bool := existsb (Nat.eqb i) l.
Record vcase := mkVC {
  c_n : nat; c_par : nat; c_cap : nat; c_pcap : nat; c_fixed : bool; c_cont : bool; c_bad : list nat;
  c_trace : list (list act * act);
  o_returned : bool; o_started : list (nat * nat); o_finished : list nat; o_exit : list nat }.
Definition eq_pairs (a b : list (nat * nat)) : bool :=
  Nat.eqb (length a) (length b) &&
  forallb (fun xy => Nat.eqb (fst (fst xy)) (fst (snd xy)) && Nat.eqb (snd (fst xy)) (snd (snd xy))) (combine a b).
Definition eq_nats (a b : list nat) : bool :=
  Nat.eqb (length a) (length b) && forallb (fun xy => Nat.eqb (fst xy) (snd xy)) (combine a b).
Definition exit_codes (s : vstate) : list nat :=
  map (fun x => match x with WExited c => S c | _ => 0 end) (ws s).
(* 0 agree; 1000+i: trace step i disagrees (enabled set or chosen action);
   1 returned flag; 2 started; 3 finished; 4 worker exit states *)
Definition chk (c : vcase) : nat :=
  match replay (in_tbl (c_bad c)) (init_c (c_n c) (c_par c) (c_cap c) (c_pcap c) (c_fixed c) (c_cont c)) (c_trace c) 0 with
  | inr i => 1000 + i
  | inl s =>
      if negb (Bool.eqb (returned s) (o_returned c)) then 1
      else if negb (eq_pairs (rev (started s)) (o_started c)) then 2
      else if negb (eq_nats (rev (finished s)) (o_finished c)) then 3
      else if negb (eq_nats (exit_codes s) (o_exit c)) then 4
      else 0
  end.
"""


def g_act(name):
    kind, who = name
    if kind == "Put":
        return "APut"
    if kind == "Close":
        return "AClose"
    if kind == "Flush":
        return "AFlush"
    if kind == "FeederExit":
        return "AFeederExit"
    if kind == "JoinThread":
        return "AJoinThread"
    if kind == "Set":
        return "ASet"
    if kind == "Join":
        return f"(AJoin {int(who.split(':W')[1])})"
    if kind in ("PutTimeout", "Sleep", "ValueGet", "ValueSet", "LockAcq"):
        # the modelled code calls put() without a bound, shares no counter and never sleeps: no such
        # action exists in VisitPar.v (an action that is never enabled makes the replay stop at this step)
        return "(AJoin 4000)"
    w = int(who.split(":")[0][1:])
    if kind == "Recv":
        return f"(ARecv {w})"
    if kind == "Timeout":
        return f"(ATimeout {w})"
    if kind == "IsSet":
        return f"(AIsSet {w})"
    if kind == "CTimeout":
        return f"(ACTimeout {w})"
    raise ValueError(name)


def g_trace(trace):
    trace = trace[:3000]        # a run that never ends is cut; the replay stops at the first foreign action anyway
    return g_list(["(%s, %s)" % (g_list([g_act(n) for n in en]), g_act(ch)) for en, ch in trace])


# ---------------------------------------------------------------- choosers

def make_chooser(rng, mode, length):
    def ch(enabled, stutter, k):
        if k >= length:
            return None
        n = len(enabled)
        if mode == "uniform":
            return rng.randrange(n)
        pref = None
        if mode == "eager_poll":
            pref = [i for i, e in enumerate(enabled) if e[0] in ("Timeout", "IsSet")]
            p = 0.7
        elif mode == "contend":
            # Empty under reader-lock contention whenever it is possible
            pref = [i for i, e in enumerate(enabled) if e[0] == "CTimeout"]
            p = 0.6
        elif mode == "starve_feeder":
            pref = [i for i, e in enumerate(enabled) if e[0] not in ("Flush", "FeederExit")]
            p = 0.95
        elif mode == "producer_first":
            pref = [i for i, e in enumerate(enabled) if e[1].startswith("M") or e[0] in ("Flush", "FeederExit")]
            p = 0.85
        elif mode == "slow_w0":
            pref = [i for i, e in enumerate(enabled) if not e[1].startswith("W0")]
            p = 0.95
        elif mode == "late_flag":
            # let workers poll (time out) right before the flag is raised: F9's window
            pref = [i for i, e in enumerate(enabled) if e[0] in ("Timeout",)] or \
                   [i for i, e in enumerate(enabled) if e[0] not in ("IsSet",)]
            p = 0.9
        if pref and rng.random() < p:
            return rng.choice(pref)
        return rng.randrange(n)
    return ch


MODES = ["uniform", "uniform", "eager_poll", "starve_feeder", "producer_first", "slow_w0", "late_flag"]


# ---------------------------------------------------------------- stages

class Rec:
    def __init__(self, sched_ref):
        self.started = []
        self.finished = []
        self.sched_ref = sched_ref
        self.payload_ok = True
        self.notes = []

    def worker(self):
        s = self.sched_ref[0]
        nm = s.me().name
        return int(nm[1:]) if nm.startswith("W") else -1


def stage_visit(rng, bad_items, quick):
    """Pyramid.visit_leaves on a random pyramid; items = leaves in generator order."""
    from toasty.pyramid import Pyramid, Pos
    from toasty import toast
    import corr_C13
    kind = rng.choice((0, 1, 2, 2))
    depth = rng.choice((0, 1, 1, 2, 2, 3)) if kind != 2 else rng.choice((1, 2, 2, 3))
    table = tuple(corr_C13.gen_table(rng, depth, rng.choice((0.5, 0.8, 1.0)))) if kind == 2 else ()
    sub = rng.random() < 0.4
    apex = corr_C13.rand_apex(rng, depth, table) if sub else (0, 0, 0)
    serial = corr_C13.observe(kind, depth, table, apex, sub)["visit"]
    items = list(serial)
    desc = dict(stage="visit_leaves", kind=kind, depth=depth, table=[list(p) for p in table], apex=list(apex), sub=sub)
    if kind != 2:
        # unfiltered pyramids: the item set is known without asking the implementation (C13 does the filtered ones):
        # every position of the leaf level below the apex
        a = apex if sub else (0, 0, 0)
        k = depth - a[0]
        want = sorted((depth, (a[1] << k) + i, (a[2] << k) + j) for i in range(2 ** k) for j in range(2 ** k)) if k >= 0 else []
        if sorted(map(tuple, items)) != want:
            desc["independent_leaf_set_mismatch"] = dict(expected=len(want), serial_visit=len(items))
            items = list(want)

    def call(rec, par, bad):
        p = corr_C13.build_pyramid(kind, depth, table, apex, sub)

        def cb(pos, tile):
            i = items.index(tuple(pos)) if tuple(pos) in items else -1
            rec.started.append((i, rec.worker()))
            # each leaf is delivered with its own tile geometry
            if kind == 0 or depth == 0:
                if tile is not None:
                    rec.payload_ok = False
            else:
                ref = toast.create_single_tile(Pos(*pos))
                if tile is None or tuple(tile.pos) != tuple(pos) or tile.increasing != ref.increasing or \
                        any(tuple(map(float, a)) != tuple(map(float, b)) for a, b in zip(tile.corners, ref.corners)):
                    rec.payload_ok = False
                    rec.notes.append(f"tile for {tuple(pos)} is not its own geometry")
            if i in bad:
                raise RuntimeError(f"callback failed on item {i}")
            rec.finished.append(i)

        p.visit_leaves(cb, parallel=par)

    return desc, items, 2, call


def stage_transform(rng, bad_items, quick, depth=None):
    from toasty import transform
    if depth is None:
        depth = rng.choice((0, 1, 1, 2))
    from toasty.pyramid import generate_pos
    items = [tuple(p) for p in generate_pos(depth)]
    desc = dict(stage="transform", depth=depth)

    def call(rec, par, bad):
        def do_one(buf, pos, pio_in, pio_out):
            i = items.index(tuple(pos))
            rec.started.append((i, rec.worker()))
            if i in bad:
                raise RuntimeError(f"do_one failed on item {i}")
            rec.finished.append(i)

        transform._do_a_transform(None, depth, lambda: None, do_one, parallel=par)

    return desc, items, 16, call


class _FakeSub:
    def generate_populated_positions(self):
        return []

    def count_populated_positions(self):
        return 0


class _FakeDesc:
    def __init__(self, i):
        self.i = i
        self.sub_tiling = _FakeSub()
        self.chunks = []
        self.imin = self.imax = 0


class _FakeImage:
    def __init__(self, i, rec, bad):
        self.i, self.rec, self.bad = i, rec, bad
        self.mode = None
        self.wcs = None

    def _hit(self):
        self.rec.started.append((self.i, self.rec.worker()))
        if self.i in self.bad:
            raise RuntimeError(f"input image {self.i} failed")
        self.rec.finished.append(self.i)

    def get_parity_sign(self):          # first thing the multi-TAN worker does
        self._hit()
        return -1

    def asarray(self):                  # first thing the multi-WCS worker does
        self._hit()
        return None


class _FakeColl:
    def __init__(self, n, rec, bad):
        self.n, self.rec, self.bad = n, rec, bad

    def images(self):
        for i in range(self.n):
            yield _FakeImage(i, self.rec, self.bad)


class _FakePio:
    def get_default_vertical_parity_sign(self):
        return -1

    def clean_lockfiles(self, level):
        pass


def stage_multi_tan(rng, bad_items, quick):
    from toasty.multi_tan import MultiTanProcessor
    n = rng.choice((1, 2, 3, 5, 8))
    items = list(range(n))
    desc = dict(stage="multi_tan", n=n)

    def call(rec, par, bad):
        proc = MultiTanProcessor(_FakeColl(n, rec, bad))
        proc._descs = [_FakeDesc(i) for i in range(n)]
        proc._tile_parallel(_FakePio(), False, par)

    return desc, items, 2, call


def stage_multi_wcs(rng, bad_items, quick):
    from toasty.multi_wcs import MultiWcsProcessor
    n = rng.choice((1, 2, 4, 7))
    items = list(range(n))
    desc = dict(stage="multi_wcs", n=n)

    def call(rec, par, bad):
        proc = MultiWcsProcessor(_FakeColl(n, rec, bad))
        proc._descs = [_FakeDesc(i) for i in range(n)]
        proc._combined_wcs = None
        proc._tile_parallel(_FakePio(), None, False, par)

    return desc, items, 2, call


def stage_transform_deep(rng, bad_items, quick):
    """85 items: more than the 16*par queue slots, so that dead workers leave the producer blocked"""
    return stage_transform(rng, bad_items, quick, depth=3)


STAGES = [stage_visit, stage_visit, stage_transform, stage_multi_tan, stage_multi_wcs]


def run_case(rng, stage_fn, with_faults=False, quick=True, replay=None, forced_bad=None, contention=False,
             mode_override=None):
    desc, items, cap_mult, call = stage_fn(rng, None, quick)
    n = len(items)
    par = rng.choice((2, 2, 3, 5))
    pcap = rng.choice((1, 2, 3, 1 << 20))
    bad = set()
    if with_faults and n:
        bad = {rng.randrange(n)}
    if forced_bad is not None:
        bad = set(forced_bad)
    mode = rng.choice(MODES)
    if mode_override:
        mode = mode_override
    length = rng.choice((40, 120, 400))
    chooser = make_chooser(rng, mode, length)
    if replay is not None:
        chooser = detsched.trace_chooser(replay["chosen"])
        par, pcap, bad = replay["par"], replay["pcap"], set(replay["bad"])
        contention = bool(replay.get("cont", False))
    sref = [None]
    rec = Rec(sref)

    def fn():
        call(rec, par, bad)

    sink = io.StringIO()
    # the scheduler object is created inside run_under; reach it through a hook
    orig_init = detsched.Scheduler.__init__

    def hooked(self, *a, **k):
        orig_init(self, *a, **k)
        sref[0] = self

    detsched.Scheduler.__init__ = hooked
    try:
        with contextlib.redirect_stdout(sink), contextlib.redirect_stderr(sink):
            outcome, val, S = detsched.run_under((), fn, pipe_cap=pcap, chooser=chooser, contention=contention)
    finally:
        detsched.Scheduler.__init__ = orig_init
    exits = []
    for i in range(par):
        a = S.actors.get(f"W{i}")
        if a is None:
            exits.append(None)
        elif not a.exited:
            exits.append(0)
        else:
            exits.append(1 + (1 if a.exitcode == 1 else 0))
    return dict(desc=desc, n=n, par=par, cap=cap_mult * par, pcap=min(pcap, 1 << 20), bad=sorted(bad), mode=mode,
                cont=bool(contention),
                outcome=outcome, error=repr(val) if outcome == "raised" else None,
                trace=S.trace, started=rec.started, finished=rec.finished, exits=exits,
                payload_ok=rec.payload_ok, notes=rec.notes, spawned=S.n_workers)


def g_case(r, fixed=True):
    exits = [e if e is not None else 0 for e in r["exits"]]
    return ("(mkVC %d %d %d %d %s %s %s %s %s %s %s %s)" % (
        r["n"], r["par"], r["cap"], r["pcap"], g_bool(fixed), g_bool(r.get("cont", False)),
        g_list([str(b) for b in r["bad"]]),
        g_trace(r["trace"]), g_bool(r["outcome"] == "returned"),
        g_list([f"({i}, {w})" for i, w in r["started"]]), g_list([str(i) for i in r["finished"]]),
        g_list([str(e) for e in exits])))


def property_fails(r):
    """C03's own statement evaluated on what the implementation did (no faults)."""
    why = []
    if r["outcome"] != "returned":
        why.append(f"did not return: {r['outcome']} {r['error']}")
    its = [i for i, _w in r["started"]]
    if sorted(its) != list(range(r["n"])):
        why.append(f"items processed {sorted(its)} != each of 0..{r['n']-1} exactly once")
    if sorted(r["finished"]) != list(range(r["n"])):
        why.append("some item not fully processed at return")
    if r["spawned"] and r["outcome"] == "returned" and any(e != 1 for e in r["exits"]):
        why.append(f"workers not all exited normally at return: {r['exits']}")
    if not r["payload_ok"]:
        why.append("a leaf was delivered with another tile's geometry: " + "; ".join(r["notes"][:2]))
    return why


def real_fork_runs(rng, n, V):
    """Leaf visits and transforms on real processes (OS scheduler), judged by the predicate."""
    import os
    import corr_C13
    from toasty import transform
    from toasty.pyramid import generate_pos
    done = 0
    for k in range(n):
        d = common.workdir() / f"c03fork{k}"
        d.mkdir(exist_ok=True)
        logf = str(d / "items.log")

        def note(tag, logf=logf):
            fd = os.open(logf, os.O_WRONLY | os.O_APPEND | os.O_CREAT)
            os.write(fd, (tag + f" {os.getpid()}\n").encode())
            os.close(fd)

        sink = io.StringIO()
        if k % 2 == 0:
            kind = rng.choice((0, 1, 2))
            depth = rng.choice((1, 2, 3))
            table = tuple(corr_C13.gen_table(rng, depth, 0.8)) if kind == 2 else ()
            want = sorted(corr_C13.observe(kind, depth, table, (0, 0, 0), False)["visit"])
            with contextlib.redirect_stdout(sink):
                corr_C13.build_pyramid(kind, depth, table, (0, 0, 0), False).visit_leaves(
                    lambda pos, tile: note(f"{pos.n} {pos.x} {pos.y}"), parallel=rng.choice((2, 3)))
            what = dict(stage="visit_leaves", kind=kind, depth=depth)
        else:
            depth = rng.choice((1, 2))
            want = sorted(tuple(p) for p in generate_pos(depth))
            with contextlib.redirect_stdout(sink):
                transform._do_a_transform(None, depth, lambda: None,
                                          lambda buf, pos, a, b: note(f"{pos.n} {pos.x} {pos.y}"), parallel=rng.choice((2, 3)))
            what = dict(stage="transform", depth=depth)
        got = []
        if os.path.exists(logf):
            got = sorted(tuple(int(x) for x in line.split()[:3]) for line in open(logf))
        if got != want:
            V.disagreement("C03 predicate on a real multi-process run", what, f"{len(want)} items each once",
                           f"{len(got)} items processed", True)
        done += 1
    return done


def run(ctx, V):
    rng = common.rng_for(ctx["seed"], "C03")
    quick = ctx["tier"] == "quick"
    n_cases = 260 if quick else 3000
    results = []
    if ctx.get("replay") and ctx["replay"].get("case", {}).get("chosen"):
        c = ctx["replay"]["case"]
        srng = common.rng_for(c["subseed"], "C03case")
        results.append(run_case(srng, STAGES[c["stage_idx"]], replay=c))
    meta = []
    for k in range(n_cases):
        sub = rng.randrange(1 << 30)
        srng = common.rng_for(sub, "C03case")
        si = k % len(STAGES)
        # every third case admits Empty under reader-lock contention; half of those prefer it
        r = run_case(srng, STAGES[si], quick=quick, contention=(k % 3 == 2),
                     mode_override="contend" if k % 6 == 5 else None)
        r["subseed"], r["stage_idx"] = sub, si
        results.append(r)
    terms = []
    idx = []
    for j, r in enumerate(results):
        if r["spawned"] == 0:
            # "Nothing to do": the stage returns before creating any worker
            if r["n"] != 0 or r["outcome"] != "returned":
                V.disagreement("VisitPar.v ~ implementation: early return only for empty item sets",
                               dict(desc=r["desc"]), "workers are created when items exist", r["outcome"], True)
            continue
        terms.append(g_case(r))
        idx.append(j)
    bad = common.coq_eval_sharded(COQ_DEFS, terms, "chk", ["Model.VisitPar"], shard=40, jobs=14, name="c03")
    hist = {}
    nontrivial = set()
    n_ctimeouts = 0
    for j, r in enumerate(results):
        key = f"{r['desc']['stage']}/par{r['par']}/{r['mode']}" + ("/contention" if r.get("cont") else "")
        hist[key] = hist.get(key, 0) + 1
        kinds = {ch[0] for _en, ch in r["trace"]}
        n_ctimeouts += sum(1 for _en, ch in r["trace"] if ch[0] == "CTimeout")
        if "Timeout" in kinds and r["n"] >= 2:
            nontrivial.add((str(r["desc"]), r["par"], r["pcap"], tuple(ch for _e, ch in r["trace"])))
    for t_i, j in enumerate(idx):
        r = results[j]
        why = property_fails(r)
        if t_i in bad or why:
            code = bad.get(t_i, 0)
            rel = ("VisitPar.v ~ implementation: " +
                   (f"trace step {code - 1000} (enabled set / chosen action)" if code >= 1000 else
                    {1: "returned", 2: "started (item, worker) sequence", 3: "finished items", 4: "worker exit states",
                     0: "agrees; C03 predicate fails on implementation"}[code]))
            case = dict(desc=r["desc"], par=r["par"], pcap=r["pcap"], bad=r["bad"], cont=r.get("cont", False),
                        subseed=r.get("subseed"),
                        stage_idx=r.get("stage_idx"), chosen=[list(ch) for _e, ch in r["trace"]])
            V.disagreement(rel, case, "model replay of the recorded trace; theorem visit_terminal",
                           dict(outcome=r["outcome"], started=r["started"][:20], exits=r["exits"], why=why), bool(why))
    # search for a failing input: stages whose trace the model rejects although the outcome satisfied the
    # statement are re-run under many more schedules that let the workers poll right before the shutdown flag
    n_search = 0
    sus = [idx[t_i] for t_i in sorted(bad)]
    if sus and not any(property_fails(results[j]) for j in sus):
        found = False
        for j in sus[:4]:
            si = results[j].get("stage_idx", 0)
            for t in range(400 if quick else 1500):
                srng = common.rng_for(rng.randrange(1 << 30), "C03search")
                r = run_case(srng, STAGES[si], quick=quick, mode_override=srng.choice(("late_flag", "late_flag", "eager_poll", "starve_feeder")))
                n_search += 1
                why = property_fails(r)
                if why:
                    V.disagreement("C03 predicate on implementation (found by searching schedules of a stage the model rejects)",
                                   dict(desc=r["desc"], par=r["par"], pcap=r["pcap"], bad=r["bad"], cont=False, stage_idx=si,
                                        chosen=[list(ch) for _e, ch in r["trace"]]),
                                   "every item exactly once, then return",
                                   dict(outcome=r["outcome"], started=r["started"][:20], exits=r["exits"], why=why), True)
                    found = True
                    break
            if found:
                break
    samples = [dict(desc=r["desc"], par=r["par"], pcap=r["pcap"], mode=r["mode"], steps=len(r["trace"]),
                    first_actions=[list(ch) for _e, ch in r["trace"][:10]]) for r in results[:3]]
    n_fork = real_fork_runs(rng, 4 if quick else 24, V)
    return dict(evaluations=len(results) + n_fork, distinct_nontrivial=len(nontrivial), real_fork_runs=n_fork,
                traces_validated_against_impl=len(terms), schedules_searched_after_a_disagreement=n_search,
                cases_with_lock_contention=sum(1 for r in results if r.get("cont")),
                contended_empty_exceptions_taken=n_ctimeouts,
                scheduler_steps=sum(len(r["trace"]) for r in results),
                rule="each case: one of the four real stages with random item set (pyramid kind/depth/filter/apex or input "
                     "count), par in {2,3,5}, pipe capacity in {1,2,3,unbounded}, schedule drawn from a biased chooser "
                     "(uniform / eager polling / starved feeder / producer first / slow worker / timeouts right before the "
                     "flag / contended Empty) for 40-400 steps then a progress-first fallback; non-trivial = distinct (stage, params, action "
                     "sequence) with >= 2 items and at least one queue timeout",
                input_histogram=hist, samples=samples)
